#!/usr/bin/env python3
"""Writes ir/http.json: the 'universal' service used by the loopback harness (E3b)."""
import json, os, sys
sys.path.insert(0, os.path.join(os.path.dirname(os.path.abspath(__file__)), "..", "lib"))
from conjure_ir import *

P = "com.verif.http"
r = lambda n: ref(n, P)
S, I, D, B = prim("STRING"), prim("INTEGER"), prim("DOUBLE"), prim("BOOLEAN")

types = [
    enum("Color", ["RED", "GREEN", "DARK_BLUE"], P),
    alias("StrAlias", S, P),
    alias("OptStrAlias", opt(S), P),
    alias("IntListAlias", lst(I), P),
    alias("BinAlias", prim("BINARY"), P),
    # aliases of every PLAIN-capable primitive (their PLAIN text is the primitive's, not Display's)
    alias("DtAlias", prim("DATETIME"), P),
    alias("DtAliasAlias", r("DtAlias"), P),
    alias("DblAlias", D, P),
    alias("UuidAlias", prim("UUID"), P),
    alias("BoolAlias", B, P),
    alias("SlAlias", prim("SAFELONG"), P),
    alias("RidAlias", prim("RID"), P),
    alias("IntAlias", I, P),
    obj("Payload", [
        field("name", S),
        field("count", I),
        field("tags", lst(S)),
        field("nested", opt(r("Payload"))),
        field("ratio", D),
        field("extra", opt(prim("ANY"))),
        field("blob", opt(prim("BINARY"))),
        field("byKey", mp(S, r("Color"))),
    ], P),
    union("Choice", [field("text", S), field("payload", r("Payload")), field("numbers", st(I))], P),
    # generated types that hold bearer tokens: their Debug rendering must not show the token
    # mutually recursive objects one of which holds an unsafe string (none of them is safe), and a
    # union whose listed members are all safe (not safe either: unlisted variants carry anything)
    obj("Tee", [field("wrapper", opt(r("Wrapper"))), field("secret", S, safety="UNSAFE")], P),
    obj("Wrapper", [field("tee", opt(r("Tee"))), field("link", opt(r("Link")))], P),
    obj("Link", [field("wrapper", opt(r("Wrapper")))], P),
    alias("SafeLabel", S, P, safety="SAFE"),
    union("SafeChoice", [field("label", r("SafeLabel")), field("level", r("Color"))], P),
    alias("TokenAlias", prim("BEARERTOKEN"), P),
    alias("TokenAliasAlias", r("TokenAlias"), P),
    alias("OptTokenAlias", opt(prim("BEARERTOKEN")), P),
    alias("TokenSetAlias", st(prim("BEARERTOKEN")), P),
    obj("Credentials", [
        field("token", prim("BEARERTOKEN")),
        field("alias", r("TokenAlias")),
        field("aliasAlias", r("TokenAliasAlias")),
        field("maybe", r("OptTokenAlias")),
        field("many", lst(r("TokenAliasAlias"))),
        field("set", r("TokenSetAlias")),
        field("byName", mp(S, prim("BEARERTOKEN"))),
        field("byToken", mp(r("TokenAlias"), I)),
    ], P),
    union("Secret", [field("token", prim("BEARERTOKEN")), field("alias", r("TokenAliasAlias")), field("creds", r("Credentials"))], P),
]

svc = service("UniversalService", [
    endpoint("pathParams", "GET", "/u/path/{fooBar}/{type}/lit/{rid}", [
        arg("fooBar", S, "path"), arg("type", r("StrAlias"), "path"), arg("rid", prim("RID"), "path"),
    ], returns=lst(S)),
    endpoint("scalars", "GET", "/u/scalars/{b}/{d}/{u}/{dt}/{sl}/{e}/{i}", [
        arg("b", B, "path"), arg("d", D, "path"), arg("u", prim("UUID"), "path"), arg("dt", prim("DATETIME"), "path"),
        arg("sl", prim("SAFELONG"), "path"), arg("e", r("Color"), "path"), arg("i", I, "path"),
        arg("tok", prim("BEARERTOKEN"), "header", "X-Tok"),
    ]),
    endpoint("queryParams", "GET", "/u/query", [
        arg("q", S, "query", "q"),
        arg("optInt", opt(I), "query", "optInt"),
        arg("strs", lst(S), "query", "strs"),
        arg("strSet", st(S), "query", "str-set"),
        arg("colors", lst(r("Color")), "query", "colors"),
        arg("optAlias", r("OptStrAlias"), "query", "optAlias"),
        arg("listAlias", r("IntListAlias"), "query", "listAlias"),
        arg("flag", B, "query", "flag"),
        arg("optDouble", opt(D), "query", "optDouble"),
    ], returns=mp(S, S)),
    endpoint("listFirst", "GET", "/u/listfirst", [
        arg("items", lst(S), "query", "items"),
        arg("tags", st(S), "query", "tags"),
        arg("optStr", opt(S), "query", "opt"),
        arg("tail", lst(I), "query", "tail"),
    ]),
    endpoint("keywords", "GET", "/u/kw/{type}/{match}", [
        arg("type", I, "path"),
        arg("match", prim("UUID"), "path"),
        arg("ref", I, "query", "ref"),
        arg("loop", opt(B), "query", "loop"),
        arg("fn", I, "header", "X-Fn"),
        arg("self", opt(D), "header", "X-Self"),
    ], returns=I),
    endpoint("headers", "GET", "/u/headers", [
        arg("xStr", S, "header", "X-Str"),
        arg("xOptInt", opt(I), "header", "X-Opt-Int"),
        arg("xAlias", r("StrAlias"), "header", "X-Alias"),
        arg("xEnum", r("Color"), "header", "X-Enum"),
        arg("xOptAlias", r("OptStrAlias"), "header", "X-Opt-Alias"),
        arg("xOptUuid", opt(prim("UUID")), "header", "X-Opt-Uuid"),
    ], returns=opt(S)),
    endpoint("authHeaderBody", "POST", "/u/auth/header", [arg("body", r("Payload"), "body")], returns=r("Payload"), auth="header"),
    endpoint("authCookie", "GET", "/u/auth/cookie", [], returns=st(S), auth="PALANTIR_TOKEN"),
    endpoint("bodyOptional", "POST", "/u/body/optional", [arg("body", opt(r("Payload")), "body")], returns=opt(r("Payload"))),
    endpoint("bodyAliasOpt", "POST", "/u/body/aliasopt", [arg("body", r("OptStrAlias"), "body")], returns=r("OptStrAlias")),
    endpoint("bodyCollections", "POST", "/u/body/collections", [arg("body", mp(S, lst(I)), "body")], returns=mp(S, lst(I))),
    endpoint("bodyUnion", "POST", "/u/body/union", [arg("body", r("Choice"), "body")], returns=r("Choice")),
    endpoint("bodyAny", "POST", "/u/body/any", [arg("body", prim("ANY"), "body")], returns=prim("ANY")),
    endpoint("bodyDoubleSet", "POST", "/u/body/doubleset", [arg("body", st(D), "body")], returns=st(D)),
    endpoint("bodyListAlias", "POST", "/u/body/listalias", [arg("body", r("IntListAlias"), "body")], returns=r("IntListAlias")),
    endpoint("bodyBinary", "POST", "/u/body/binary", [arg("body", prim("BINARY"), "body")], returns=prim("BINARY")),
    endpoint("optBinary", "GET", "/u/optbinary", [arg("present", B, "query", "present")], returns=opt(prim("BINARY"))),
    endpoint("binAlias", "POST", "/u/body/binalias", [arg("body", r("BinAlias"), "body")], returns=r("BinAlias")),
    endpoint("smallBody", "POST", "/u/body/small", [arg("body", S, "body")], returns=S, tags=["server-limit-request-size: 8b"]),
    endpoint("limitPlain", "POST", "/u/limit/limitPlain", [arg("body", S, "body")], returns=S, tags=["server-limit-request-size: 77"]),
    endpoint("limitK", "POST", "/u/limit/limitK", [arg("body", S, "body")], returns=S, tags=["server-limit-request-size: 3k"]),
    endpoint("limitKi", "POST", "/u/limit/limitKi", [arg("body", S, "body")], returns=S, tags=["server-limit-request-size: 3 ki"]),
    endpoint("limitMb", "POST", "/u/limit/limitMb", [arg("body", S, "body")], returns=S, tags=["server-limit-request-size: 3 mb"]),
    endpoint("limitM", "POST", "/u/limit/limitM", [arg("body", S, "body")], returns=S, tags=["server-limit-request-size: 5M"]),
    endpoint("limitMib", "POST", "/u/limit/limitMib", [arg("body", S, "body")], returns=S, tags=["server-limit-request-size: 1MiB"]),
    endpoint("limitMi", "POST", "/u/limit/limitMi", [arg("body", S, "body")], returns=S, tags=["server-limit-request-size: 2 mi"]),
    endpoint("limitG", "POST", "/u/limit/limitG", [arg("body", S, "body")], returns=S, tags=["server-limit-request-size: 1g"]),
    endpoint("limitGb", "POST", "/u/limit/limitGb", [arg("body", S, "body")], returns=S, tags=["server-limit-request-size: 2 GB"]),
    endpoint("limitGib", "POST", "/u/limit/limitGib", [arg("body", S, "body")], returns=S, tags=["server-limit-request-size: 2 GiB"]),
    endpoint("limitGi", "POST", "/u/limit/limitGi", [arg("body", S, "body")], returns=S, tags=["server-limit-request-size: 1gi"]),
    endpoint("limitT", "POST", "/u/limit/limitT", [arg("body", S, "body")], returns=S, tags=["server-limit-request-size: 1t"]),
    endpoint("limitTb", "POST", "/u/limit/limitTb", [arg("body", S, "body")], returns=S, tags=["server-limit-request-size: 1tb"]),
    endpoint("limitTib", "POST", "/u/limit/limitTib", [arg("body", S, "body")], returns=S, tags=["server-limit-request-size: 1 TiB"]),
    endpoint("limitTi", "POST", "/u/limit/limitTi", [arg("body", S, "body")], returns=S, tags=["server-limit-request-size: 2ti"]),
    endpoint("limitB", "POST", "/u/limit/limitB", [arg("body", S, "body")], returns=S, tags=["server-limit-request-size: 15b"]),
    # an optional body on an endpoint that also carries a size-limit tag: absent stays absent
    endpoint("limitOptional", "POST", "/u/body/limitopt", [arg("body", opt(r("Payload")), "body")], returns=opt(r("Payload")), tags=["server-limit-request-size: 1 kb"]),
    endpoint("limitAliasOpt", "POST", "/u/body/limitaliasopt", [arg("body", r("OptStrAlias"), "body")], returns=r("OptStrAlias"), tags=["server-limit-request-size: 1 kb"]),
    endpoint("kbBody", "POST", "/u/body/kb", [arg("body", S, "body")], returns=S, tags=["server-limit-request-size: 1 kb"]),
    endpoint("kibBody", "POST", "/u/body/kib", [arg("body", S, "body")], returns=S, tags=["other-tag", "server-limit-request-size:2Ki"]),
    endpoint("safeMix", "GET", "/u/safe/{safePath}/{unsafePath}", [
        arg("safePath", S, "path", safety="SAFE"),
        arg("unsafePath", S, "path"),
        arg("safeQuery", S, "query", "sq", markers=[SAFE_MARKER]),
        arg("unsafeQuery", S, "query", "uq"),
        arg("safeHeader", S, "header", "X-Safe", tags=["safe"]),
        arg("unsafeHeader", S, "header", "X-Unsafe"),
        arg("dnlQuery", opt(S), "query", "dnl", safety="DO_NOT_LOG"),
        arg("enumQuery", opt(r("Color")), "query", "color"),
        arg("unsafeEnumQuery", opt(r("Color")), "query", "ucolor", safety="UNSAFE"),
    ], auth="header"),
    # tags and markers that merely look like the legacy safe ones: none of these arguments is safe
    # except the last
    endpoint("tagMix", "GET", "/u/tagmix/{plainPath}", [
        arg("plainPath", S, "path", tags=["safety-review-pending"]),
        arg("retryQuery", S, "query", "rq", tags=["safe-to-retry", "safe:"]),
        arg("unsafeTagQuery", S, "query", "utq", tags=["unsafe", "notsafe"]),
        arg("upperHeader", S, "header", "X-Upper", tags=["SAFE", "Safe", " safe"]),
        arg("markerAlike", S, "query", "ma", markers=[external("Safe", "com.other", prim("ANY")), external("SafeArg", "com.palantir.logsafe", prim("ANY")), external("Unsafe", "com.palantir.logsafe", prim("ANY"))]),
        arg("realSafe", S, "query", "rs", tags=["incubating", "safe"]),
    ]),
    # (declared in this order: the generator meets Tee before Wrapper)
    endpoint("teeBody", "POST", "/u/rec/tee/{id}", [arg("id", I, "path", safety="SAFE"), arg("body", r("Tee"), "body")]),
    endpoint("wrapperBody", "POST", "/u/rec/wrapper/{id}", [arg("id", I, "path", safety="SAFE"), arg("body", r("Wrapper"), "body")]),
    endpoint("linkBody", "POST", "/u/rec/link/{id}", [arg("id", I, "path", safety="SAFE"), arg("body", lst(r("Link")), "body")]),
    endpoint("safeChoiceBody", "POST", "/u/safechoice/{id}", [arg("id", I, "path", safety="SAFE"), arg("body", r("SafeChoice"), "body")]),
    endpoint("safeBody", "POST", "/u/safebody/{id}", [
        arg("id", I, "path", safety="SAFE"),
        arg("body", r("Payload"), "body"),
    ], returns=I),
    # undeclared collection bodies whose safety hinges on one side of a map / on an element
    endpoint("enumMapBody", "POST", "/u/enummap/{id}", [
        arg("id", I, "path", safety="SAFE"),
        arg("body", mp(r("Color"), r("StrAlias")), "body"),
    ]),
    endpoint("safeEnumMapBody", "POST", "/u/safeenummap/{id}", [
        arg("id", I, "path"),
        arg("body", mp(r("Color"), lst(r("Color"))), "body"),
    ]),
    # arguments whose wire id equals their (multi-word) name: no log_as is needed to tell them apart
    endpoint("sameIds", "GET", "/u/sameids/{pathWord}", [
        arg("pathWord", S, "path", safety="SAFE"),
        arg("pageToken", S, "query", "pageToken", safety="SAFE"),
        arg("pageSize", opt(I), "query", "pageSize", safety="SAFE"),
        arg("secretWord", S, "query", "secretWord"),
        arg("traceId", S, "header", "traceId", safety="SAFE"),
        arg("unsafeHeader", opt(I), "header", "unsafeHeader"),
    ]),
    # path arguments declared in another order than the template uses them, a query argument between
    endpoint("outOfOrder", "GET", "/u/ooo/{first}/mid/{second}/{third}", [
        arg("third", I, "path"),
        arg("second", S, "path"),
        arg("q", opt(S), "query", "q"),
        arg("first", S, "path"),
    ], returns=S),
    # exactly one query argument (its wire id differs from its name)
    # safe collections next to a non-safe argument in one query string (pairs of one key need not
    # be neighbours)
    endpoint("safeList", "GET", "/u/safelist", [
        arg("safeTags", st(S), "query", "tag", safety="SAFE"),
        arg("secretWord", S, "query", "secret"),
        arg("safeIds", lst(S), "query", "id", safety="SAFE"),
    ]),
    endpoint("enumList", "GET", "/u/enums", [], returns=lst(r("Color"))),
    endpoint("oneQuery", "GET", "/u/one", [arg("pageLimit", opt(I), "query", "limit")], returns=I),
    endpoint("oneQueryRequired", "GET", "/u/onereq", [arg("theId", I, "query", "id")], returns=I),
    endpoint("aliasParams", "GET", "/u/aliases/{dt}/{dbl}", [
        arg("dt", r("DtAlias"), "path"),
        arg("dbl", r("DblAlias"), "path"),
        arg("u", r("UuidAlias"), "query", "u"),
        arg("b", r("BoolAlias"), "query", "b"),
        arg("sl", opt(r("SlAlias")), "query", "sl"),
        arg("dts", lst(r("DtAliasAlias")), "query", "dts"),
        arg("rid", r("RidAlias"), "header", "X-Rid"),
        arg("n", opt(r("IntAlias")), "header", "X-N"),
    ], returns=S),
    endpoint("context", "GET", "/u/context", [arg("arg", opt(S), "query", "arg")], tags=["server-request-context"]),
    endpoint("noop", "POST", "/u/noop", []),
], P)

out = os.path.join(os.path.dirname(os.path.abspath(__file__)), "http.json")
json.dump(ir(types, [svc]), open(out, "w"), indent=1)
print("wrote", out)
