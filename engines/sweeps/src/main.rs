//! E4 — exhaustive sweeps over scalar domains (C12, C14 runtime part, C15, C16).
mod c12;
mod c14;
mod c15;
mod c16;

use vcommon::{Args, Report};

fn main() {
    let args = Args::parse();
    vcommon::quiet_panics();
    let report: Report = match args.property.as_str() {
        "C12" => c12::run(&args),
        "C14" => c14::run(&args),
        "C15" => c15::run(&args),
        "C16" => c16::run(&args),
        other => panic!("sweeps: unknown property {}", other),
    };
    report.write(&args.out);
}
