//! E4 — exhaustive sweeps over scalar domains (C12, C14 runtime part, C15, C16).
mod c16;

use vcommon::{Args, Report};

fn main() {
    let args = Args::parse();
    vcommon::quiet_panics();
    let report: Report = match args.property.as_str() {
        "C16" => c16::run(&args),
        other => panic!("sweeps: unknown property {}", other),
    };
    report.write(&args.out);
}
