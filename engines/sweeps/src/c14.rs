//! C14 (runtime part) — `DoubleKey` and the `DoubleOps` compositions generated code relies
//! on, reached through educe-derived structs built exactly like generated objects.
//! Space: per type a value set built from the f64 alphabet (−∞, −1, −0.0, +0.0, 1, +∞,
//! three NaN bit patterns), absent vs empty, prefix-related lists/maps; all ordered
//! triples. Oracle: vcommon::laws + "NaN is greatest and equals every NaN".

use conjure_object::private::{DoubleOps, Educe};
use conjure_object::DoubleKey;
use serde_json::json;
use std::cmp::Ordering;
use std::collections::{BTreeMap, BTreeSet};
use std::fmt::Debug;
use std::hash::Hash;
use vcommon::{laws, Args, Report};

fn doubles() -> Vec<f64> {
    vec![
        f64::NEG_INFINITY,
        -1.0,
        -0.0,
        0.0,
        1.0,
        f64::INFINITY,
        f64::from_bits(0x7ff8_0000_0000_0000),
        f64::from_bits(0x7ff8_0000_0000_0001),
        f64::from_bits(0xfff8_0000_0000_0000),
    ]
}

/// reduced alphabet for two-element containers
fn doubles_small() -> Vec<f64> {
    vec![-0.0, 0.0, 1.0, f64::NAN, f64::from_bits(0xfff8_0000_0000_0001)]
}

macro_rules! educe_struct {
    ($name:ident, $t:ty) => {
        #[derive(Debug, Clone, Educe)]
        #[educe(PartialEq, Eq, PartialOrd, Ord, Hash)]
        struct $name {
            #[educe(
                PartialEq(method(DoubleOps::eq)),
                Ord(method(DoubleOps::cmp)),
                Hash(method(DoubleOps::hash))
            )]
            a: $t,
        }
    };
}

educe_struct!(SDouble, f64);
educe_struct!(SOpt, Option<f64>);
educe_struct!(SList, Vec<f64>);
educe_struct!(SMap, BTreeMap<String, f64>);
educe_struct!(SOptList, Option<Vec<f64>>);
educe_struct!(SListOpt, Vec<Option<f64>>);
educe_struct!(SKeyMap, BTreeMap<DoubleKey, f64>);
educe_struct!(SListList, Vec<Vec<f64>>);
educe_struct!(SMapMap, BTreeMap<String, BTreeMap<String, f64>>);
educe_struct!(SMapList, BTreeMap<String, Vec<f64>>);
educe_struct!(SListMap, Vec<BTreeMap<String, f64>>);

/// two fields, like a generated object {a: double, b: list<double>, c: string}
#[derive(Debug, Clone, Educe)]
#[educe(PartialEq, Eq, PartialOrd, Ord, Hash)]
struct STwo {
    #[educe(
        PartialEq(method(DoubleOps::eq)),
        Ord(method(DoubleOps::cmp)),
        Hash(method(DoubleOps::hash))
    )]
    a: f64,
    #[educe(
        PartialEq(method(DoubleOps::eq)),
        Ord(method(DoubleOps::cmp)),
        Hash(method(DoubleOps::hash))
    )]
    b: Vec<f64>,
    c: String,
}

/// set / key positions use DoubleKey with the ordinary derives
#[derive(Debug, Clone, PartialEq, Eq, PartialOrd, Ord, Hash)]
struct SSet {
    a: BTreeSet<DoubleKey>,
    b: BTreeMap<DoubleKey, Vec<Option<DoubleKey>>>,
}

/// a union-like enum as generated for unions holding doubles
#[derive(Debug, Clone, Educe)]
#[educe(PartialEq, Eq, PartialOrd, Ord, Hash)]
#[repr(u32)]
enum UDouble {
    A(
        #[educe(
            PartialEq(method(DoubleOps::eq)),
            Ord(method(DoubleOps::cmp)),
            Hash(method(DoubleOps::hash))
        )]
        f64,
    ),
    B(
        #[educe(
            PartialEq(method(DoubleOps::eq)),
            Ord(method(DoubleOps::cmp)),
            Hash(method(DoubleOps::hash))
        )]
        Vec<f64>,
    ),
    C(i32),
}

fn lists() -> Vec<Vec<f64>> {
    let s = doubles_small();
    let mut out = vec![vec![]];
    for a in &s {
        out.push(vec![*a]);
    }
    for a in &s {
        for b in &s {
            out.push(vec![*a, *b]);
        }
    }
    out
}

fn maps() -> Vec<BTreeMap<String, f64>> {
    let s = doubles_small();
    let mut out = vec![BTreeMap::new()];
    for k in ["a", "b"] {
        for a in &s {
            out.push([(k.to_string(), *a)].into_iter().collect());
        }
    }
    for a in &s {
        for b in &s {
            out.push([("a".to_string(), *a), ("b".to_string(), *b)].into_iter().collect());
        }
    }
    out
}

struct Ctx<'a> {
    report: &'a mut Report,
}

fn run_type<T>(ctx: &mut Ctx, name: &str, vals: Vec<T>)
where
    T: Ord + Eq + Hash + Clone + Debug,
{
    let mut fails = vec![];
    let stats = laws::check_laws(&vals, |law, d| fails.push((law.to_string(), d)));
    let r = &mut *ctx.report;
    r.states += vals.len() as u64;
    r.transitions += stats.pairs;
    r.evaluations += stats.triples;
    r.nontrivial += stats.distinct_classes;
    r.outcome_n("pairs:equal", stats.equal_pairs);
    r.outcome_n("pairs:unequal", stats.pairs - stats.equal_pairs);
    r.extra.insert(
        format!("type:{}", name),
        json!({"values": vals.len(), "equivalence_classes": stats.distinct_classes, "triples": stats.triples}),
    );
    if vals.len() > 2 {
        r.sample(name, json!(format!("{:?}", &vals[vals.len() / 2])));
    }
    for (law, d) in fails {
        r.violation(
            format!("C14|runtime|{}|{}", name, law),
            format!("{}: law {} violated: {}", name, law, d),
            json!({"type": name, "law": law}),
        );
    }
}

pub fn run(args: &Args) -> Report {
    let mut report = Report::new("C14", "model_checking");
    let _ = &args.replay; // replay = re-run: the space is tiny and deterministic
    let d = doubles();
    {
        let mut ctx = Ctx { report: &mut report };
        run_type(&mut ctx, "DoubleKey", d.iter().map(|x| DoubleKey(*x)).collect());
        run_type(&mut ctx, "struct{f64}", d.iter().map(|x| SDouble { a: *x }).collect());
        let mut opts: Vec<SOpt> = vec![SOpt { a: None }];
        opts.extend(d.iter().map(|x| SOpt { a: Some(*x) }));
        run_type(&mut ctx, "struct{Option<f64>}", opts);
        run_type(&mut ctx, "struct{Vec<f64>}", lists().into_iter().map(|a| SList { a }).collect());
        run_type(&mut ctx, "struct{BTreeMap<String,f64>}", maps().into_iter().map(|a| SMap { a }).collect());
        let mut ol: Vec<SOptList> = vec![SOptList { a: None }];
        ol.extend(lists().into_iter().map(|a| SOptList { a: Some(a) }));
        run_type(&mut ctx, "struct{Option<Vec<f64>>}", ol);
        let s = doubles_small();
        let mut lo: Vec<SListOpt> = vec![SListOpt { a: vec![] }, SListOpt { a: vec![None] }, SListOpt { a: vec![None, None] }];
        for a in &s {
            lo.push(SListOpt { a: vec![Some(*a)] });
            lo.push(SListOpt { a: vec![None, Some(*a)] });
            lo.push(SListOpt { a: vec![Some(*a), None] });
        }
        run_type(&mut ctx, "struct{Vec<Option<f64>>}", lo);
        let mut km: Vec<SKeyMap> = vec![SKeyMap { a: BTreeMap::new() }];
        for k in &s {
            for v in &s {
                km.push(SKeyMap { a: [(DoubleKey(*k), *v)].into_iter().collect() });
            }
        }
        km.push(SKeyMap { a: [(DoubleKey(0.0), 1.0), (DoubleKey(f64::NAN), f64::NAN)].into_iter().collect() });
        run_type(&mut ctx, "struct{BTreeMap<DoubleKey,f64>}", km);
        let ls = lists();
        let mut ll: Vec<SListList> = vec![SListList { a: vec![] }];
        for a in ls.iter().take(12) {
            ll.push(SListList { a: vec![a.clone()] });
            ll.push(SListList { a: vec![a.clone(), vec![]] });
            ll.push(SListList { a: vec![vec![], a.clone()] });
        }
        run_type(&mut ctx, "struct{Vec<Vec<f64>>}", ll);
        let ms = maps();
        let mut mm: Vec<SMapMap> = vec![SMapMap { a: BTreeMap::new() }];
        for m in ms.iter().take(14) {
            mm.push(SMapMap { a: [("a".to_string(), m.clone())].into_iter().collect() });
            mm.push(SMapMap { a: [("b".to_string(), m.clone())].into_iter().collect() });
        }
        run_type(&mut ctx, "struct{BTreeMap<String,BTreeMap<String,f64>>}", mm);
        let mut ml: Vec<SMapList> = vec![SMapList { a: BTreeMap::new() }];
        for l in ls.iter().take(16) {
            ml.push(SMapList { a: [("a".to_string(), l.clone())].into_iter().collect() });
        }
        run_type(&mut ctx, "struct{BTreeMap<String,Vec<f64>>}", ml);
        let mut lm: Vec<SListMap> = vec![SListMap { a: vec![] }];
        for m in ms.iter().take(16) {
            lm.push(SListMap { a: vec![m.clone()] });
        }
        run_type(&mut ctx, "struct{Vec<BTreeMap<String,f64>>}", lm);
        let mut two = vec![];
        for a in &s {
            for b in ls.iter().take(7) {
                for c in ["", "x"] {
                    two.push(STwo { a: *a, b: b.clone(), c: c.to_string() });
                }
            }
        }
        run_type(&mut ctx, "struct{f64,Vec<f64>,String}", two);
        let mut sets = vec![SSet { a: BTreeSet::new(), b: BTreeMap::new() }];
        for a in &d {
            sets.push(SSet { a: [DoubleKey(*a)].into_iter().collect(), b: BTreeMap::new() });
            sets.push(SSet { a: [DoubleKey(*a), DoubleKey(1.0)].into_iter().collect(), b: BTreeMap::new() });
            sets.push(SSet { a: BTreeSet::new(), b: [(DoubleKey(*a), vec![None, Some(DoubleKey(*a))])].into_iter().collect() });
        }
        run_type(&mut ctx, "struct{BTreeSet<DoubleKey>,BTreeMap<DoubleKey,..>}", sets);
        // the key wrapper inside std containers, hashed and compared by std's own impls (these
        // go through Hash::hash_slice and the slice / tuple / Option orders): what generated code
        // holds for set<list<double>>, map<optional<double>, ..>, ...
        let mut kl: Vec<Vec<DoubleKey>> = vec![vec![]];
        for a in &d {
            kl.push(vec![DoubleKey(*a)]);
            for b in &s {
                kl.push(vec![DoubleKey(*a), DoubleKey(*b)]);
            }
        }
        run_type(&mut ctx, "Vec<DoubleKey>", kl.clone());
        run_type(&mut ctx, "Box<[DoubleKey]>", kl.iter().take(30).map(|v| v.clone().into_boxed_slice()).collect());
        run_type(&mut ctx, "BTreeSet<Vec<DoubleKey>>", kl.iter().take(24).map(|v| [v.clone(), vec![DoubleKey(1.0)]].into_iter().collect::<BTreeSet<_>>()).collect());
        let mut ko: Vec<Option<DoubleKey>> = vec![None];
        ko.extend(d.iter().map(|a| Some(DoubleKey(*a))));
        run_type(&mut ctx, "Option<DoubleKey>", ko);
        let mut kt: Vec<(DoubleKey, [DoubleKey; 2])> = vec![];
        for a in &s {
            for b in &s {
                kt.push((DoubleKey(*a), [DoubleKey(*b), DoubleKey(*a)]));
            }
        }
        run_type(&mut ctx, "(DoubleKey,[DoubleKey;2])", kt);
        let mut us = vec![UDouble::C(0), UDouble::C(1)];
        for a in &d {
            us.push(UDouble::A(*a));
        }
        for l in ls.iter().take(10) {
            us.push(UDouble::B(l.clone()));
        }
        run_type(&mut ctx, "enum{A(f64),B(Vec<f64>),C(i32)}", us);
    }

    // NaN greatest, all NaNs equal — on the primitive wrapper and the DoubleOps entry point
    for a in &d {
        for b in &d {
            report.evaluations += 2;
            let want = match (a.is_nan(), b.is_nan()) {
                (true, true) => Ordering::Equal,
                (true, false) => Ordering::Greater,
                (false, true) => Ordering::Less,
                (false, false) => a.partial_cmp(b).unwrap(),
            };
            let got_key = DoubleKey(*a).cmp(&DoubleKey(*b));
            let got_ops = DoubleOps::cmp(a, b);
            for (name, got) in [("DoubleKey", got_key), ("DoubleOps", got_ops)] {
                if got != want {
                    report.violation(
                        format!("C14|runtime|{}|nan-greatest-total-order", name),
                        format!("{}: cmp({:?} [{:#x}], {:?} [{:#x}]) = {:?}, expected {:?}", name, a, a.to_bits(), b, b.to_bits(), got, want),
                        json!({"type": name, "a_bits": a.to_bits(), "b_bits": b.to_bits()}),
                    );
                }
            }
        }
    }
    report.bound("f64_alphabet_bits", json!(d.iter().map(|x| format!("{:#018x}", x.to_bits())).collect::<Vec<_>>()));
    report.bound("container_sizes", json!([0, 1, 2]));
    report.rule = "per type, all ordered pairs and triples over the value set; non-trivial = number of distinct equivalence classes per type (summed)".into();
    report.assumptions.push("f64 values outside the alphabet behave like the representative of their class (negative, zero of either sign, positive, infinities, NaN of any payload/sign)".into());
    report
}
