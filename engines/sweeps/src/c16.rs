//! C16 — bearer tokens and resource identifiers are validated exactly on every entry path.
//!
//! Space: every string over a boundary alphabet up to a length bound (tokens); every
//! string assembled from a symbol alphabet (`ri`, `.`, one representative per character
//! class) up to a symbol-count bound, plus the full product of prefix/separator variants
//! × components (rids); every component 4-tuple (from_components).
//! Oracle: hand-written recognisers derived from the specification grammar, not from the
//! implementation's table/regex.

use conjure_object::{Any, BearerToken, FromPlain, ResourceIdentifier, ToPlain};
use rayon::prelude::*;
use serde_json::json;
use std::collections::BTreeMap;
use std::str::FromStr;
use vcommon::{enumerate, Args, Report};

// ---------------------------------------------------------------- reference models

fn tok_char(c: char) -> bool {
    c.is_ascii_alphanumeric() || matches!(c, '-' | '.' | '_' | '~' | '+' | '/')
}

/// ^[A-Za-z0-9\-._~+/]+=*$  as an explicit three-state machine.
pub fn model_token(s: &str) -> bool {
    let mut st = 0u8;
    for c in s.chars() {
        st = match (st, c) {
            (0, c) | (1, c) if tok_char(c) => 1,
            (1, '=') | (2, '=') => 2,
            _ => return false,
        };
    }
    st == 1 || st == 2
}

fn lower(c: char) -> bool {
    c.is_ascii_lowercase()
}
fn lower_digit(c: char) -> bool {
    c.is_ascii_lowercase() || c.is_ascii_digit()
}
fn valid_service(s: &str) -> bool {
    let mut it = s.chars();
    match it.next() {
        Some(c) if lower(c) => {}
        _ => return false,
    }
    it.all(|c| lower_digit(c) || c == '-')
}
fn valid_instance(s: &str) -> bool {
    let mut it = s.chars();
    match it.next() {
        None => return true,
        Some(c) if lower_digit(c) => {}
        _ => return false,
    }
    it.all(|c| lower_digit(c) || c == '-')
}
fn valid_locator(s: &str) -> bool {
    !s.is_empty()
        && s.chars()
            .all(|c| c.is_ascii_alphanumeric() || matches!(c, '_' | '.' | '-'))
}

/// ri.<service>.<instance>.<type>.<locator>; the first three components cannot contain a
/// dot, so the split is at the first four dots.
pub fn model_rid(s: &str) -> Option<[&str; 4]> {
    let mut parts = s.splitn(5, '.');
    let class = parts.next()?;
    let service = parts.next()?;
    let instance = parts.next()?;
    let type_ = parts.next()?;
    let locator = parts.next()?;
    if class == "ri"
        && valid_service(service)
        && valid_instance(instance)
        && valid_service(type_)
        && valid_locator(locator)
    {
        Some([service, instance, type_, locator])
    } else {
        None
    }
}

// ---------------------------------------------------------------- token paths

const TOKEN_PATHS: &[&str] = &[
    "from_str",
    "new",
    "from_plain",
    "json_client",
    "json_server",
    "json_map_key",
    "smile_client",
    "any",
];

fn token_paths(s: &str) -> Vec<(&'static str, Option<BearerToken>)> {
    let doc = serde_json::to_string(s).unwrap();
    let keydoc = format!("{{{}:1}}", doc);
    let smile = serde_smile::to_vec(&s).unwrap();
    vec![
        ("from_str", BearerToken::from_str(s).ok()),
        ("new", BearerToken::new(s).ok()),
        ("from_plain", BearerToken::from_plain(s).ok()),
        ("json_client", conjure_serde::json::client_from_str(&doc).ok()),
        ("json_server", conjure_serde::json::server_from_str(&doc).ok()),
        (
            "json_map_key",
            conjure_serde::json::server_from_str::<BTreeMap<BearerToken, i32>>(&keydoc)
                .ok()
                .and_then(|m| m.into_iter().next().map(|e| e.0)),
        ),
        (
            "smile_client",
            conjure_serde::smile::client_from_slice(&smile).ok(),
        ),
        (
            "any",
            Any::new(s).ok().and_then(|a| a.deserialize_into().ok()),
        ),
    ]
}

#[derive(Default)]
pub struct Acc {
    evaluations: u64,
    states: u64,
    accepted: u64,
    rejected: u64,
    viol: Vec<(String, String, serde_json::Value)>,
    sample_ok: Option<String>,
    sample_bad: Option<String>,
}

impl Acc {
    fn merge(mut self, o: Acc) -> Acc {
        self.evaluations += o.evaluations;
        self.states += o.states;
        self.accepted += o.accepted;
        self.rejected += o.rejected;
        if self.viol.len() < 64 {
            self.viol.extend(o.viol);
        }
        self.sample_ok = self.sample_ok.or(o.sample_ok);
        self.sample_bad = self.sample_bad.or(o.sample_bad);
        self
    }
}

fn class_of(s: &str) -> String {
    // coarse input class for signatures: which characters outside the happy class occur
    let mut cls: Vec<String> = vec![];
    for c in s.chars() {
        let k = if c.is_ascii_lowercase() {
            "lower".to_string()
        } else if c.is_ascii_uppercase() {
            "upper".to_string()
        } else if c.is_ascii_digit() {
            "digit".to_string()
        } else if (c as u32) < 0x20 || c as u32 == 0x7f {
            "control".to_string()
        } else if (c as u32) < 0x80 {
            format!("{:?}", c)
        } else if (c as u32) < 0x100 {
            "latin1".to_string()
        } else {
            "beyond-latin1".to_string()
        };
        if !cls.contains(&k) {
            cls.push(k);
        }
    }
    cls.sort();
    cls.join(",")
}

pub fn check_token(s: &str, acc: &mut Acc) {
    acc.states += 1;
    let expect = model_token(s);
    if expect {
        acc.accepted += 1;
        if acc.sample_ok.is_none() {
            acc.sample_ok = Some(s.to_string());
        }
    } else {
        acc.rejected += 1;
        if acc.sample_bad.is_none() && !s.is_empty() {
            acc.sample_bad = Some(s.to_string());
        }
    }
    for (path, got) in token_paths(s) {
        acc.evaluations += 1;
        let case = json!({"kind": "token", "input": s, "path": path});
        match (expect, got) {
            (true, None) => acc.viol.push((
                format!("C16|token|{}|valid-rejected|chars={}", path, class_of(s)),
                format!("valid bearer token {:?} rejected by {}", s, path),
                case,
            )),
            (false, Some(_)) => acc.viol.push((
                format!("C16|token|{}|invalid-accepted|chars={}", path, class_of(s)),
                format!("invalid bearer token {:?} accepted by {}", s, path),
                case,
            )),
            (true, Some(t)) => {
                let doc = serde_json::to_string(s).unwrap();
                let renders: [(&str, String, &str); 5] = [
                    ("as_str", t.as_str().to_string(), s),
                    ("as_ref", AsRef::<str>::as_ref(&t).to_string(), s),
                    ("to_plain", t.to_plain(), s),
                    ("into_string", t.clone().into_string(), s),
                    (
                        "json",
                        conjure_serde::json::to_string(&t).unwrap_or_default(),
                        &doc,
                    ),
                ];
                for (r, got, want) in renders.iter() {
                    if got != want {
                        acc.viol.push((
                            format!("C16|token|{}|render-{}", path, r),
                            format!("token {:?} via {} renders through {} as {:?}", s, path, r, got),
                            case.clone(),
                        ));
                    }
                }
                let dbg = format!("{:?}", t);
                if dbg != "BearerToken(\"REDACTED\")" {
                    acc.viol.push((
                        format!("C16|token|{}|debug-not-constant", path),
                        format!("token {:?} debug rendering is {:?}", s, dbg),
                        case.clone(),
                    ));
                }
            }
            (false, None) => {}
        }
    }
}

/// all paths when `full`, else the three cheapest distinct entry points
fn check_token_light(s: &str, full: bool, acc: &mut Acc) {
    if full {
        return check_token(s, acc);
    }
    acc.states += 1;
    let expect = model_token(s);
    if expect { acc.accepted += 1 } else { acc.rejected += 1 }
    let doc = serde_json::to_string(s).unwrap();
    for (path, got) in [
        ("from_str", BearerToken::from_str(s).is_ok()),
        ("from_plain", BearerToken::from_plain(s).is_ok()),
        ("json_server", conjure_serde::json::server_from_str::<BearerToken>(&doc).is_ok()),
    ] {
        acc.evaluations += 1;
        if got != expect {
            acc.viol.push((
                format!("C16|token|{}|{}|chars={}", path, if expect { "valid-rejected" } else { "invalid-accepted" }, class_of(s)),
                format!("bearer token {:?}: {} says {}, grammar says {}", s, path, got, expect),
                json!({"kind": "token", "input": s, "path": path}),
            ));
        }
    }
}

fn check_rid_light(s: &str, full: bool, acc: &mut Acc) {
    if full {
        return check_rid(s, acc);
    }
    acc.states += 1;
    let expect = model_rid(s).is_some();
    if expect { acc.accepted += 1 } else { acc.rejected += 1 }
    let doc = serde_json::to_string(s).unwrap();
    for (path, got) in [
        ("from_str", ResourceIdentifier::from_str(s).is_ok()),
        ("from_plain", ResourceIdentifier::from_plain(s).is_ok()),
        ("json_server", conjure_serde::json::server_from_str::<ResourceIdentifier>(&doc).is_ok()),
    ] {
        acc.evaluations += 1;
        if got != expect {
            acc.viol.push((
                format!("C16|rid|{}|{}|chars={}", path, if expect { "valid-rejected" } else { "invalid-accepted" }, class_of(s)),
                format!("rid {:?}: {} says {}, grammar says {}", s, path, got, expect),
                json!({"kind": "rid", "input": s, "path": path}),
            ));
        }
    }
}

// ---------------------------------------------------------------- rid paths

fn rid_paths(s: &str) -> Vec<(&'static str, Option<ResourceIdentifier>)> {
    let doc = serde_json::to_string(s).unwrap();
    let keydoc = format!("{{{}:1}}", doc);
    let smile = serde_smile::to_vec(&s).unwrap();
    vec![
        ("from_str", ResourceIdentifier::from_str(s).ok()),
        ("new", ResourceIdentifier::new(s).ok()),
        ("from_plain", ResourceIdentifier::from_plain(s).ok()),
        ("json_client", conjure_serde::json::client_from_str(&doc).ok()),
        ("json_server", conjure_serde::json::server_from_str(&doc).ok()),
        (
            "json_map_key",
            conjure_serde::json::server_from_str::<BTreeMap<ResourceIdentifier, i32>>(&keydoc)
                .ok()
                .and_then(|m| m.into_iter().next().map(|e| e.0)),
        ),
        (
            "smile_client",
            conjure_serde::smile::client_from_slice(&smile).ok(),
        ),
        (
            "any",
            Any::new(s).ok().and_then(|a| a.deserialize_into().ok()),
        ),
    ]
}

const RID_PATHS: &[&str] = TOKEN_PATHS;

pub fn check_rid(s: &str, acc: &mut Acc) {
    acc.states += 1;
    let expect = model_rid(s);
    if expect.is_some() {
        acc.accepted += 1;
        if acc.sample_ok.is_none() {
            acc.sample_ok = Some(s.to_string());
        }
    } else {
        acc.rejected += 1;
        if acc.sample_bad.is_none() && s.len() > 4 {
            acc.sample_bad = Some(s.to_string());
        }
    }
    for (path, got) in rid_paths(s) {
        acc.evaluations += 1;
        let case = json!({"kind": "rid", "input": s, "path": path});
        match (expect, got) {
            (Some(_), None) => acc.viol.push((
                format!("C16|rid|{}|valid-rejected|chars={}", path, class_of(s)),
                format!("valid rid {:?} rejected by {}", s, path),
                case,
            )),
            (None, Some(_)) => acc.viol.push((
                format!("C16|rid|{}|invalid-accepted|chars={}", path, class_of(s)),
                format!("invalid rid {:?} accepted by {}", s, path),
                case,
            )),
            (Some(parts), Some(r)) => {
                let doc = serde_json::to_string(s).unwrap();
                let renders: [(&str, String, &str); 10] = [
                    ("as_str", r.as_str().to_string(), s),
                    ("display", r.to_string(), s),
                    ("as_ref", AsRef::<str>::as_ref(&r).to_string(), s),
                    ("to_plain", r.to_plain(), s),
                    ("into_string", r.clone().into_string(), s),
                    (
                        "json",
                        conjure_serde::json::to_string(&r).unwrap_or_default(),
                        &doc,
                    ),
                    ("service", r.service().to_string(), parts[0]),
                    ("instance", r.instance().to_string(), parts[1]),
                    ("type", r.type_().to_string(), parts[2]),
                    ("locator", r.locator().to_string(), parts[3]),
                ];
                for (rn, got, want) in renders.iter() {
                    if got != want {
                        acc.viol.push((
                            format!("C16|rid|{}|render-{}", path, rn),
                            format!("rid {:?} via {}: {} = {:?}, expected {:?}", s, path, rn, got, want),
                            case.clone(),
                        ));
                    }
                }
                let joined = format!(
                    "ri.{}.{}.{}.{}",
                    r.service(),
                    r.instance(),
                    r.type_(),
                    r.locator()
                );
                if joined != s {
                    acc.viol.push((
                        format!("C16|rid|{}|components-do-not-rejoin", path),
                        format!("rid {:?} components rejoin to {:?}", s, joined),
                        case.clone(),
                    ));
                }
            }
            (None, None) => {}
        }
    }
}

/// values overwritten in place: `x.clone_from(&b)`, assignment, `mem::swap`, `Option` / `Vec`
/// `clone_from`, `Clone::clone`, `mem::take`-style moves - afterwards x is b in every
/// observation (string, components), whatever x held before
pub fn check_overwrite(a: &str, b: &str, acc: &mut Acc) {
    acc.states += 1;
    let (ra, rb) = match (ResourceIdentifier::new(a), ResourceIdentifier::new(b)) {
        (Ok(x), Ok(y)) => (x, y),
        _ => return,
    };
    acc.accepted += 1;
    let parts = model_rid(b).expect("valid rid");
    let mut results: Vec<(&str, Result<ResourceIdentifier, String>)> = vec![];
    results.push(("clone_from", vcommon::catch(|| {
        let mut x = ra.clone();
        x.clone_from(&rb);
        x
    })));
    results.push(("Option::clone_from", vcommon::catch(|| {
        let mut x = Some(ra.clone());
        x.clone_from(&Some(rb.clone()));
        x.unwrap()
    })));
    results.push(("Vec::clone_from", vcommon::catch(|| {
        let mut x = vec![ra.clone(), ra.clone()];
        x.clone_from(&vec![rb.clone()]);
        x.pop().unwrap()
    })));
    results.push(("assign", vcommon::catch(|| {
        let mut x = ra.clone();
        x = rb.clone();
        x
    })));
    results.push(("swap", vcommon::catch(|| {
        let mut x = ra.clone();
        let mut y = rb.clone();
        std::mem::swap(&mut x, &mut y);
        x
    })));
    results.push(("clone-of-clone", vcommon::catch(|| rb.clone().clone())));
    results.push(("ToOwned", vcommon::catch(|| (&rb).to_owned())));
    for (how, got) in results {
        acc.evaluations += 1;
        let case = json!({"kind": "overwrite", "a": a, "b": b, "how": how});
        match got {
            Err(p) => acc.viol.push((format!("C16|rid|overwrite|{}|panic", how), format!("{} from {:?} to {:?} panicked: {}", how, a, b, p), case)),
            Ok(x) => {
                let obs = vcommon::catch(|| [x.as_str().to_string(), x.service().to_string(), x.instance().to_string(), x.type_().to_string(), x.locator().to_string(), x.to_string(), format!("{}", x == rb)]);
                let want = [b.to_string(), parts[0].to_string(), parts[1].to_string(), parts[2].to_string(), parts[3].to_string(), b.to_string(), "true".to_string()];
                match obs {
                    Err(p) => acc.viol.push((format!("C16|rid|overwrite|{}|accessor-panic", how), format!("after {} from {:?} to {:?} an accessor panicked: {}", how, a, b, p), case)),
                    Ok(o) if o != want => acc.viol.push((format!("C16|rid|overwrite|{}|stale-components", how), format!("after {} from {:?} to {:?}: (string, service, instance, type, locator, display, ==) = {:?}, expected {:?}", how, a, b, o, want), case)),
                    Ok(_) => {}
                }
            }
        }
    }
}

pub fn check_components(c: [&str; 4], acc: &mut Acc) {
    acc.states += 1;
    acc.evaluations += 1;
    let expect =
        valid_service(c[0]) && valid_instance(c[1]) && valid_service(c[2]) && valid_locator(c[3]);
    let got = ResourceIdentifier::from_components(c[0], c[1], c[2], c[3]).ok();
    let case = json!({"kind": "components", "components": c});
    if expect {
        acc.accepted += 1;
        if acc.sample_ok.is_none() {
            acc.sample_ok = Some(format!("{:?}", c));
        }
    } else {
        acc.rejected += 1;
        if acc.sample_bad.is_none() {
            acc.sample_bad = Some(format!("{:?}", c));
        }
    }
    match (expect, got) {
        (true, None) => acc.viol.push((
            format!("C16|from_components|valid-rejected|chars={}", class_of(&c.concat())),
            format!("from_components{:?} rejected", c),
            case,
        )),
        (false, Some(r)) => acc.viol.push((
            format!("C16|from_components|invalid-accepted|chars={}", class_of(&c.concat())),
            format!("from_components{:?} accepted as {:?}", c, r.as_str()),
            case,
        )),
        (true, Some(r)) => {
            if [r.service(), r.instance(), r.type_(), r.locator()] != c
                || r.as_str() != format!("ri.{}.{}.{}.{}", c[0], c[1], c[2], c[3])
            {
                acc.viol.push((
                    "C16|from_components|components-altered".to_string(),
                    format!("from_components{:?} gives {:?}", c, r.as_str()),
                    case,
                ));
            }
        }
        (false, None) => {}
    }
}

// ---------------------------------------------------------------- spaces

const TOKEN_ALPHABET: &[&str] = &[
    "a", "Z", "0", "-", ".", "_", "~", "+", "/", "=", " ", "\n", "é", "*", "@", "\0", "\u{142}", "\u{ff41}",
];

/// symbols from which rid-like strings are assembled
const RID_SYMBOLS_QUICK: &[&str] = &["ri", ".", "a", "0", "-", "A"];
const RID_SYMBOLS: &[&str] = &["ri", ".", "a", "0", "-", "A", "\n"];

const COMPONENT_ALPHABET: &[&str] = &["a", "z", "0", "-", "_", ".", "A", "\n", "é", "\u{161}"];

fn words(alphabet: &[&str], max_len: usize) -> Vec<String> {
    let mut out = vec![];
    enumerate::for_each_word(alphabet.len(), max_len, |w| {
        out.push(w.iter().map(|&i| alphabet[i]).collect::<String>())
    });
    out
}

fn par_words<F>(alphabet: &'static [&'static str], max_len: usize, f: F) -> Acc
where
    F: Fn(&str, &mut Acc) + Sync,
{
    let mut total = Acc::default();
    for len in 0..=max_len {
        let n = (alphabet.len() as u64).pow(len as u32);
        let acc = (0..n)
            .into_par_iter()
            .fold(Acc::default, |mut acc, idx| {
                let mut w = Vec::new();
                enumerate::nth_word(alphabet.len(), len, idx, &mut w);
                let s: String = w.iter().map(|&i| alphabet[i]).collect();
                f(&s, &mut acc);
                acc
            })
            .reduce(Acc::default, Acc::merge);
        total = total.merge(acc);
    }
    total
}

fn flush(report: &mut Report, name: &str, acc: Acc) {
    report.evaluations += acc.evaluations;
    report.states += acc.states;
    report.transitions += acc.states; // one extension step per enumerated string
    report.nontrivial += acc.accepted.min(acc.states) + 0;
    report.outcome_n(&format!("{}:accept", name), acc.accepted);
    report.outcome_n(&format!("{}:reject", name), acc.rejected);
    report.extra.insert(
        format!("{}_space", name),
        json!({"cases": acc.states, "model_accepts": acc.accepted, "model_rejects": acc.rejected}),
    );
    if let Some(s) = acc.sample_ok {
        report.sample(&format!("{}-accepted", name), json!(s));
    }
    if let Some(s) = acc.sample_bad {
        report.sample(&format!("{}-rejected", name), json!(s));
    }
    for (sig, summary, case) in acc.viol {
        report.violation(sig, summary, case);
    }
}

pub fn run(args: &Args) -> Report {
    let mut report = Report::new("C16", "exploration");
    if let Some(path) = &args.replay {
        return replay(path, report);
    }
    let n = args.tier.pick(4, 5);
    let sym = args.tier.pick(8, 9);
    let rid_symbols = args.tier.pick(RID_SYMBOLS_QUICK, RID_SYMBOLS);
    let m = args.tier.pick(1, 2);

    // tokens: all strings of length <= n over the boundary alphabet
    let acc = par_words(TOKEN_ALPHABET, n, check_token);
    flush(&mut report, "token", acc);

    // every Unicode scalar value in every position class of a token and of each rid component
    let acc = (0u32..=0x10ffff)
        .into_par_iter()
        .fold(Acc::default, |mut acc, cp| {
            let c = match char::from_u32(cp) {
                Some(c) => c,
                None => return acc,
            };
            for s in [format!("{}", c), format!("a{}", c), format!("{}a", c), format!("a{}=", c)] {
                check_token_light(&s, cp < 0x800, &mut acc);
            }
            for s in [
                format!("ri.{}.a.a.a", c),
                format!("ri.a{}.a.a.a", c),
                format!("ri.a.{}.a.a", c),
                format!("ri.a.a{}.a.a", c),
                format!("ri.a.a.{}.a", c),
                format!("ri.a.a.a{}.a", c),
                format!("ri.a.a.a.{}", c),
                format!("ri.a.a.a.a{}", c),
                format!("r{}.a.a.a.a", c),
                format!("ri{}a.a.a.a", c),
            ] {
                check_rid_light(&s, cp < 0x800, &mut acc);
            }
            acc
        })
        .reduce(Acc::default, Acc::merge);
    flush(&mut report, "unicode_scalar_sweep", acc);

    // rids A: all symbol words up to `sym` symbols
    let acc = par_words(rid_symbols, sym, check_rid);
    flush(&mut report, "rid_symbol_words", acc);

    // rids B: prefix x separators x suffix variants x component words
    let comps = words(COMPONENT_ALPHABET, m);
    let prefixes = ["ri", "RI", "r", "", "rid", " ri", "ri."];
    let mut templates: Vec<(String, [String; 4], String)> = vec![];
    let seps = [".", "", "..", ":"];
    for p in prefixes.iter() {
        for suffix in ["", "\n", "."].iter() {
            // all separators canonical, then each single separator deviating
            let canon = [".", ".", ".", "."].map(String::from);
            templates.push((p.to_string(), canon.clone(), suffix.to_string()));
            for pos in 0..4 {
                for sp in seps.iter().skip(1) {
                    let mut t = canon.clone();
                    t[pos] = sp.to_string();
                    templates.push((p.to_string(), t, suffix.to_string()));
                }
            }
        }
    }
    // in thorough the deviating templates run with components <= 1, canonical with <= m
    let comps1 = words(COMPONENT_ALPHABET, 1);
    let acc = templates
        .par_iter()
        .fold(Acc::default, |mut acc, (p, sep, suffix)| {
            let canonical = p == "ri" && sep.iter().all(|s| s == ".") && suffix.is_empty();
            let cs = if canonical { &comps } else { &comps1 };
            for a in cs {
                for b in cs {
                    for c in cs {
                        for d in cs {
                            let s = format!(
                                "{}{}{}{}{}{}{}{}{}{}",
                                p, sep[0], a, sep[1], b, sep[2], c, sep[3], d, suffix
                            );
                            check_rid(&s, &mut acc);
                        }
                    }
                }
            }
            acc
        })
        .reduce(Acc::default, Acc::merge);
    flush(&mut report, "rid_templates", acc);

    // from_components: every 4-tuple
    let mut cm = words(COMPONENT_ALPHABET, args.tier.pick(1, 2));
    // dotted components whose head or tail is itself a valid neighbour component (a dot that
    // shifts the boundaries must be noticed even when the shifted pieces look right)
    for extra in ["a.a", ".a", "a.", "a.z", "z.a", "..", "a.a.a", "a-0.a"] {
        if !cm.iter().any(|c| c == extra) {
            cm.push(extra.to_string());
        }
    }
    let acc = cm
        .par_iter()
        .fold(Acc::default, |mut acc, a| {
            for b in &cm {
                for c in &cm {
                    for d in &cm {
                        check_components([a, b, c, d], &mut acc);
                    }
                }
            }
            acc
        })
        .reduce(Acc::default, Acc::merge);
    flush(&mut report, "from_components", acc);

    // the length dimension: components around 255 / 256 and 65535 / 65536 bytes, one at a time
    // and together (boundaries of narrow offset types)
    let mut acc = Acc::default();
    let marks = [1usize, 2, 254, 255, 256, 257, 65_534, 65_535, 65_536, 65_537, 70_000];
    for pos in 0..4 {
        for m in marks {
            let mut lens = [3usize, 3, 3, 3];
            lens[pos] = m;
            if pos == 1 && m == 1 {
                lens[1] = 0; // the empty instance
            }
            check_long_rid(lens, &mut acc);
        }
    }
    for lens in [[65_536usize, 0, 1, 1], [30_000, 30_000, 30_000, 30_000], [65_533, 1, 1, 1], [32_767, 32_768, 1, 70_000], [255, 255, 255, 255], [65_536, 65_536, 65_536, 65_536]] {
        check_long_rid(lens, &mut acc);
    }
    flush(&mut report, "long_rids", acc);

    // overwriting in place: all ordered pairs of rids whose components differ in length
    {
        let mut acc = Acc::default();
        let mut rids = vec![];
        for svc in ["a", "service", "s-1"] {
            for inst in ["", "i", "instance-0"] {
                for ty in ["t", "type", "a-long-type-name"] {
                    for loc in ["l", "locator", "a.b.c", "x.y"] {
                        rids.push(format!("ri.{}.{}.{}.{}", svc, inst, ty, loc));
                    }
                }
            }
        }
        for a in &rids {
            for b in &rids {
                check_overwrite(a, b, &mut acc);
            }
        }
        // bearer tokens likewise
        let toks = ["a", "ab==", "a-long.token_with~all+classes/0123456789", "Z", "0="];
        for a in toks {
            for b in toks {
                acc.states += 1;
                acc.evaluations += 1;
                let (ta, tb) = (BearerToken::new(a).unwrap(), BearerToken::new(b).unwrap());
                let got = vcommon::catch(|| {
                    let mut x = ta.clone();
                    x.clone_from(&tb);
                    let mut v = vec![ta.clone(), ta.clone()];
                    v.clone_from(&vec![tb.clone()]);
                    let mut o = Some(ta.clone());
                    o.clone_from(&Some(tb.clone()));
                    [x.as_str().to_string(), v[0].as_str().to_string(), o.unwrap().as_str().to_string(), x.to_plain(), format!("{}", x == tb)]
                });
                let want = [b.to_string(), b.to_string(), b.to_string(), b.to_string(), "true".to_string()];
                if got.as_ref().ok() != Some(&want) {
                    acc.viol.push(("C16|token|overwrite|clone_from".to_string(), format!("token {:?} overwritten with {:?}: observations {:?}, expected {:?}", a, b, got, want), json!({"kind": "overwrite-token", "a": a, "b": b})));
                }
            }
        }
        report.bound("overwrite_pairs", rids.len() * rids.len());
        flush(&mut report, "overwrite", acc);
    }
    report.bound("token_max_len", n);
    report.bound("token_alphabet", json!(TOKEN_ALPHABET));
    report.bound("rid_symbol_alphabet", json!(rid_symbols));
    report.bound("rid_max_symbols", sym);
    report.bound("component_alphabet", json!(COMPONENT_ALPHABET));
    report.bound("component_max_len", m);
    report.bound("entry_paths", json!(TOKEN_PATHS));
    report.bound("unicode_scalar_sweep", "every Unicode scalar value at 4 token positions and 10 rid positions (all 8 paths below U+0800, from_str/from_plain/json_server above)");
    let _ = RID_PATHS;
    report.rule = "every string over the stated alphabets up to the stated length (tokens: characters; rids: symbols and template x component products) is pushed through every entry path and compared with a hand-written recogniser; non-trivial = strings the recogniser accepts (each also exercises every render-back path)".into();
    report.assumptions.push("strings longer than the bound / characters outside the alphabets behave like the representative of their class".into());
    report
}

/// a rid whose components have the given byte lengths: accepted, rendered back identically,
/// and split at the right offsets (the stored boundaries must not wrap or saturate)
pub fn check_long_rid(lens: [usize; 4], acc: &mut Acc) {
    acc.states += 1;
    acc.accepted += 1;
    let fill = |n: usize, first: char, rest: &str| -> String {
        let mut s = String::with_capacity(n);
        if n > 0 {
            s.push(first);
        }
        let cs: Vec<char> = rest.chars().collect();
        for i in 1..n {
            s.push(cs[i % cs.len()]);
        }
        s
    };
    let parts = [fill(lens[0], 's', "ab-0"), fill(lens[1], '1', "cd-9"), fill(lens[2], 't', "ef-5"), fill(lens[3], 'L', "Ab_.-9")];
    let text = format!("ri.{}.{}.{}.{}", parts[0], parts[1], parts[2], parts[3]);
    let case = json!({"kind": "long-rid", "lens": lens});
    let cls = format!("lens={:?}", lens.map(|l| if l >= 65536 { ">=64Ki" } else if l >= 256 { ">=256" } else { "short" }));
    let mut routes: Vec<(&'static str, Option<ResourceIdentifier>)> = vec![
        ("new", ResourceIdentifier::new(&text).ok()),
        ("from_str", text.parse().ok()),
        ("from_components", ResourceIdentifier::from_components(&parts[0], &parts[1], &parts[2], &parts[3]).ok()),
        ("json", conjure_serde::json::client_from_str(&format!("\"{}\"", text)).ok()),
    ];
    routes.push(("from_plain", conjure_object::FromPlain::from_plain(&text).ok()));
    for (path, got) in routes {
        acc.evaluations += 1;
        match got {
            None => acc.viol.push((format!("C16|long-rid|{}|valid-rejected|{}", path, cls), format!("a valid rid with component lengths {:?} is rejected by {}", lens, path), case.clone())),
            Some(r) => {
                let split = vcommon::catch(|| [r.service().to_string(), r.instance().to_string(), r.type_().to_string(), r.locator().to_string()]);
                let got_parts = match split {
                    Ok(p) => p,
                    Err(p) => {
                        acc.viol.push((format!("C16|long-rid|{}|accessor-panics|{}", path, cls), format!("rid with component lengths {:?} via {}: a component accessor panicked: {}", lens, path, p), case.clone()));
                        continue;
                    }
                };
                if r.as_str() != text || r.to_string() != text {
                    acc.viol.push((format!("C16|long-rid|{}|render|{}", path, cls), format!("rid with component lengths {:?} does not render back identically via {}", lens, path), case.clone()));
                } else if got_parts.iter().zip(parts.iter()).any(|(a, b)| a != b) {
                    let gl: Vec<usize> = got_parts.iter().map(|p| p.len()).collect();
                    acc.viol.push((format!("C16|long-rid|{}|components-do-not-rejoin|{}", path, cls), format!("rid with component lengths {:?} via {}: accessors return components of lengths {:?}", lens, path, gl), case.clone()));
                }
            }
        }
    }
}

fn replay(path: &str, mut report: Report) -> Report {
    let v = vcommon::load_replay(path);
    let case = &v["case"];
    let mut acc = Acc::default();
    match case["kind"].as_str() {
        Some("token") => check_token(case["input"].as_str().unwrap(), &mut acc),
        Some("rid") => check_rid(case["input"].as_str().unwrap(), &mut acc),
        Some("overwrite") => check_overwrite(case["a"].as_str().unwrap(), case["b"].as_str().unwrap(), &mut acc),
        Some("overwrite-token") => {}
        Some("long-rid") => {
            let l: Vec<usize> = case["lens"].as_array().unwrap().iter().map(|x| x.as_u64().unwrap() as usize).collect();
            check_long_rid([l[0], l[1], l[2], l[3]], &mut acc)
        }
        Some("components") => {
            let c: Vec<&str> = case["components"]
                .as_array()
                .unwrap()
                .iter()
                .map(|x| x.as_str().unwrap())
                .collect();
            check_components([c[0], c[1], c[2], c[3]], &mut acc)
        }
        other => panic!("unknown replay kind {:?}", other),
    }
    flush(&mut report, "replay", acc);
    report.exhaustive = false;
    report
}
