//! C15 — no path ever produces a safelong outside the 53-bit safe range.
//!
//! Space: every integer within `radius` of each centre (0, ±(2^53-1), every ±2^k for
//! k <= 127, every ±10^k, 2^128-1), as far as the route's input type can represent it,
//! pushed through every construction / conversion / parsing / deserialization route.
//! Oracle: Ok(s) => *s == v and |v| <= 2^53-1; in range and representable => Ok;
//! never a panic.

use conjure_object::{Any, FromPlain, SafeLong};
use rayon::prelude::*;
use serde_json::json;
use std::collections::{BTreeMap, BTreeSet};
use std::convert::TryFrom;
use std::str::FromStr;
use vcommon::{Args, Report};

const MAX: i128 = (1i128 << 53) - 1;

fn in_range(v: i128) -> bool {
    (-MAX..=MAX).contains(&v)
}

#[derive(Default)]
struct Acc {
    evaluations: u64,
    states: u64,
    in_range: u64,
    accepted: u64,
    rejected: u64,
    route_hits: BTreeMap<&'static str, (u64, u64)>,
    viol: Vec<(String, String, serde_json::Value)>,
}

impl Acc {
    fn merge(mut self, o: Acc) -> Acc {
        self.evaluations += o.evaluations;
        self.states += o.states;
        self.in_range += o.in_range;
        self.accepted += o.accepted;
        self.rejected += o.rejected;
        for (k, (a, b)) in o.route_hits {
            let e = self.route_hits.entry(k).or_insert((0, 0));
            e.0 += a;
            e.1 += b;
        }
        if self.viol.len() < 64 {
            self.viol.extend(o.viol);
        }
        self
    }
}

/// `must_accept`: the route is obliged to accept in-range values (false for the
/// informational spellings and the 128-bit `Any` variants, see DESIGN §6).
fn judge(
    acc: &mut Acc,
    route: &'static str,
    v: i128,
    label: &str,
    must_accept: bool,
    got: Result<Option<i64>, String>,
) {
    acc.evaluations += 1;
    let e = acc.route_hits.entry(route).or_insert((0, 0));
    let case = json!({"value": v.to_string(), "route": route, "label": label});
    match got {
        Err(p) => acc.viol.push((
            format!("C15|{}|panic", route),
            format!("route {} panicked on {}: {}", route, v, p),
            case,
        )),
        Ok(Some(s)) => {
            e.0 += 1;
            acc.accepted += 1;
            if !in_range(s as i128) || !in_range(v) {
                acc.viol.push((
                    format!("C15|{}|out-of-range-accepted|near={}", route, label),
                    format!("route {} produced safelong {} from input {}", route, s, v),
                    case,
                ));
            } else if s as i128 != v {
                acc.viol.push((
                    format!("C15|{}|value-altered", route),
                    format!("route {} turned {} into {}", route, v, s),
                    case,
                ));
            }
        }
        Ok(None) => {
            e.1 += 1;
            acc.rejected += 1;
            if in_range(v) && must_accept {
                acc.viol.push((
                    format!("C15|{}|in-range-rejected|near={}", route, label),
                    format!("route {} rejected in-range value {}", route, v),
                    case,
                ));
            }
        }
    }
}

/// a hand-written (non-transparent) key type around a safelong
#[derive(serde::Serialize, serde::Deserialize, PartialEq, Eq, PartialOrd, Ord, Clone, Debug)]
struct KeyWrap(SafeLong);

fn sl(r: Result<SafeLong, impl Sized>) -> Option<i64> {
    r.ok().map(|s| *s)
}

macro_rules! route {
    ($acc:expr, $name:expr, $v:expr, $label:expr, $must:expr, $e:expr) => {
        judge($acc, $name, $v, $label, $must, vcommon::catch(|| $e));
    };
}

fn check_value(v: i128, label: &str, acc: &mut Acc) {
    acc.states += 1;
    if in_range(v) {
        acc.in_range += 1;
    }
    let text = v.to_string();

    // --- integer conversions
    if let Ok(x) = i64::try_from(v) {
        route!(acc, "new", v, label, true, sl(SafeLong::new(x)));
        route!(acc, "try_from_i64", v, label, true, sl(SafeLong::try_from(x)));
        route!(acc, "any_i64", v, label, true, Any::new(x).ok().and_then(|a| sl(a.deserialize_into::<SafeLong>())));
        let smile = serde_smile::to_vec(&x).unwrap();
        route!(acc, "smile_client", v, label, true, sl(conjure_serde::smile::client_from_slice::<SafeLong>(&smile)));
        route!(acc, "smile_server", v, label, true, sl(conjure_serde::smile::server_from_slice::<SafeLong>(&smile)));
        let mut m = BTreeMap::new();
        m.insert(x, 1i32);
        let smile_map = conjure_serde::smile::to_vec(&m).unwrap();
        route!(acc, "smile_map_key", v, label, true,
            conjure_serde::smile::client_from_slice::<BTreeMap<SafeLong, i32>>(&smile_map).ok().and_then(|m| m.keys().next().map(|k| **k)));
    }
    if let Ok(x) = isize::try_from(v) {
        route!(acc, "try_from_isize", v, label, true, sl(SafeLong::try_from(x)));
    }
    if let Ok(x) = u64::try_from(v) {
        route!(acc, "try_from_u64", v, label, true, sl(SafeLong::try_from(x)));
        route!(acc, "any_u64", v, label, true, Any::new(x).ok().and_then(|a| sl(a.deserialize_into::<SafeLong>())));
    }
    if let Ok(x) = usize::try_from(v) {
        route!(acc, "try_from_usize", v, label, true, sl(SafeLong::try_from(x)));
    }
    route!(acc, "try_from_i128", v, label, true, sl(SafeLong::try_from(v)));
    route!(acc, "any_i128", v, label, false, Any::new(v).ok().and_then(|a| sl(a.deserialize_into::<SafeLong>())));
    if let Ok(x) = u128::try_from(v) {
        route!(acc, "try_from_u128", v, label, true, sl(SafeLong::try_from(x)));
        route!(acc, "any_u128", v, label, false, Any::new(x).ok().and_then(|a| sl(a.deserialize_into::<SafeLong>())));
    }
    macro_rules! small {
        ($t:ty, $from:expr, $any:expr) => {
            if let Ok(x) = <$t>::try_from(v) {
                route!(acc, $from, v, label, true, Some(*SafeLong::from(x)));
                route!(acc, $any, v, label, true, Any::new(x).ok().and_then(|a| sl(a.deserialize_into::<SafeLong>())));
            }
        };
    }
    small!(u8, "from_u8", "any_u8");
    small!(i8, "from_i8", "any_i8");
    small!(u16, "from_u16", "any_u16");
    small!(i16, "from_i16", "any_i16");
    small!(u32, "from_u32", "any_u32");
    small!(i32, "from_i32", "any_i32");
    // a float that is exactly this integer (only where f64 represents it exactly)
    let f = v as f64;
    if f as i128 == v && v.unsigned_abs() < (1u128 << 100) {
        route!(acc, "any_f64", v, label, false, Any::new(f).ok().and_then(|a| sl(a.deserialize_into::<SafeLong>())));
    }

    // --- text
    route!(acc, "from_str", v, label, true, sl(SafeLong::from_str(&text)));
    route!(acc, "from_plain", v, label, true, sl(SafeLong::from_plain(&text)));
    route!(acc, "json_client", v, label, true, sl(conjure_serde::json::client_from_str::<SafeLong>(&text)));
    route!(acc, "json_server", v, label, true, sl(conjure_serde::json::server_from_str::<SafeLong>(&text)));
    route!(acc, "json_client_slice", v, label, true, sl(conjure_serde::json::client_from_slice::<SafeLong>(text.as_bytes())));
    route!(acc, "json_server_reader", v, label, true, sl(conjure_serde::json::server_from_reader::<_, SafeLong>(text.as_bytes())));
    {
        // readers that hand the text over in pieces (a prefix of a number is a number)
        use std::io::Read;
        let bytes = text.as_bytes();
        let mid = bytes.len() / 2;
        route!(acc, "json_client_reader_two_pieces", v, label, true, sl(conjure_serde::json::client_from_reader::<_, SafeLong>((&bytes[..mid]).chain(&bytes[mid..]))));
        route!(acc, "json_server_reader_two_pieces", v, label, true, sl(conjure_serde::json::server_from_reader::<_, SafeLong>((&bytes[..mid]).chain(&bytes[mid..]))));
        route!(acc, "json_client_reader_byte_by_byte", v, label, true, sl(conjure_serde::json::client_from_reader::<_, SafeLong>(OneByte(bytes))));
    }
    let keydoc = format!("{{\"{}\":1}}", text);
    route!(acc, "json_map_key_client", v, label, true,
        conjure_serde::json::client_from_str::<BTreeMap<SafeLong, i32>>(&keydoc).ok().and_then(|m| m.keys().next().map(|k| **k)));
    route!(acc, "json_map_key_server", v, label, true,
        conjure_serde::json::server_from_str::<BTreeMap<SafeLong, i32>>(&keydoc).ok().and_then(|m| m.keys().next().map(|k| **k)));
    route!(acc, "json_in_list", v, label, true,
        conjure_serde::json::server_from_str::<Vec<Option<SafeLong>>>(&format!("[{}]", text)).ok().and_then(|m| m.into_iter().next().flatten().map(|k| *k)));
    route!(acc, "any_from_json", v, label, true,
        conjure_serde::json::client_from_str::<Any>(&text).ok().and_then(|a| sl(a.deserialize_into::<SafeLong>())));
    route!(acc, "any_string_key", v, label, true,
        conjure_serde::json::client_from_str::<Any>(&keydoc).ok()
            .and_then(|a| a.deserialize_into::<BTreeMap<SafeLong, i32>>().ok())
            .and_then(|m| m.keys().next().map(|k| **k)));

    // keys behind a serde newtype struct and behind Option (hand-written key types), through any
    // and directly
    route!(acc, "any_string_key_newtype", v, label, true,
        conjure_serde::json::client_from_str::<Any>(&keydoc).ok()
            .and_then(|a| a.deserialize_into::<BTreeMap<KeyWrap, i32>>().ok())
            .and_then(|m| m.keys().next().map(|k| *k.0)));
    route!(acc, "any_string_key_option", v, label, true,
        conjure_serde::json::client_from_str::<Any>(&keydoc).ok()
            .and_then(|a| a.deserialize_into::<BTreeMap<Option<SafeLong>, i32>>().ok())
            .and_then(|m| m.keys().next().cloned().flatten().map(|k| *k)));
    route!(acc, "json_map_key_newtype", v, label, true,
        conjure_serde::json::server_from_str::<BTreeMap<KeyWrap, i32>>(&keydoc).ok().and_then(|m| m.keys().next().map(|k| *k.0)));

    // --- informational spellings: acceptance not demanded, range/value soundness is
    let plus = if v >= 0 { format!("+{}", text) } else { text.clone() };
    let zeros = if v >= 0 { format!("00{}", text) } else { format!("-00{}", &text[1..]) };
    for (name, t) in [
        ("from_str_plus", plus.clone()),
        ("from_str_zeros", zeros.clone()),
        ("from_str_space", format!(" {}", text)),
        ("from_str_dot0", format!("{}.0", text)),
        ("from_str_e0", format!("{}e0", text)),
    ] {
        route!(acc, name, v, label, false, sl(SafeLong::from_str(&t)));
    }
    for (name, t) in [
        ("json_dot0", format!("{}.0", text)),
        ("json_e0", format!("{}e0", text)),
        ("json_string", format!("\"{}\"", text)),
        ("json_ws", format!(" {} ", text)),
    ] {
        route!(acc, name, v, label, false, sl(conjure_serde::json::server_from_str::<SafeLong>(&t)));
    }
}

fn centres() -> Vec<(i128, String)> {
    let mut out: Vec<(i128, String)> = vec![(0, "0".into())];
    for k in 0..=126u32 {
        out.push((1i128 << k, format!("2^{}", k)));
        out.push((-(1i128 << k), format!("-2^{}", k)));
    }
    out.push((i128::MAX, "2^127-1".into()));
    out.push((i128::MIN, "-2^127".into()));
    out.push((MAX, "2^53-1".into()));
    out.push((-MAX, "-(2^53-1)".into()));
    let mut p: i128 = 1;
    for k in 0..=38u32 {
        out.push((p, format!("10^{}", k)));
        out.push((-p, format!("-10^{}", k)));
        p = p.saturating_mul(10);
    }
    out
}

/// a reader that returns one byte per call
struct OneByte<'a>(&'a [u8]);

impl std::io::Read for OneByte<'_> {
    fn read(&mut self, buf: &mut [u8]) -> std::io::Result<usize> {
        if self.0.is_empty() || buf.is_empty() {
            return Ok(0);
        }
        buf[0] = self.0[0];
        self.0 = &self.0[1..];
        Ok(1)
    }
}

pub fn run(args: &Args) -> Report {
    let mut report = Report::new("C15", "exploration");
    if let Some(path) = &args.replay {
        let v = vcommon::load_replay(path);
        let x: i128 = v["case"]["value"].as_str().unwrap().parse().unwrap();
        let mut acc = Acc::default();
        let label = v["case"]["label"].as_str().unwrap_or("replay").to_string();
        check_value(x, &label, &mut acc);
        finish(&mut report, acc, 0);
        report.exhaustive = false;
        return report;
    }
    let radius: i128 = args.tier.pick(1 << 12, 1 << 18);
    let cs = centres();
    // merged, disjoint intervals so that every value is enumerated exactly once
    let mut iv: Vec<(i128, i128)> = cs
        .iter()
        .map(|(c, _)| (c.saturating_sub(radius), c.saturating_add(radius)))
        .collect();
    iv.sort();
    let mut merged: Vec<(i128, i128)> = vec![];
    for (lo, hi) in iv {
        match merged.last_mut() {
            Some(last) if lo <= last.1.saturating_add(1) => last.1 = last.1.max(hi),
            _ => merged.push((lo, hi)),
        }
    }
    // chunks of 4096 values for the thread pool
    let mut chunks: Vec<(i128, i128)> = vec![];
    for (lo, hi) in &merged {
        let mut a = *lo;
        loop {
            let b = a.saturating_add(4095).min(*hi);
            chunks.push((a, b));
            if b == *hi {
                break;
            }
            a = b + 1;
        }
    }
    let nearest = |v: i128| -> &str {
        let mut best = &cs[0];
        for c in &cs {
            if (v - c.0).unsigned_abs() < (v - best.0).unsigned_abs() {
                best = c;
            }
        }
        &best.1
    };
    let acc = chunks
        .par_iter()
        .fold(Acc::default, |mut acc, (lo, hi)| {
            let label = nearest(*lo / 2 + *hi / 2);
            let mut v = *lo;
            loop {
                check_value(v, label, &mut acc);
                if v == *hi {
                    break;
                }
                v += 1;
            }
            acc
        })
        .reduce(Acc::default, Acc::merge);
    // the top of the u128 range is not representable as i128: TryFrom<u128> and Any only
    let mut top = Acc::default();
    let mut distinct_top = BTreeSet::new();
    for d in 0..=(radius as u128) {
        for x in [u128::MAX - d, (1u128 << 127) + d] {
            if !distinct_top.insert(x) {
                continue;
            }
            top.states += 1;
            for (name, got) in [
                ("try_from_u128", vcommon::catch(|| sl(SafeLong::try_from(x)))),
                ("any_u128", vcommon::catch(|| Any::new(x).ok().and_then(|a| sl(a.deserialize_into::<SafeLong>())))),
                ("from_str", vcommon::catch(|| sl(SafeLong::from_str(&x.to_string())))),
                ("json_server", vcommon::catch(|| sl(conjure_serde::json::server_from_str::<SafeLong>(&x.to_string())))),
            ] {
                top.evaluations += 1;
                match got {
                    Ok(None) => top.rejected += 1,
                    other => top.viol.push((
                        format!("C15|{}|out-of-range-accepted|near=2^128", name),
                        format!("route {} on {} gave {:?}", name, x, other),
                        json!({"value_u128": x.to_string(), "route": name}),
                    )),
                }
            }
        }
    }
    let acc = acc.merge(top);
    report.bound("radius", radius as i64);
    report.bound("centres", cs.len());
    report.bound("disjoint_intervals", merged.len());
    finish(&mut report, acc, cs.len() as u64);
    report
}

fn finish(report: &mut Report, acc: Acc, centres: u64) {
    report.evaluations = acc.evaluations;
    report.states = acc.states;
    report.transitions = acc.states + centres;
    report.nontrivial = acc.in_range;
    report.outcome_n("accepted", acc.accepted);
    report.outcome_n("rejected", acc.rejected);
    let mut routes = serde_json::Map::new();
    for (k, (a, r)) in &acc.route_hits {
        routes.insert(k.to_string(), json!({"accepted": a, "rejected": r}));
        report.outcome_n(&format!("{}:accepted", k), *a);
        report.outcome_n(&format!("{}:rejected", k), *r);
    }
    report.extra.insert("routes".into(), routes.into());
    report.sample("boundary", json!({"value": MAX.to_string(), "expect": "accepted by every obliged route"}));
    report.sample("boundary+1", json!({"value": (MAX + 1).to_string(), "expect": "rejected by every route"}));
    report.sample("i64-overflow", json!({"value": (1i128 << 63).to_string(), "expect": "rejected"}));
    report.rule = "every integer within `radius` of each centre (0, ±(2^53-1), ±2^k, ±10^k, top of u128) through every route that can represent it; non-trivial = values inside the safe range (all obliged routes must accept and preserve them); values outside must be rejected everywhere".into();
    report.assumptions.push("values further than `radius` from every centre behave like their neighbours (comparisons against two constants and width conversions are monotone between centres)".into());
    report.assumptions.push("in-range integers held in Any's 128-bit variants, floats, and non-canonical spellings (+5, 005, 5.0, 5e0, quoted) need not be accepted; if accepted they must be in range and unaltered".into());
    for (sig, summary, case) in acc.viol {
        report.violation(sig, summary, case);
    }
}
