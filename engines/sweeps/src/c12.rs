//! C12 — PLAIN text of every parameter value parses back to the same value, in the
//! Conjure spellings. Runtime types here; generated enums/aliases are covered by E2.
//!
//! Oracle per value v: from_plain(to_plain(v)) == v (f64 by bits, NaN ≡ NaN) and
//! to_plain(v) equals / satisfies the independent PLAIN model below.

use conjure_object::chrono::{DateTime, NaiveDate, Utc};
use conjure_object::{BearerToken, Bytes, FromPlain, ResourceIdentifier, SafeLong, ToPlain, Uuid};
use rayon::prelude::*;
use serde_json::json;
use std::collections::BTreeMap;
use vcommon::{enumerate, Args, Report};

// ---------------------------------------------------------------- PLAIN model

fn model_base64(data: &[u8]) -> String {
    const T: &[u8; 64] = b"ABCDEFGHIJKLMNOPQRSTUVWXYZabcdefghijklmnopqrstuvwxyz0123456789+/";
    let mut out = String::new();
    for chunk in data.chunks(3) {
        let b = [chunk[0], *chunk.get(1).unwrap_or(&0), *chunk.get(2).unwrap_or(&0)];
        let n = ((b[0] as u32) << 16) | ((b[1] as u32) << 8) | b[2] as u32;
        out.push(T[(n >> 18) as usize & 63] as char);
        out.push(T[(n >> 12) as usize & 63] as char);
        out.push(if chunk.len() > 1 { T[(n >> 6) as usize & 63] as char } else { '=' });
        out.push(if chunk.len() > 2 { T[n as usize & 63] as char } else { '=' });
    }
    out
}

fn model_uuid(v: u128) -> String {
    let h = format!("{:032x}", v);
    format!("{}-{}-{}-{}-{}", &h[0..8], &h[8..12], &h[12..16], &h[16..20], &h[20..32])
}

fn model_decimal(mut v: i128) -> String {
    if v == 0 {
        return "0".into();
    }
    let neg = v < 0;
    let mut digits = vec![];
    while v != 0 {
        digits.push((b'0' + (v % 10).unsigned_abs() as u8) as char);
        v /= 10;
    }
    if neg {
        digits.push('-');
    }
    digits.iter().rev().collect()
}

/// JSON-number grammar (the spec's "number literal"), or one of the three words.
fn model_double_spelling_ok(s: &str, v: f64) -> bool {
    if v.is_nan() {
        return s == "NaN";
    }
    if v == f64::INFINITY {
        return s == "Infinity";
    }
    if v == f64::NEG_INFINITY {
        return s == "-Infinity";
    }
    let b = s.as_bytes();
    let mut i = 0;
    if i < b.len() && b[i] == b'-' {
        i += 1;
    }
    let d0 = i;
    while i < b.len() && b[i].is_ascii_digit() {
        i += 1;
    }
    if i == d0 {
        return false;
    }
    if i < b.len() && b[i] == b'.' {
        i += 1;
        let f0 = i;
        while i < b.len() && b[i].is_ascii_digit() {
            i += 1;
        }
        if i == f0 {
            return false;
        }
    }
    if i < b.len() && (b[i] == b'e' || b[i] == b'E') {
        i += 1;
        if i < b.len() && (b[i] == b'+' || b[i] == b'-') {
            i += 1;
        }
        let e0 = i;
        while i < b.len() && b[i].is_ascii_digit() {
            i += 1;
        }
        if i == e0 {
            return false;
        }
    }
    i == b.len()
}

/// RFC 3339 `date-time`, decoded field by field and compared with the instant's fields.
fn model_datetime_ok(s: &str, y: i32, mo: u32, d: u32, h: u32, mi: u32, sec: u32, nanos: u32) -> bool {
    let b = s.as_bytes();
    let num = |r: std::ops::Range<usize>| -> Option<u32> {
        let t = s.get(r)?;
        if t.bytes().all(|c| c.is_ascii_digit()) && !t.is_empty() {
            t.parse().ok()
        } else {
            None
        }
    };
    if b.len() < 20 {
        return false;
    }
    if b[4] != b'-' || b[7] != b'-' || !(b[10] == b'T' || b[10] == b't') || b[13] != b':' || b[16] != b':' {
        return false;
    }
    let ok = num(0..4) == Some(y as u32)
        && num(5..7) == Some(mo)
        && num(8..10) == Some(d)
        && num(11..13) == Some(h)
        && num(14..16) == Some(mi)
        && num(17..19) == Some(sec);
    if !ok {
        return false;
    }
    let mut i = 19;
    let mut frac: u64 = 0;
    if b[i] == b'.' {
        i += 1;
        let f0 = i;
        let mut scale = 100_000_000u64;
        while i < b.len() && b[i].is_ascii_digit() {
            if i - f0 >= 9 {
                if b[i] != b'0' {
                    return false;
                }
            } else {
                frac += (b[i] - b'0') as u64 * scale;
                scale /= 10;
            }
            i += 1;
        }
        if i == f0 {
            return false;
        }
    }
    if frac != nanos as u64 {
        return false;
    }
    let off = &s[i..];
    off == "Z" || off == "z" || off == "+00:00" || off == "-00:00"
}

// ---------------------------------------------------------------- accumulator

#[derive(Default)]
struct Acc {
    evaluations: u64,
    states: u64,
    by_type: BTreeMap<&'static str, u64>,
    viol: Vec<(String, String, serde_json::Value)>,
    samples: BTreeMap<&'static str, (String, String)>,
}

impl Acc {
    fn merge(mut self, o: Acc) -> Acc {
        self.evaluations += o.evaluations;
        self.states += o.states;
        for (k, v) in o.by_type {
            *self.by_type.entry(k).or_insert(0) += v;
        }
        if self.viol.len() < 64 {
            self.viol.extend(o.viol);
        }
        for (k, v) in o.samples {
            self.samples.entry(k).or_insert(v);
        }
        self
    }

    fn record(&mut self, ty: &'static str, value: String, text: &str, roundtrip_ok: bool, spelling_ok: bool, class: &str) {
        self.states += 1;
        self.evaluations += 2;
        *self.by_type.entry(ty).or_insert(0) += 1;
        if self.states % 97 == 1 || !self.samples.contains_key(ty) {
            self.samples.entry(ty).or_insert((value.clone(), text.to_string()));
        }
        if !roundtrip_ok {
            self.viol.push((
                format!("C12|{}|roundtrip|{}", ty, class),
                format!("{} value {} -> PLAIN {:?} does not parse back to the same value", ty, value, text),
                json!({"type": ty, "value": value}),
            ));
        }
        if !spelling_ok {
            self.viol.push((
                format!("C12|{}|spelling|{}", ty, class),
                format!("{} value {} has PLAIN text {:?}, not the Conjure spelling", ty, value, text),
                json!({"type": ty, "value": value}),
            ));
        }
    }
}

fn f64_class(v: f64) -> &'static str {
    if v.is_nan() {
        "nan"
    } else if v == f64::INFINITY {
        "+inf"
    } else if v == f64::NEG_INFINITY {
        "-inf"
    } else if v == 0.0 {
        "zero"
    } else if v.is_subnormal() {
        "subnormal"
    } else {
        "finite"
    }
}

fn check_f64(v: f64, acc: &mut Acc) {
    let t = v.to_plain();
    let t = if (&v).to_plain() == t && (&&v).to_plain() == t { t } else { format!("<by-reference spelling {:?} differs from {:?}>", (&v).to_plain(), t) };
    refused_first::<f64>(&t);
    let back = f64::from_plain(&t);
    let rt = match back {
        Ok(b) => (b.is_nan() && v.is_nan()) || b.to_bits() == v.to_bits(),
        Err(_) => false,
    };
    acc.record("double", format!("bits:{:#018x}", v.to_bits()), &t, rt, model_double_spelling_ok(&t, v), f64_class(v));
    // the set / map-key wrapper (set<double> query parameters) spells and parses the same way
    let k = conjure_object::DoubleKey(v);
    let tk = k.to_plain();
    let back = conjure_object::DoubleKey::from_plain(&tk);
    let rtk = match back {
        Ok(b) => (b.0.is_nan() && v.is_nan()) || b.0.to_bits() == v.to_bits(),
        Err(_) => false,
    };
    if !rtk || tk != t {
        acc.record("doublekey", format!("bits:{:#018x}", v.to_bits()), &tk, rtk, tk == t, f64_class(v));
    }
}

fn check_i32(v: i32, acc: &mut Acc) {
    let t = v.to_plain();
    let t = if (&v).to_plain() == t && (&&v).to_plain() == t { t } else { format!("<by-reference spelling {:?} differs from {:?}>", (&v).to_plain(), t) };
    refused_first::<i32>(&t);
    let rt = i32::from_plain(&t).ok() == Some(v);
    let class = if v < 0 { "negative" } else { "non-negative" };
    acc.record("integer", v.to_string(), &t, rt, t == model_decimal(v as i128), class);
}

fn check_i32_fast(v: i32) -> bool {
    let t = v.to_plain();
    i32::from_plain(&t).ok() == Some(v) && t == model_decimal(v as i128)
}

fn check_safelong(v: i64, acc: &mut Acc) {
    let class = if v < 0 { "negative" } else { "non-negative" };
    // every value handed in is within the safe range: a refusal is itself a finding
    let s = match SafeLong::new(v) {
        Ok(s) => s,
        Err(_) if v == *SafeLong::max_value() => SafeLong::max_value(),
        Err(_) if v == *SafeLong::min_value() => SafeLong::min_value(),
        Err(_) => {
            acc.record("safelong", v.to_string(), "<SafeLong::new refused an in-range value>", false, true, class);
            return;
        }
    };
    let t = s.to_plain();
    let t = if (&s).to_plain() == t && (&&s).to_plain() == t { t } else { format!("<by-reference spelling {:?} differs from {:?}>", (&s).to_plain(), t) };
    refused_first::<SafeLong>(&t);
    let rt = SafeLong::from_plain(&t).ok() == Some(s);
    acc.record("safelong", v.to_string(), &t, rt, t == model_decimal(v as i128), class);
}

/// refused texts parsed just before a valid one, on the same thread: a rejection must leave
/// nothing behind that the next parse could pick up
fn refused_first<T: FromPlain>(valid: &str) {
    let cut = valid.char_indices().nth(valid.chars().count().saturating_sub(1)).map(|(i, _)| &valid[..i]).unwrap_or("");
    for bad in [format!("{}*", valid), cut.to_string(), format!("{}\u{e9}", cut), format!(" {}", valid), format!("{}{}", valid, valid)] {
        let _ = T::from_plain(&bad);
    }
}

fn check_bytes(v: &[u8], acc: &mut Acc) {
    let b = Bytes::copy_from_slice(v);
    let t = b.to_plain();
    refused_first::<Bytes>(&t);
    let t = if (&b).to_plain() == t && (&&b).to_plain() == t { t } else { format!("<by-reference spelling {:?} differs from {:?}>", (&b).to_plain(), t) };
    let rt = Bytes::from_plain(&t).ok().as_ref() == Some(&b);
    let t2 = v.to_plain(); // the [u8] impl
    acc.record("binary", format!("{:?}", v), &t, rt && t2 == t, t == model_base64(v), &format!("len%3={}", v.len() % 3));
}

fn check_bytes_long(len: usize, pat: u8, acc: &mut Acc) {
    let bytes: Vec<u8> = (0..len).map(|i| match pat { 0 => 0u8, 1 => 0xff, _ => (i * 7 + 3) as u8 }).collect();
    let v = &bytes[..];
    let b = Bytes::copy_from_slice(v);
    let t = b.to_plain();
    let t = if (&b).to_plain() == t && (&&b).to_plain() == t { t } else { format!("<by-reference spelling {:?} differs from {:?}>", (&b).to_plain(), t) };
    refused_first::<Bytes>(&t);
    let rt = Bytes::from_plain(&t).ok().as_ref() == Some(&b);
    let t2 = v.to_plain();
    acc.record("binary", format!("long:{}:{}", len, pat), &t[..t.len().min(24)], rt && t2 == t, t == model_base64(v), &format!("long,len%3={}", v.len() % 3));
}

fn check_uuid(v: u128, acc: &mut Acc) {
    let u = Uuid::from_u128(v);
    let t = u.to_plain();
    let t = if (&u).to_plain() == t && (&&u).to_plain() == t { t } else { format!("<by-reference spelling {:?} differs from {:?}>", (&u).to_plain(), t) };
    refused_first::<Uuid>(&t);
    let rt = Uuid::from_plain(&t).ok() == Some(u);
    acc.record("uuid", format!("{:#034x}", v), &t, rt, t == model_uuid(v), "any");
}

fn check_datetime(y: i32, mo: u32, d: u32, h: u32, mi: u32, sec: u32, nanos: u32, acc: &mut Acc) {
    let date = match NaiveDate::from_ymd_opt(y, mo, d) {
        Some(d) => d,
        None => return,
    };
    // a leap second is second 59 with nanos >= 1e9 in chrono
    let (s_in, n_in) = if sec == 60 { (59, 1_000_000_000 + nanos) } else { (sec, nanos) };
    let naive = match date.and_hms_nano_opt(h, mi, s_in, n_in) {
        Some(n) => n,
        None => return,
    };
    let dt: DateTime<Utc> = naive.and_utc();
    let t = dt.to_plain();
    let t = if (&dt).to_plain() == t && (&&dt).to_plain() == t { t } else { format!("<by-reference spelling {:?} differs from {:?}>", (&dt).to_plain(), t) };
    refused_first::<DateTime<Utc>>(&t);
    let rt = DateTime::<Utc>::from_plain(&t).ok() == Some(dt);
    let class = if sec == 60 { "leap-second" } else if nanos == 0 { "whole-second" } else { "fractional" };
    acc.record(
        "datetime",
        format!("{:04}-{:02}-{:02}T{:02}:{:02}:{:02}.{:09}", y, mo, d, h, mi, sec, nanos),
        &t,
        rt,
        model_datetime_ok(&t, y, mo, d, h, mi, sec, nanos),
        class,
    );
}

fn check_string(s: &str, acc: &mut Acc) {
    let t = s.to_plain();
    let t = if (&s).to_plain() == t && (&&s).to_plain() == t { t } else { format!("<by-reference spelling {:?} differs from {:?}>", (&s).to_plain(), t) };
    let t2 = s.to_string().to_plain();
    let rt = String::from_plain(&t).ok().as_deref() == Some(s) && t2 == t;
    acc.record("string", format!("{:?}", s), &t, rt, t == s, "any");
}

// ---------------------------------------------------------------- spaces

fn i32_quick() -> Vec<i32> {
    let mut v: Vec<i32> = vec![];
    for c in [0i64, i32::MIN as i64, i32::MAX as i64] {
        for d in -(1i64 << 16)..=(1i64 << 16) {
            if let Ok(x) = i32::try_from(c + d) {
                v.push(x);
            }
        }
    }
    for k in 0..31 {
        for d in -1i64..=1 {
            for sign in [1i64, -1] {
                if let Ok(x) = i32::try_from(sign * (1i64 << k) + d) {
                    v.push(x);
                }
            }
        }
    }
    let mut p = 1i64;
    for _ in 0..10 {
        for d in -1i64..=1 {
            for sign in [1i64, -1] {
                if let Ok(x) = i32::try_from(sign * p + d) {
                    v.push(x);
                }
            }
        }
        p *= 10;
    }
    v.sort();
    v.dedup();
    v
}

fn mantissas() -> Vec<u64> {
    let m52 = (1u64 << 52) - 1;
    let mut v = vec![0, 1, 2, 3, m52, m52 - 1, 1 << 51, (1 << 51) + 1, (1 << 51) - 1, 0x5555_5555_5555_5 & m52, 0xAAAA_AAAA_AAAA_A & m52];
    for k in [4, 8, 13, 21, 26, 31, 32, 33, 40, 47, 50] {
        v.push(1u64 << k);
    }
    v.push(0x000f_ffff_0000_0000 & m52);
    v.push(0x0000_0000_ffff_ffff);
    v.sort();
    v.dedup();
    v
}

pub fn run(args: &Args) -> Report {
    let mut report = Report::new("C12", "exploration");
    if let Some(path) = &args.replay {
        return replay(path, report);
    }
    let thorough = args.tier.is_thorough();
    let mut acc = Acc::default();

    // bool
    for b in [true, false] {
        let t = b.to_plain();
        let t = if (&b).to_plain() == t && (&&b).to_plain() == t { t } else { format!("<by-reference spelling {:?} differs from {:?}>", (&b).to_plain(), t) };
        let rt = bool::from_plain(&t).ok() == Some(b);
        acc.record("boolean", b.to_string(), &t, rt, t == if b { "true" } else { "false" }, "any");
    }

    // i32
    if thorough {
        // the full 2^32 range; counted, with failures re-run through the recording path
        let bad: Vec<i32> = (i32::MIN..=i32::MAX)
            .into_par_iter()
            .filter(|v| !check_i32_fast(*v))
            .collect();
        acc.states += 1u64 << 32;
        acc.evaluations += 2u64 << 32;
        *acc.by_type.entry("integer").or_insert(0) += 1u64 << 32;
        for v in bad.into_iter().take(50) {
            check_i32(v, &mut acc);
        }
        report.bound("integer", "full i32 range (2^32 values)");
    } else {
        for v in i32_quick() {
            check_i32(v, &mut acc);
        }
        report.bound("integer", "±2^16 around 0 and both extremes; every ±2^k±1 and ±10^k±1");
    }

    // safelong
    let radius: i64 = if thorough { 1 << 20 } else { 1 << 12 };
    let max = (1i64 << 53) - 1;
    let mut centres = vec![0i64, max, -max];
    for k in 0..53 {
        centres.push(1 << k);
        centres.push(-(1 << k));
    }
    let mut p = 1i64;
    for _ in 0..16 {
        centres.push(p);
        centres.push(-p);
        p *= 10;
    }
    let sl_radius = if thorough { radius } else { 1 << 12 };
    let a2 = centres
        .par_iter()
        .fold(Acc::default, |mut acc, c| {
            let r = if *c == 0 || c.abs() == max { sl_radius } else { 2 };
            for d in -r..=r {
                let v = c + d;
                if v.abs() <= max {
                    check_safelong(v, &mut acc);
                }
            }
            acc
        })
        .reduce(Acc::default, Acc::merge);
    acc = acc.merge(a2);
    report.bound("safelong", format!("±{} around 0 and ±(2^53-1); ±2 around every ±2^k and ±10^k", sl_radius));

    // f64: every (sign, exponent) x mantissa pattern
    let ms = mantissas();
    let a3 = (0u64..2 * 2048)
        .into_par_iter()
        .fold(Acc::default, |mut acc, se| {
            for m in &ms {
                check_f64(f64::from_bits((se << 52) | m), &mut acc);
            }
            acc
        })
        .reduce(Acc::default, Acc::merge);
    acc = acc.merge(a3);
    report.bound("double", format!("every sign x exponent (4096) x {} mantissa patterns{}", ms.len(), if thorough { "; plus every f32 bit pattern widened (2^32)" } else { "" }));
    if thorough {
        let bad: Vec<u32> = (0u32..=u32::MAX)
            .into_par_iter()
            .filter(|bits| {
                let v = f32::from_bits(*bits) as f64;
                let t = v.to_plain();
                let t = if (&v).to_plain() == t && (&&v).to_plain() == t { t } else { format!("<by-reference spelling {:?} differs from {:?}>", (&v).to_plain(), t) };
                let rt = match f64::from_plain(&t) {
                    Ok(b) => (b.is_nan() && v.is_nan()) || b.to_bits() == v.to_bits(),
                    Err(_) => false,
                };
                !(rt && model_double_spelling_ok(&t, v))
            })
            .collect();
        acc.states += 1u64 << 32;
        acc.evaluations += 2u64 << 32;
        *acc.by_type.entry("double").or_insert(0) += 1u64 << 32;
        for b in bad.into_iter().take(50) {
            check_f64(f32::from_bits(b) as f64, &mut acc);
        }
    }

    // bytes: all strings of length <= 2; length 3..4 over 16 byte values
    for len in 0..=2usize {
        let n = 256u64.pow(len as u32);
        let mut w = vec![];
        for idx in 0..n {
            enumerate::nth_word(256, len, idx, &mut w);
            let bytes: Vec<u8> = w.iter().map(|x| *x as u8).collect();
            check_bytes(&bytes, &mut acc);
        }
    }
    let b16: [u8; 16] = [0, 1, 0x3e, 0x3f, 0x40, 0x7f, 0x80, 0xbf, 0xc0, 0xf8, 0xfb, 0xfc, 0xfe, 0xff, b'a', b'='];
    let max_len = if thorough { 5 } else { 4 };
    for len in 3..=max_len {
        let n = 16u64.pow(len as u32);
        let a = (0..n)
            .into_par_iter()
            .fold(Acc::default, |mut acc, idx| {
                let mut w = vec![];
                enumerate::nth_word(16, len, idx, &mut w);
                let bytes: Vec<u8> = w.iter().map(|x| b16[*x]).collect();
                check_bytes(&bytes, &mut acc);
                acc
            })
            .reduce(Acc::default, Acc::merge);
        acc = acc.merge(a);
    }
    // length dimension: every length up to a bound with three fill patterns, then around
    // every power of two (block / buffer boundaries of any chunked encoder)
    let every_len = if thorough { 8200usize } else { 1100 };
    let mut lens: Vec<usize> = (0..=every_len).collect();
    let top = if thorough { 20 } else { 16 };
    for k in 10..=top {
        for d in [-2i64, -1, 0, 1, 2, 3] {
            lens.push(((1i64 << k) + d) as usize);
        }
    }
    lens.sort();
    lens.dedup();
    let a = lens
        .par_iter()
        .fold(Acc::default, |mut acc, len| {
            for pat in 0..3u8 {
                check_bytes_long(*len, pat, &mut acc);
            }
            acc
        })
        .reduce(Acc::default, Acc::merge);
    acc = acc.merge(a);
    report.bound("binary_lengths", format!("every length 0..={} and 2^k-2..2^k+3 for k in 10..={}, x 3 fill patterns", every_len, top));
    report.bound("binary", format!("all byte strings of length <= 2; length 3..{} over 16 byte values", max_len));

    // uuid: each nibble position x each value over the nil and the max background
    for base in [0u128, u128::MAX, 0x0123_4567_89ab_cdef_fedc_ba98_7654_3210] {
        check_uuid(base, &mut acc);
        for pos in 0..32 {
            for val in 0..16u128 {
                let cleared = base & !(0xfu128 << (pos * 4));
                check_uuid(cleared | (val << (pos * 4)), &mut acc);
                if thorough {
                    for pos2 in (pos + 1)..32 {
                        let c2 = (cleared | (val << (pos * 4))) & !(0xfu128 << (pos2 * 4));
                        check_uuid(c2 | (0xau128 << (pos2 * 4)), &mut acc);
                    }
                }
            }
        }
    }
    report.bound("uuid", "each nibble position x each value over 3 backgrounds (thorough: x a second position)");

    // datetime grid
    let years = [0, 1, 4, 99, 100, 400, 1969, 1970, 1999, 2000, 2038, 9999];
    let nanos_list: Vec<u32> = if thorough {
        vec![0, 1, 9, 10, 999, 1000, 999_999, 1_000_000, 1_001_000, 123_456_789, 100_000_000, 120_000_000, 999_000_000, 999_999_000, 999_999_999]
    } else {
        vec![0, 1, 999, 1000, 1_000_000, 123_456_789, 100_000_000, 999_999_999]
    };
    let a4 = years
        .par_iter()
        .fold(Acc::default, |mut acc, y| {
            for mo in 1..=12 {
                for d in [1, 28, 29, 30, 31] {
                    for h in [0, 12, 23] {
                        for mi in [0, 59] {
                            for sec in [0, 59, 60] {
                                for n in &nanos_list {
                                    check_datetime(*y, mo, d, h, mi, sec, *n, &mut acc);
                                }
                            }
                        }
                    }
                }
            }
            acc
        })
        .reduce(Acc::default, Acc::merge);
    acc = acc.merge(a4);
    report.bound("datetime", format!("years {:?} x every month x days 1,28,29,30,31 (valid ones) x hours 0,12,23 x minutes 0,59 x seconds 0,59,60(leap) x nanos {:?}", years, nanos_list));

    // strings: every ASCII code point, UTF-8 length boundaries, look-alikes
    for c in 0u8..128 {
        check_string(&(c as char).to_string(), &mut acc);
    }
    for s in ["", "\u{80}", "\u{7ff}", "\u{800}", "\u{ffff}", "\u{10000}", "\u{10ffff}", "%2F", "a+b c", "NaN", "true", "a=b&c=d#f?x", "ri.a.b.c.d"] {
        check_string(s, &mut acc);
    }

    // rids and bearer tokens: every string the C16 recognisers accept within a small bound
    let tok_alpha = ["a", "Z", "0", "-", ".", "_", "~", "+", "/", "="];
    enumerate::for_each_word(tok_alpha.len(), if thorough { 5 } else { 4 }, |w| {
        let s: String = w.iter().map(|i| tok_alpha[*i]).collect();
        if crate::c16::model_token(&s) {
            let ok = match BearerToken::new(&s) {
                Ok(t) => {
                    let p = t.to_plain();
                    (BearerToken::from_plain(&p).ok().as_ref() == Some(&t), p == s)
                }
                Err(_) => (false, false),
            };
            acc.record("bearertoken", format!("{:?}", s), &s, ok.0, ok.1, "valid");
        }
    });
    let comp = ["a", "z", "0", "-", "_", ".", "A"];
    let mut comps: Vec<String> = vec![];
    enumerate::for_each_word(comp.len(), if thorough { 2 } else { 1 }, |w| comps.push(w.iter().map(|i| comp[*i]).collect()));
    for a in &comps {
        for b in &comps {
            for c in &comps {
                for d in &comps {
                    let s = format!("ri.{}.{}.{}.{}", a, b, c, d);
                    if crate::c16::model_rid(&s).is_some() {
                        let ok = match ResourceIdentifier::new(&s) {
                            Ok(r) => {
                                let p = r.to_plain();
                                (ResourceIdentifier::from_plain(&p).ok().as_ref() == Some(&r), p == s)
                            }
                            Err(_) => (false, false),
                        };
                        acc.record("rid", format!("{:?}", s), &s, ok.0, ok.1, "valid");
                    }
                }
            }
        }
    }

    finish(&mut report, acc);
    report
}

fn finish(report: &mut Report, acc: Acc) {
    report.evaluations = acc.evaluations;
    report.states = acc.states;
    report.transitions = acc.states;
    report.nontrivial = acc.states;
    for (k, v) in &acc.by_type {
        report.outcome_n(&format!("{}:values", k), *v);
    }
    for (k, (v, t)) in &acc.samples {
        report.sample(k, json!({"value": v, "plain": t}));
    }
    report.rule = "per PLAIN-capable runtime type, every value of the stated grid/range: to_plain then from_plain must give the value back and the text must satisfy an independent model of the Conjure spelling; every enumerated value is distinct and non-trivial (each exercises format + parse)".into();
    report.assumptions.push("datetimes between grid points, doubles between mantissa patterns and safelongs away from the centres behave like their neighbours".into());
    report.assumptions.push("NaN sign/payload are not preserved through text and are not demanded (DESIGN §6)".into());
    for (sig, summary, case) in acc.viol {
        report.violation(sig, summary, case);
    }
}

fn replay(path: &str, mut report: Report) -> Report {
    let v = vcommon::load_replay(path);
    let case = &v["case"];
    let val = case["value"].as_str().unwrap_or("");
    let mut acc = Acc::default();
    match case["type"].as_str().unwrap_or("") {
        "double" | "doublekey" => check_f64(f64::from_bits(u64::from_str_radix(val.trim_start_matches("bits:0x"), 16).unwrap()), &mut acc),
        "integer" => check_i32(val.parse().unwrap(), &mut acc),
        "safelong" => check_safelong(val.parse().unwrap(), &mut acc),
        "uuid" => check_uuid(u128::from_str_radix(val.trim_start_matches("0x"), 16).unwrap(), &mut acc),
        "binary" if val.starts_with("long:") => {
            let mut it = val.split(':').skip(1);
            let len: usize = it.next().unwrap().parse().unwrap();
            let pat: u8 = it.next().unwrap().parse().unwrap();
            check_bytes_long(len, pat, &mut acc)
        }
        "binary" => {
            let bytes: Vec<u8> = serde_json::from_str(val).unwrap();
            check_bytes(&bytes, &mut acc)
        }
        "datetime" => {
            // YYYY-MM-DDTHH:MM:SS.NNNNNNNNN
            let n = |a: usize, b: usize| val[a..b].parse::<u32>().unwrap();
            check_datetime(n(0, 4) as i32, n(5, 7), n(8, 10), n(11, 13), n(14, 16), n(17, 19), n(20, 29), &mut acc)
        }
        "string" => {
            let s: String = serde_json::from_str(val).unwrap_or_default();
            check_string(&s, &mut acc)
        }
        _ => {
            // tokens, rids, booleans: cheap — re-run is the replay
            return run(&Args { replay: None, ..clone_args() });
        }
    }
    finish(&mut report, acc);
    report.exhaustive = false;
    report
}

fn clone_args() -> Args {
    Args::parse()
}
