//! C04 — a client call reaches the matching server handler with identical arguments, and
//! returns exactly what the handler returned. Generated blocking + async clients against
//! generated blocking + async endpoints through the loopback transport.

use crate::gen::*;
use crate::handler::{rec, rec_bytes, Call, Handler};
use crate::loopback::{AsyncLoop, Blob, BlockingLoop, Options};
use conjure_error::Error;
use conjure_http::client::{AsyncService as _, Service as _};
use conjure_http::server::{AsyncService as _, ConjureRuntime, Service as _};
use conjure_object::chrono::{DateTime, Utc};
use conjure_object::{Any, BearerToken, DoubleKey, ResourceIdentifier, SafeLong, Uuid};
use futures::executor::block_on;
use serde::de::DeserializeOwned;
use serde::Serialize;
use serde_json::json;
use std::collections::{BTreeMap, BTreeSet};
use std::sync::Arc;
use vcommon::{Args, Report};

pub struct Rig {
    pub handler: Handler,
    pub blocking: BlockingLoop,
    pub asyncl: AsyncLoop,
}

impl Rig {
    pub fn new(options: fn() -> Options) -> Rig {
        let handler = Handler::new();
        let rt = Arc::new(ConjureRuntime::new());
        let mut blocking = BlockingLoop::new(UniversalServiceEndpoints::new(handler.clone()).endpoints(&rt));
        blocking.options = options();
        let mut asyncl = AsyncLoop::new(AsyncUniversalServiceEndpoints::new(handler.clone()).endpoints(&rt));
        asyncl.options = options();
        Rig { handler, blocking, asyncl }
    }
    pub fn client(&self) -> UniversalServiceClient<&BlockingLoop> {
        UniversalServiceClient::new(&self.blocking)
    }
    pub fn async_client(&self) -> UniversalServiceAsyncClient<&AsyncLoop> {
        UniversalServiceAsyncClient::new(&self.asyncl)
    }
}

// ---------------------------------------------------------------- alphabets

pub fn ascii_strings() -> Vec<String> {
    (0u8..128).map(|c| (c as char).to_string()).collect()
}

pub fn boundary_strings() -> Vec<String> {
    let mut v: Vec<String> = ['\u{80}', '\u{7ff}', '\u{800}', '\u{ffff}', '\u{10000}', '\u{10ffff}', '\u{e9}'].iter().map(|c| c.to_string()).collect();
    for s in ["", "%2F", "%", "a/b", "a+b c", "a=b&c=d#f?x", ".", "..", "NaN", "null", "\"q\"", "a\u{e9}/\u{10000}?", " lead", "trail ", "a\tb", "x;y,z"] {
        v.push(s.to_string());
    }
    v
}

pub fn pair_strings(alphabet: &str) -> Vec<String> {
    let cs: Vec<char> = alphabet.chars().collect();
    let mut v = vec![];
    for a in &cs {
        for b in &cs {
            v.push(format!("{}{}", a, b));
        }
    }
    v
}

fn all_strings(thorough: bool) -> Vec<String> {
    let mut v = ascii_strings();
    v.extend(boundary_strings());
    v.extend(pair_strings(if thorough { "%+/?#&= .~:;@!$'()*,[]\\\"<>{}|^`" } else { "%+/?#&= " }));
    v
}

/// must a header carry this value unchanged? (visible ASCII); other values may be refused
fn header_must_deliver(s: &str) -> bool {
    !s.is_empty() && s.bytes().all(|b| (0x21..=0x7e).contains(&b))
}

fn doubles() -> Vec<f64> {
    vec![0.0, -0.0, 1.5, -1e300, 5e-324, f64::NAN, f64::INFINITY, f64::NEG_INFINITY, 1e21, 0.1]
}

fn payloads() -> Vec<Payload> {
    [
        r#"{"name":"","count":0,"ratio":0.0}"#,
        r#"{"name":"n\"\\\né","count":-2147483648,"tags":["a","","%2F"],"ratio":"NaN","extra":{"k":[1,null,{"type":"x"}]},"blob":"AP8=","byKey":{"a b":"RED","":"OTHER_COLOR"}}"#,
        r#"{"name":"outer","count":1,"ratio":"-Infinity","nested":{"name":"inner","count":2,"ratio":1e-7,"nested":{"name":"leaf","count":3,"ratio":1.0,"tags":["t"]}}}"#,
        r#"{"name":"x","count":2147483647,"ratio":1.5,"extra":null,"tags":[]}"#,
    ]
    .iter()
    .map(|s| conjure_serde::json::client_from_str(s).expect("payload literal"))
    .collect()
}

pub fn payload0() -> Payload {
    payloads().remove(0)
}

fn colors() -> Vec<Color> {
    vec![Color::Red, Color::Green, Color::DarkBlue, "OTHER_1".parse().unwrap()]
}

fn tokens() -> Vec<BearerToken> {
    ["a", "AbC-._~+/9==", "e", "0"].iter().map(|s| BearerToken::new(s).unwrap()).collect()
}

// ---------------------------------------------------------------- execution

pub struct Outcome {
    pub ret: Result<String, String>,
    pub calls: Vec<Call>,
}

struct Ctx<'a> {
    r: &'a mut Report,
    rig: &'a Rig,
}

/// one case, both flavours
#[allow(clippy::too_many_arguments)]
fn run_case(
    cx: &mut Ctx,
    endpoint: &'static str,
    position: &str,
    value_class: &str,
    expected_args: Vec<String>,
    expected_ret: String,
    may_refuse: bool,
    set_ret: &dyn Fn(&Handler),
    blocking: &dyn Fn(&Rig) -> Result<String, Error>,
    asynch: &dyn Fn(&Rig) -> Result<String, Error>,
) {
    cx.r.states += 1;
    for (flavour, call) in [("blocking", blocking), ("async", asynch)] {
        cx.r.evaluations += 1;
        cx.r.transitions += 1;
        cx.rig.handler.take_calls();
        set_ret(&cx.rig.handler);
        let got = vcommon::catch(|| call(cx.rig));
        let calls = cx.rig.handler.take_calls();
        let last = if flavour == "blocking" { cx.rig.blocking.last.lock().unwrap().uri.clone() } else { cx.rig.asyncl.last.lock().unwrap().uri.clone() };
        let case = json!({"endpoint": endpoint, "position": position, "flavour": flavour, "args": expected_args, "uri": last});
        let sig = |k: &str| format!("C04|{}|{}|{}|{}|{}", endpoint, position, flavour, k, value_class);
        match got {
            Err(p) => cx.r.violation(sig("panic"), format!("{} ({}) panicked with args {:?}: {}", endpoint, flavour, expected_args, p), case),
            Ok(Err(e)) => {
                if may_refuse && calls.is_empty() {
                    cx.r.outcome("refused-without-invoking-the-handler");
                } else if calls.is_empty() {
                    cx.r.violation(sig("call-failed"), format!("{} ({}) with args {:?} failed before reaching the handler: {}", endpoint, flavour, expected_args, e.cause()), case);
                } else {
                    cx.r.violation(sig("call-failed-after-handler"), format!("{} ({}) with args {:?}: handler ran but the client got {}", endpoint, flavour, expected_args, e.cause()), case);
                }
            }
            Ok(Ok(ret)) => {
                if calls.len() != 1 {
                    cx.r.violation(sig("handler-invocations"), format!("{} ({}): handler invoked {} times", endpoint, flavour, calls.len()), case.clone());
                } else if calls[0].endpoint != endpoint {
                    cx.r.violation(sig("wrong-handler"), format!("{} ({}) reached handler {}", endpoint, flavour, calls[0].endpoint), case.clone());
                } else if calls[0].args != expected_args {
                    cx.r.violation(sig("arguments-altered"), format!("{} ({}): client sent {:?}, handler received {:?} (request {})", endpoint, flavour, expected_args, calls[0].args, last), case.clone());
                } else if ret != expected_ret {
                    cx.r.violation(sig("return-altered"), format!("{} ({}): handler returned {} but the client got {}", endpoint, flavour, expected_ret, ret), case.clone());
                } else {
                    cx.r.outcome("delivered-exactly");
                }
            }
        }
    }
}

pub fn class_of(s: &str) -> String {
    let mut cls: Vec<String> = vec![];
    for c in s.chars() {
        let k = if c.is_ascii_alphanumeric() { "alnum".to_string() } else if (c as u32) < 0x20 || c as u32 == 0x7f { "control".to_string() } else if c.is_ascii() { format!("{:?}", c) } else { "non-ascii".to_string() };
        if !cls.contains(&k) {
            cls.push(k);
        }
    }
    if s.is_empty() {
        cls.push("empty".into());
    }
    cls.sort();
    cls.join("")
}

fn ok<T: Serialize>(r: Result<T, Error>) -> Result<String, Error> {
    r.map(|v| rec(&v))
}

fn read_all(body: crate::loopback::Chunks) -> String {
    rec_bytes(&body.concat())
}

// ---------------------------------------------------------------- the space

pub fn run(args: &Args) -> Report {
    let mut report = Report::new("C04", "exploration");
    let thorough = args.tier.is_thorough();
    let strings = all_strings(thorough);
    let reduced: Vec<String> = ["%", "+", "/", "?", "#", "&", "=", " ", "", "\u{e9}", "%2F", "a=b&c"].iter().map(|s| s.to_string()).collect();
    let rid = ResourceIdentifier::new("ri.svc.inst.type.Loc_1.-").unwrap();
    let rids: Vec<ResourceIdentifier> = ["ri.a..b.c", "ri.svc.inst-1.type.Loc_1.-", "ri.a.b.c.A.b-_9"].iter().map(|s| ResourceIdentifier::new(s).unwrap()).collect();

    // two rigs: bodies whole, and bodies in 1-byte chunks both ways
    let rigs = [Rig::new(Options::default), Rig::new(|| Options { request_chunk: 1, response_chunk: 1 }), Rig::new(|| Options { request_chunk: 3, response_chunk: 2 }), Rig::new(|| Options { request_chunk: 4 | crate::loopback::WITH_EMPTY_CHUNKS, response_chunk: 3 | crate::loopback::WITH_EMPTY_CHUNKS })];
    let rig = &rigs[0];
    let mut cx = Ctx { r: &mut report, rig };

    // ---- pathParams: every string in each string position; returns of size 0,1,3
    let rets: Vec<Vec<String>> = vec![vec![], vec!["".into()], vec!["a".into(), "\u{e9}\"\\".into(), "%2F".into()]];
    for (i, s) in strings.iter().enumerate() {
        let ret = rets[i % rets.len()].clone();
        for pos in 0..2 {
            let (a, b) = if pos == 0 { (s.clone(), "d".to_string()) } else { ("d".to_string(), s.clone()) };
            let alias = StrAlias(b.clone());
            let ret2 = ret.clone();
            run_case(&mut cx, "path_params", if pos == 0 { "fooBar" } else { "type" }, &class_of(s), vec![rec(&a), rec(&alias), rec(&rid)], rec(&ret), false,
                &|h| h.set_return(ret2.clone()),
                &|rig| ok(rig.client().path_params(&a, &alias, &rid)),
                &|rig| ok(block_on(rig.async_client().path_params(&a, &alias, &rid))));
        }
    }
    for a in &reduced {
        for b in &reduced {
            let alias = StrAlias(b.clone());
            for r in &rids {
                run_case(&mut cx, "path_params", "fooBar+type", &format!("{}|{}", class_of(a), class_of(b)), vec![rec(a), rec(&alias), rec(r)], rec(&Vec::<String>::new()), false,
                    &|h| h.set_return(Vec::<String>::new()),
                    &|rig| ok(rig.client().path_params(a, &alias, r)),
                    &|rig| ok(block_on(rig.async_client().path_params(a, &alias, r))));
            }
        }
    }

    // ---- outOfOrder: path arguments declared in another order than the template uses them
    for (i, s) in strings.iter().enumerate() {
        for pos in 0..3 {
            let (first, second, q) = match pos {
                0 => (s.clone(), "2nd".to_string(), Some("q".to_string())),
                1 => ("1st".to_string(), s.clone(), None),
                _ => ("1st".to_string(), "2nd".to_string(), Some(s.clone())),
            };
            let third = i as i32 - 3;
            let ret = format!("r{}", i);
            let ret2 = ret.clone();
            run_case(&mut cx, "out_of_order", ["first", "second", "q"][pos], &class_of(s), vec![rec(&third), rec(&second), rec(&q), rec(&first)], rec(&ret), false,
                &|h| h.set_return(ret2.clone()),
                &|rig| ok(rig.client().out_of_order(third, &second, q.as_deref(), &first)),
                &|rig| ok(block_on(rig.async_client().out_of_order(third, &second, q.as_deref(), &first))));
        }
    }

    // ---- scalars: one-hot over every scalar alphabet
    {
        let d0 = 1.5f64;
        let u0 = Uuid::from_u128(0x0123_4567_89ab_cdef_fedc_ba98_7654_3210);
        let dt0: DateTime<Utc> = DateTime::from_timestamp(951782400, 500_000_000).unwrap();
        let sl0 = SafeLong::new(1).unwrap();
        let tok0 = BearerToken::new("tok").unwrap();
        let mut cases: Vec<(bool, f64, Uuid, DateTime<Utc>, SafeLong, Color, i32, BearerToken, &'static str)> = vec![];
        for b in [true, false] {
            cases.push((b, d0, u0, dt0, sl0, Color::Red, 0, tok0.clone(), "b"));
        }
        for d in doubles() {
            cases.push((true, d, u0, dt0, sl0, Color::Red, 0, tok0.clone(), "d"));
        }
        for u in [0u128, u128::MAX] {
            cases.push((true, d0, Uuid::from_u128(u), dt0, sl0, Color::Red, 0, tok0.clone(), "u"));
        }
        for (s, n) in [(0i64, 0u32), (253402300799, 999_999_999), (-62167219200, 0), (1, 1000), (1_600_000_000, 123_000_000)] {
            cases.push((true, d0, u0, DateTime::from_timestamp(s, n).unwrap(), sl0, Color::Red, 0, tok0.clone(), "dt"));
        }
        for sl in [0i64, (1 << 53) - 1, -((1 << 53) - 1)] {
            cases.push((true, d0, u0, dt0, SafeLong::new(sl).unwrap(), Color::Red, 0, tok0.clone(), "sl"));
        }
        for e in colors() {
            cases.push((true, d0, u0, dt0, sl0, e, 0, tok0.clone(), "e"));
        }
        for i in [0, -1, i32::MAX, i32::MIN] {
            cases.push((true, d0, u0, dt0, sl0, Color::Red, i, tok0.clone(), "i"));
        }
        for t in tokens() {
            cases.push((true, d0, u0, dt0, sl0, Color::Red, 0, t, "tok"));
        }
        for (b, d, u, dt, sl, e, i, tok, pos) in cases {
            let args = vec![rec(&b), rec(&d), rec(&u), rec(&dt), rec(&sl), rec(&e), rec(&i), rec(&tok)];
            run_case(&mut cx, "scalars", pos, &args.join(","), args.clone(), rec(&()), false,
                &|_| {},
                &|rig| ok(rig.client().scalars(b, d, u, dt, sl, &e, i, &tok)),
                &|rig| ok(block_on(rig.async_client().scalars(b, d, u, dt, sl, &e, i, &tok))));
        }
    }

    // ---- aliasParams: aliases of the PLAIN primitives in path / query / header positions
    {
        let dts: Vec<DateTime<Utc>> = [(0i64, 0u32), (253402300799, 999_999_999), (-62167219200, 0), (1, 1000), (1_600_000_000, 123_000_000), (951782400, 500_000_000)].iter().map(|(s, n)| DateTime::from_timestamp(*s, *n).unwrap()).collect();
        let u0 = Uuid::from_u128(0x0123_4567_89ab_cdef_fedc_ba98_7654_3210);
        for (i, dt) in dts.iter().enumerate() {
            for d in doubles() {
                let dta = DtAlias(*dt);
                let dbl = DblAlias(d);
                let u = UuidAlias(if i % 2 == 0 { u0 } else { Uuid::from_u128(u128::MAX) });
                let b = BoolAlias(i % 2 == 0);
                let sl = if i % 3 == 0 { None } else { Some(SlAlias(SafeLong::new(-((1i64 << 53) - 1) + i as i64).unwrap())) };
                let list: Vec<DtAliasAlias> = dts.iter().take(i).map(|x| DtAliasAlias(DtAlias(*x))).collect();
                let rid_a = RidAlias(rids[i % rids.len()].clone());
                let n = if i % 2 == 0 { Some(IntAlias(i32::MIN + i as i32)) } else { None };
                let args = vec![rec(&dta), rec(&dbl), rec(&u), rec(&b), rec(&sl), rec(&list), rec(&rid_a), rec(&n)];
                let ret = format!("r{}", i);
                let ret2 = ret.clone();
                run_case(&mut cx, "alias_params", "all", &format!("dt{}", i), args, rec(&ret), false,
                    &|h| h.set_return(ret2.clone()),
                    &|rig| ok(rig.client().alias_params(dta, dbl, u, b, sl, &list, &rid_a, n)),
                    &|rig| ok(block_on(rig.async_client().alias_params(dta, dbl, u, b, sl, &list, &rid_a, n))));
            }
        }
    }

    // ---- queryParams
    {
        #[derive(Clone)]
        struct Q {
            q: String,
            opt_int: Option<i32>,
            strs: Vec<String>,
            str_set: BTreeSet<String>,
            colors: Vec<Color>,
            opt_alias: OptStrAlias,
            list_alias: IntListAlias,
            flag: bool,
            opt_double: Option<f64>,
        }
        let base = Q { q: "d".into(), opt_int: None, strs: vec![], str_set: BTreeSet::new(), colors: vec![], opt_alias: OptStrAlias(None), list_alias: IntListAlias(vec![]), flag: false, opt_double: None };
        let mut cases: Vec<(Q, String, String)> = vec![];
        for s in &strings {
            let mut c = base.clone();
            c.q = s.clone();
            cases.push((c, "q".into(), class_of(s)));
            let mut c = base.clone();
            c.strs = vec![s.clone()];
            cases.push((c, "strs".into(), class_of(s)));
            let mut c = base.clone();
            c.opt_alias = OptStrAlias(Some(s.clone()));
            cases.push((c, "optAlias".into(), class_of(s)));
        }
        // long collections (every length up to 70, distinct elements in a non-sorted order): order
        // and multiplicity survive however many pairs the query holds
        for n in 0..=70usize {
            let mut c = base.clone();
            c.strs = (0..n).map(|i| format!("s{:02}", (i * 37 + 11) % 101)).collect();
            c.list_alias = IntListAlias((0..n as i32).map(|i| (i * 53 + 7) % 97 - 40).collect());
            c.colors = (0..n % 9).map(|i| [Color::Red, Color::Green, Color::DarkBlue][i % 3].clone()).collect();
            c.str_set = (0..n / 2).map(|i| format!("t{}", i)).collect();
            cases.push((c, "long-lists".into(), format!("n={}", n)));
        }
        for a in &reduced {
            for b in &reduced {
                let mut c = base.clone();
                c.strs = vec![a.clone(), b.clone(), a.clone()];
                cases.push((c, "strs*3".into(), format!("{}|{}", class_of(a), class_of(b))));
                let mut c = base.clone();
                c.str_set = [a.clone(), b.clone()].into_iter().collect();
                cases.push((c, "strSet".into(), format!("{}|{}", class_of(a), class_of(b))));
                let mut c = base.clone();
                c.q = a.clone();
                c.opt_alias = OptStrAlias(Some(b.clone()));
                c.strs = vec![b.clone()];
                cases.push((c, "q+optAlias+strs".into(), format!("{}|{}", class_of(a), class_of(b))));
            }
        }
        for v in [None, Some(0), Some(-1), Some(i32::MIN), Some(i32::MAX)] {
            let mut c = base.clone();
            c.opt_int = v;
            cases.push((c, "optInt".into(), format!("{:?}", v)));
        }
        for v in doubles() {
            let mut c = base.clone();
            c.opt_double = Some(v);
            cases.push((c, "optDouble".into(), format!("{:?}", v)));
        }
        for n in 0..=3usize {
            let mut c = base.clone();
            c.colors = colors().into_iter().take(n + 1).collect();
            c.list_alias = IntListAlias((0..n as i32).map(|x| x - 1).collect());
            c.flag = n % 2 == 0;
            cases.push((c, "colors+listAlias+flag".into(), format!("n={}", n)));
        }
        let rets: Vec<BTreeMap<String, String>> = vec![BTreeMap::new(), [("k".to_string(), "v".to_string())].into_iter().collect(), [("".to_string(), "\u{e9}".to_string()), ("a b".to_string(), "".to_string())].into_iter().collect()];
        for (i, (c, pos, cls)) in cases.into_iter().enumerate() {
            let ret = rets[i % rets.len()].clone();
            let args = vec![rec(&c.q), rec(&c.opt_int), rec(&c.strs), rec(&c.str_set), rec(&c.colors), rec(&c.opt_alias), rec(&c.list_alias), rec(&c.flag), rec(&c.opt_double)];
            let ret2 = ret.clone();
            run_case(&mut cx, "query_params", &pos, &cls, args, rec(&ret), false,
                &|h| h.set_return(ret2.clone()),
                &|rig| ok(rig.client().query_params(&c.q, c.opt_int, &c.strs, &c.str_set, &c.colors, &c.opt_alias, &c.list_alias, c.flag, c.opt_double)),
                &|rig| ok(block_on(rig.async_client().query_params(&c.q, c.opt_int, &c.strs, &c.str_set, &c.colors, &c.opt_alias, &c.list_alias, c.flag, c.opt_double))));
        }
    }

    // ---- listFirst: every combination of empty / non-empty collections and optionals in
    //      an all-optional query string (which parameter is written first varies)
    for items in [vec![], vec!["a".to_string()], vec!["a".to_string(), "&b".to_string()]] {
        for tags in [BTreeSet::new(), ["x".to_string()].into_iter().collect::<BTreeSet<String>>(), ["x".to_string(), "".to_string()].into_iter().collect()] {
            for opt_str in [None, Some(""), Some("o=1")] {
                for tail in [vec![], vec![1], vec![1, -2]] {
                    let args = vec![rec(&items), rec(&tags), rec(&opt_str), rec(&tail)];
                    run_case(&mut cx, "list_first", "all", &format!("{}{}{}{}", items.len(), tags.len(), opt_str.is_some() as u8, tail.len()), args, rec(&()), false, &|_| {},
                        &|rig| ok(rig.client().list_first(&items, &tags, opt_str, &tail)),
                        &|rig| ok(block_on(rig.async_client().list_first(&items, &tags, opt_str, &tail))));
                }
            }
        }
    }

    // ---- headers
    {
        let u = Uuid::from_u128(7);
        let rets: Vec<Option<String>> = vec![None, Some("".into()), Some("r\u{e9}".into())];
        let mut idx = 0;
        let mut one = |cx: &mut Ctx, x_str: &str, x_opt_int: Option<i32>, x_alias: &str, x_enum: Color, x_opt_alias: Option<String>, x_opt_uuid: Option<Uuid>, pos: &str, may_refuse: bool| {
            let alias = StrAlias(x_alias.to_string());
            let oa = OptStrAlias(x_opt_alias);
            let ret = rets[idx % rets.len()].clone();
            idx += 1;
            let args = vec![rec(&x_str), rec(&x_opt_int), rec(&alias), rec(&x_enum), rec(&oa), rec(&x_opt_uuid)];
            let ret2 = ret.clone();
            run_case(cx, "headers", pos, &format!("{}{}", class_of(x_str), class_of(x_alias)), args, rec(&ret), may_refuse,
                &|h| h.set_return(ret2.clone()),
                &|rig| ok(rig.client().headers(x_str, x_opt_int, &alias, &x_enum, &oa, x_opt_uuid)),
                &|rig| ok(block_on(rig.async_client().headers(x_str, x_opt_int, &alias, &x_enum, &oa, x_opt_uuid))));
        };
        for s in &strings {
            let refuse = !header_must_deliver(s);
            one(&mut cx, s, None, "d", Color::Red, None, None, "xStr", refuse);
            one(&mut cx, "d", None, s, Color::Red, None, None, "xAlias", refuse);
            one(&mut cx, "d", None, "d", Color::Red, Some(s.clone()), None, "xOptAlias", refuse);
        }
        for v in [Some(0), Some(-7), Some(i32::MAX)] {
            one(&mut cx, "d", v, "d", Color::Green, None, Some(u), "xOptInt", false);
        }
        for e in colors() {
            one(&mut cx, "d", None, "d", e, None, None, "xEnum", false);
        }
    }

    // ---- auth + bodies (through all three rigs: whole bodies and chunked bodies)
    for (ri, rig) in rigs.iter().enumerate() {
        let mut cx = Ctx { r: cx.r, rig };
        let chunking = format!("rig{}", ri);
        for tok in tokens() {
            for p in payloads() {
                for ret in payloads().into_iter().take(2) {
                    let ret2 = ret.clone();
                    run_case(&mut cx, "auth_header_body", "auth+body", &chunking, vec![rec(&tok), rec(&p)], rec(&ret), false,
                        &|h| h.set_return(ret2.clone()),
                        &|rig| ok(rig.client().auth_header_body(&tok, &p)),
                        &|rig| ok(block_on(rig.async_client().auth_header_body(&tok, &p))));
                }
            }
            for ret in [BTreeSet::new(), ["a".to_string(), "".to_string()].into_iter().collect::<BTreeSet<String>>()] {
                let ret2 = ret.clone();
                run_case(&mut cx, "auth_cookie", "auth", &chunking, vec![rec(&tok)], rec(&ret), false,
                    &|h| h.set_return(ret2.clone()),
                    &|rig| ok(rig.client().auth_cookie(&tok)),
                    &|rig| ok(block_on(rig.async_client().auth_cookie(&tok))));
            }
        }
        let mut opt_payloads: Vec<Option<Payload>> = vec![None];
        opt_payloads.extend(payloads().into_iter().map(Some));
        for body in &opt_payloads {
            for ret in &opt_payloads {
                let ret2 = ret.clone();
                run_case(&mut cx, "body_optional", "body", &chunking, vec![rec(body)], rec(ret), false,
                    &|h| h.set_return(ret2.clone()),
                    &|rig| ok(rig.client().body_optional(body.as_ref())),
                    &|rig| ok(block_on(rig.async_client().body_optional(body.as_ref()))));
            }
        }
        let mut alias_vals: Vec<OptStrAlias> = vec![OptStrAlias(None)];
        alias_vals.extend(boundary_strings().into_iter().map(|s| OptStrAlias(Some(s))));
        for (i, body) in alias_vals.iter().enumerate() {
            let ret = alias_vals[(i * 7 + 1) % alias_vals.len()].clone();
            let ret2 = ret.clone();
            run_case(&mut cx, "body_alias_opt", "body", &chunking, vec![rec(body)], rec(&ret), false,
                &|h| h.set_return(ret2.clone()),
                &|rig| ok(rig.client().body_alias_opt(body)),
                &|rig| ok(block_on(rig.async_client().body_alias_opt(body))));
        }
        let maps: Vec<BTreeMap<String, Vec<i32>>> = vec![
            BTreeMap::new(),
            [("".to_string(), vec![])].into_iter().collect(),
            [("a".to_string(), vec![1, -1]), ("\u{e9}\"".to_string(), vec![i32::MIN])].into_iter().collect(),
        ];
        for body in &maps {
            for ret in &maps {
                let ret2 = ret.clone();
                run_case(&mut cx, "body_collections", "body", &chunking, vec![rec(body)], rec(ret), false,
                    &|h| h.set_return(ret2.clone()),
                    &|rig| ok(rig.client().body_collections(body)),
                    &|rig| ok(block_on(rig.async_client().body_collections(body))));
            }
        }
        let choices: Vec<Choice> = [r#"{"type":"text","text":"té"}"#, r#"{"type":"payload","payload":{"name":"n","count":1,"ratio":"NaN"}}"#, r#"{"type":"numbers","numbers":[3,1,2]}"#, r#"{"type":"numbers","numbers":[]}"#, r#"{"type":"brandNew","brandNew":{"a":[1,"x"]}}"#]
            .iter()
            .map(|s| conjure_serde::json::client_from_str(s).unwrap())
            .collect();
        for (i, body) in choices.iter().enumerate() {
            let ret = choices[(i + 1) % choices.len()].clone();
            let ret2 = ret.clone();
            run_case(&mut cx, "body_union", "body", &chunking, vec![rec(body)], rec(&ret), false,
                &|h| h.set_return(ret2.clone()),
                &|rig| ok(rig.client().body_union(body)),
                &|rig| ok(block_on(rig.async_client().body_union(body))));
        }
        let anys: Vec<Any> = ["null", "1", "-1.5", "\"NaN\"", "[1,[2,{\"a\":null}]]", "{\"type\":\"x\",\"x\":{}}", "18446744073709551615", "\"\""].iter().map(|s| conjure_serde::json::client_from_str(s).unwrap()).collect();
        for (i, body) in anys.iter().enumerate() {
            let ret = anys[(i + 3) % anys.len()].clone();
            let ret2 = ret.clone();
            run_case(&mut cx, "body_any", "body", &chunking, vec![rec(body)], rec(&ret), false,
                &|h| h.set_return(ret2.clone()),
                &|rig| ok(rig.client().body_any(body)),
                &|rig| ok(block_on(rig.async_client().body_any(body))));
        }
        let dsets: Vec<BTreeSet<DoubleKey>> = vec![BTreeSet::new(), doubles().into_iter().map(DoubleKey).collect(), [DoubleKey(f64::NAN)].into_iter().collect()];
        for body in &dsets {
            for ret in &dsets {
                let ret2 = ret.clone();
                run_case(&mut cx, "body_double_set", "body", &chunking, vec![rec(body)], rec(ret), false,
                    &|h| h.set_return(ret2.clone()),
                    &|rig| ok(rig.client().body_double_set(body)),
                    &|rig| ok(block_on(rig.async_client().body_double_set(body))));
            }
        }
        for (body, ret) in [(vec![], vec![1]), (vec![1, 2, 3], vec![]), (vec![i32::MIN], vec![i32::MAX, 0])] {
            let (body, ret) = (IntListAlias(body), IntListAlias(ret));
            let ret2 = ret.clone();
            run_case(&mut cx, "body_list_alias", "body", &chunking, vec![rec(&body)], rec(&ret), false,
                &|h| h.set_return(ret2.clone()),
                &|rig| ok(rig.client().body_list_alias(&body)),
                &|rig| ok(block_on(rig.async_client().body_list_alias(&body))));
        }
        // binary bodies of 0 / 1 / 3 chunks, both directions
        let blobs = vec![Blob(vec![]), Blob(vec![vec![0, 255, 10]]), Blob(vec![b"ab".to_vec(), vec![], b"\r\n\0".to_vec(), vec![0xfe; 70]])];
        for body in &blobs {
            for ret in &blobs {
                let sent = rec_bytes(&body.0.concat());
                let want = rec_bytes(&ret.0.concat());
                let ret2 = ret.clone();
                run_case(&mut cx, "body_binary", "body", &chunking, vec![sent.clone()], want.clone(), false,
                    &|h| h.set_return(Some(ret2.clone())),
                    &|rig| rig.client().body_binary(body.clone()).map(read_all),
                    &|rig| block_on(rig.async_client().body_binary(body.clone())).map(read_all));
                // the library's own writer for byte slices (blocking) next to the harness writer
                let flat = body.0.concat();
                let ret4 = ret.clone();
                run_case(&mut cx, "body_binary", "body:slice-writer", &chunking, vec![sent.clone()], want.clone(), false,
                    &|h| h.set_return(Some(ret4.clone())),
                    &|rig| rig.client().body_binary(&flat[..]).map(read_all),
                    &|rig| block_on(rig.async_client().body_binary(body.clone())).map(read_all));
                let ret3 = ret.clone();
                run_case(&mut cx, "bin_alias", "body", &chunking, vec![sent], want, false,
                    &|h| h.set_return(Some(ret3.clone())),
                    &|rig| rig.client().bin_alias(body.clone()).map(read_all),
                    &|rig| block_on(rig.async_client().bin_alias(body.clone())).map(read_all));
            }
        }
        for present in [true, false] {
            for ret in [None, Some(Blob(vec![])), Some(Blob(vec![b"xyz".to_vec()]))] {
                let want = match &ret {
                    None => "none".to_string(),
                    Some(b) => rec_bytes(&b.0.concat()),
                };
                let ret2 = ret.clone();
                run_case(&mut cx, "opt_binary", "return", &chunking, vec![rec(&present)], want, false,
                    &|h| h.set_return(ret2.clone()),
                    &|rig| rig.client().opt_binary(present).map(|o| o.map(read_all).unwrap_or_else(|| "none".into())),
                    &|rig| block_on(rig.async_client().opt_binary(present)).map(|o| o.map(read_all).unwrap_or_else(|| "none".into())));
            }
        }
        for (body, ret) in [("", "r"), ("abcdef", ""), ("\u{e9}", "x")] {
            let ret2 = ret.to_string();
            run_case(&mut cx, "small_body", "body", &chunking, vec![rec(&body)], rec(&ret), false,
                &|h| h.set_return(ret2.clone()),
                &|rig| ok(rig.client().small_body(body)),
                &|rig| ok(block_on(rig.async_client().small_body(body))));
        }
        let p = payloads().remove(1);
        run_case(&mut cx, "safe_body", "id+body", &chunking, vec![rec(&-5), rec(&p)], rec(&77), false,
            &|h| h.set_return(77i32),
            &|rig| ok(rig.client().safe_body(-5, &p)),
            &|rig| ok(block_on(rig.async_client().safe_body(-5, &p))));
        run_case(&mut cx, "noop", "-", &chunking, vec![], rec(&()), false, &|_| {}, &|rig| ok(rig.client().noop()), &|rig| ok(block_on(rig.async_client().noop())));
        for a in [None, Some("x y&z")] {
            let uri = match a {
                None => "/u/context".to_string(),
                Some(_) => "/u/context?arg=x%20y%26z".to_string(),
            };
            run_case(&mut cx, "context", "arg", &chunking, vec![rec(&a), uri], rec(&()), false, &|_| {}, &|rig| ok(rig.client().context(a)), &|rig| ok(block_on(rig.async_client().context(a))));
        }
    }

    // ---- safeMix: strings in every position (auth + path + query + header at once)
    {
        let mut cx = Ctx { r: cx.r, rig: &rigs[0] };
        let tok = BearerToken::new("t0k").unwrap();
        let hdr_ok: Vec<&String> = reduced.iter().filter(|s| header_must_deliver(s)).collect();
        for a in &reduced {
            for b in &reduced {
                let h = hdr_ok[(a.len() + b.len()) % hdr_ok.len()];
                let dnl = if a.is_empty() { None } else { Some(a.as_str()) };
                let e = colors().remove(b.len() % 4);
                let args = vec![rec(&tok), rec(a), rec(b), rec(b), rec(a), rec(h), rec(h), rec(&dnl), rec(&Some(&e)), rec(&None::<Color>)];
                run_case(&mut cx, "safe_mix", "all", &format!("{}|{}", class_of(a), class_of(b)), args, rec(&()), false, &|_| {},
                    &|rig| ok(rig.client().safe_mix(&tok, a, b, b, a, h, h, dnl, Some(&e), None)),
                    &|rig| ok(block_on(rig.async_client().safe_mix(&tok, a, b, b, a, h, h, dnl, Some(&e), None))));
            }
        }
    }

    // macro-derived clients against macro-derived endpoints
    crate::c04m::run(args, &mut report);
    // Smile request bodies and negotiated response encodings
    crate::c04s::run(&mut report);
    let _ = (DeserializeOwnedMarker, ());
    report.sample("path", json!({"endpoint": "pathParams", "fooBar": "a/b", "type": "%2F", "rid": "ri.a..b.c"}));
    report.sample("query", json!({"endpoint": "queryParams", "strs": ["&", "=", "&"], "strSet": ["", "#"]}));
    report.sample("body", json!({"endpoint": "bodyUnion", "body": {"type": "brandNew", "brandNew": {"a": [1, "x"]}}, "chunking": "1-byte chunks both ways"}));
    report.bound("strings_per_position", strings.len());
    report.bound("pair_alphabet", reduced.len());
    report.bound("body_chunkings", json!(["whole", "1-byte", "3-byte request / 2-byte response", "4/3-byte chunks each followed by an empty chunk"]));
    report.nontrivial = report.states;
    report.rule = "states = (endpoint, argument values, scripted return): every ASCII code point, UTF-8 boundary, look-alike and reserved-character pair in every string position of path/query/header parameters, pairs of positions over a reduced alphabet, one-hot scalar alphabets, collections of 0..3 elements, bodies (objects, unions incl. unknown variants, any, aliases, double sets, binary of 0/1/4 chunks) under three body chunkings; each state through the generated blocking and async client and endpoints".into();
    report.assumptions.push("header values outside visible ASCII (0x21-0x7e) may be refused by client or server, never delivered altered".into());
    report.assumptions.push("a server error is handed to the client call as an error (no HTTP error-response rendering in the loopback)".into());
    report
}

struct DeserializeOwnedMarker;
#[allow(dead_code)]
fn _bounds<T: DeserializeOwned>() {}
