//! Raw request space for C09 / C19: endpoints of the universal service described as
//! argument descriptors; a request is built from one *state* per argument
//! (valid / absent / repeated / unparsable / invalid text) and sent straight to the routed
//! endpoint (no client in between), blocking and async.

use crate::c04::Rig;
use conjure_error::{Error, ErrorKind};
use conjure_http::SafeParams;
use futures::executor::block_on;
use http::{HeaderMap, HeaderName, HeaderValue, Method};

#[derive(Clone, Copy, PartialEq, Debug)]
pub enum Kind {
    Path,
    Query(&'static str),
    Header(&'static str),
    AuthHeader,
    AuthCookie(&'static str),
    Body,
}

#[derive(Clone, Copy, PartialEq, Eq, Debug, PartialOrd, Ord)]
pub enum St {
    Valid,
    Absent,
    Repeated,
    Unparsable,
    /// bytes that are not text (not visible ASCII in a header, invalid UTF-8 percent-escapes)
    InvalidText,
    /// auth only: wrong scheme / prefix
    WrongScheme,
    /// auth only: scheme present, token empty
    EmptyToken,
    /// auth only: the header value is empty / one character / the prefix without its last
    /// character / the cookie name alone (all shorter than the expected prefix)
    EmptyValue,
    OneChar,
    PrefixCut,
    /// query / header: the value is present and empty (`k=`, an empty header value) — decodable
    /// exactly for strings
    EmptyText,
    /// query: the key alone (`?k`), which form decoding reads as an empty value
    BareKey,
    /// query collections: an empty value between two valid ones (`k=v&k=&k=v`)
    EmptyAmongValues,
    /// query: the key written with a percent-escape (`l%69mit=`), a legal spelling of the same key:
    /// with a valid value (decodes), with an unparsable one, and next to the plain spelling
    EncodedKeyValid,
    EncodedKeyUnparsable,
    EncodedKeyRepeated,
    /// query: a value whose text, after the one round of URL decoding the wire format has, still
    /// reads like an escape (`%2531` carries the text `%31`): a string, and nothing else
    EscapedEscape,
    /// query collections: two values of the argument with every other pair of the query between
    /// them (`k=v&other=..&k=v`): pairs of one key need not be neighbours
    Interleaved,
}

#[derive(Clone)]
pub struct ArgD {
    pub kind: Kind,
    /// the name in the Conjure definition (= expected `param`)
    pub declared: &'static str,
    pub safe: bool,
    pub required: bool,
    /// single-valued (repetition is an error) or a collection
    pub single: bool,
    /// can a value fail to parse as the type? (strings cannot)
    pub typed: bool,
    /// a valid wire value carrying the taint token, and the taint token itself
    pub valid: String,
    pub taint: String,
    /// an unparsable wire value carrying the taint token
    pub bad: String,
    /// further texts that look like the type but are outside its grammar
    pub bad_alts: Vec<&'static str>,
    /// further texts inside the type's grammar (boundary / unusual spellings)
    pub valid_alts: Vec<&'static str>,
}

#[derive(Clone)]
pub struct EndpointD {
    pub name: &'static str,
    pub method: Method,
    /// path template; `{}` marks parameter positions (filled from Path args in order)
    pub segments: Vec<&'static str>,
    pub args: Vec<ArgD>,
    pub handler: &'static str,
}

fn taint(i: usize) -> String {
    format!("QZT{}XJW", (b'A' + i as u8) as char)
}

fn arg(i: usize, kind: Kind, declared: &'static str, ty: &'static str, safe: bool, required: bool, single: bool) -> ArgD {
    let t = taint(i);
    let (valid, typed, bad) = match ty {
        "string" => (format!("v{}", t), false, String::new()),
        "integer" => (format!("73{}", 1000 + i), true, format!("12{}", t)),
        "double" => (format!("73{}.5", 1000 + i), true, format!("1.{}", t)),
        "boolean" => ("true".to_string(), true, format!("tru{}", t)),
        "uuid" => (format!("0123{:04}-89ab-cdef-fedc-ba9876543210", 7000 + i), true, format!("0123-{}", t)),
        "datetime" => (format!("20{:02}-02-03T04:05:06Z", 30 + i), true, format!("2020-{}", t)),
        "safelong" => (format!("99{}", 1000 + i), true, format!("9{}", t)),
        "rid" => (format!("ri.svc..type.{}", t), true, format!("ri.{}", t)),
        "enum" => ("GREEN".to_string(), true, format!("lower{}", t)),
        "token" => (format!("tok{}", t), true, format!("bad {}", t)),
        other => panic!("{}", other),
    };
    let taint = match ty {
        "integer" => format!("73{}", 1000 + i),
        "double" => format!("73{}", 1000 + i),
        "uuid" => format!("0123{:04}", 7000 + i),
        "datetime" => format!("20{:02}-02-03", 30 + i),
        "safelong" => format!("99{}", 1000 + i),
        "boolean" | "enum" => t.clone(),
        _ => t.clone(),
    };
    let bad_alts: Vec<&'static str> = match ty {
        "datetime" => vec!["2017-1-2T3:4:5Z", "2017-01-02T03:04:05+0100", "2017-01-02T03:04:05UTC", "2017-01-02", "2017-01-02T03:04:05", "1483326245", "2017-13-02T03:04:05Z"],
        "integer" => vec!["+-1", "1.0", "1e3", "0x10", "2147483648", "1_000", "١"],
        "double" => vec!["1,5", "1.5.0", "0x1p3", "1e", "--1"],
        "boolean" => vec!["TRUE", "True", "1", "yes", "t"],
        "uuid" => vec!["0123456789abcdeffedcba987654321", "01234567-89ab-cdef-fedc-ba987654321g", "01234567-89ab-cdef-fedc"],
        "safelong" => vec!["9007199254740992", "-9007199254740992", "1.0", "9e15"],
        "rid" => vec!["ri.a.b.c", "ri.A.b.c.d", "ri.a.b.c.", "rid.a.b.c.d"],
        "enum" => vec!["green", "GREEN-1", "GRE EN"],
        "token" => vec!["=abc", "a b", "a,b", "abc=def", "YWJj=ZA=", "abc==x", "=", "a=b=", "user=admin"],
        _ => vec![],
    };
    let valid_alts: Vec<&'static str> = match ty {
        "token" => vec!["YWJj==", "a+b/c~._-", "A", "0=", "++++/w=="],
        "datetime" => vec!["2017-01-02T03:04:05.123456789Z", "2017-01-02T03:04:05+01:00", "0000-01-01T00:00:00Z", "9999-12-31T23:59:59.999999999Z"],
        "integer" => vec!["-2147483648", "2147483647", "0", "-0", "007"],
        "double" => vec!["NaN", "-Infinity", "Infinity", "1e3", "-0.0", "5e-324", "1e+21", "2.5E+3", "1E-7", "1.7976931348623157e308", "0.1", "123456789.12345679"],
        "boolean" => vec!["false"],
        "safelong" => vec!["-9007199254740991", "9007199254740991", "0"],
        "rid" => vec!["ri.a..c.D_-.", "ri.a-1.0b.c-2.d.e"],
        "string" => vec!["", " ", "a b", "%", "+", "a=b&c", "é"],
        _ => vec![],
    };
    ArgD { kind, declared, safe, required, single, typed, valid, taint, bad, bad_alts, valid_alts }
}

pub fn endpoints() -> Vec<EndpointD> {
    use Kind::*;
    vec![
        EndpointD {
            name: "pathParams",
            method: Method::GET,
            segments: vec!["u", "path", "{}", "{}", "lit", "{}"],
            handler: "path_params",
            args: vec![
                arg(0, Path, "fooBar", "string", false, true, true),
                arg(1, Path, "type", "string", false, true, true),
                arg(2, Path, "rid", "rid", false, true, true),
            ],
        },
        EndpointD {
            name: "scalars",
            method: Method::GET,
            segments: vec!["u", "scalars", "{}", "{}", "{}", "{}", "{}", "{}", "{}"],
            handler: "scalars",
            args: vec![
                arg(0, Path, "b", "boolean", false, true, true),
                arg(1, Path, "d", "double", false, true, true),
                arg(2, Path, "u", "uuid", false, true, true),
                arg(3, Path, "dt", "datetime", false, true, true),
                arg(4, Path, "sl", "safelong", false, true, true),
                arg(5, Path, "e", "enum", true, true, true),
                arg(6, Path, "i", "integer", false, true, true),
                arg(7, Header("x-tok"), "tok", "token", false, true, true),
            ],
        },
        EndpointD {
            name: "queryParams",
            method: Method::GET,
            segments: vec!["u", "query"],
            handler: "query_params",
            args: vec![
                arg(0, Query("q"), "q", "string", false, true, true),
                arg(1, Query("optInt"), "optInt", "integer", false, false, true),
                arg(2, Query("strs"), "strs", "string", false, false, false),
                arg(3, Query("str-set"), "strSet", "string", false, false, false),
                arg(4, Query("colors"), "colors", "enum", true, false, false),
                arg(5, Query("optAlias"), "optAlias", "string", false, false, true),
                arg(6, Query("listAlias"), "listAlias", "integer", false, false, false),
                arg(7, Query("flag"), "flag", "boolean", false, true, true),
                arg(8, Query("optDouble"), "optDouble", "double", false, false, true),
            ],
        },
        EndpointD {
            name: "keywords",
            method: Method::GET,
            segments: vec!["u", "kw", "{}", "{}"],
            handler: "keywords",
            args: vec![
                arg(0, Path, "type", "integer", false, true, true),
                arg(1, Path, "match", "uuid", false, true, true),
                arg(2, Query("ref"), "ref", "integer", false, true, true),
                arg(3, Query("loop"), "loop", "boolean", false, false, true),
                arg(4, Header("x-fn"), "fn", "integer", false, true, true),
                arg(5, Header("x-self"), "self", "double", false, false, true),
            ],
        },
        EndpointD {
            name: "headers",
            method: Method::GET,
            segments: vec!["u", "headers"],
            handler: "headers",
            args: vec![
                arg(0, Header("x-str"), "xStr", "string", false, true, true),
                arg(1, Header("x-opt-int"), "xOptInt", "integer", false, false, true),
                arg(2, Header("x-alias"), "xAlias", "string", false, true, true),
                arg(3, Header("x-enum"), "xEnum", "enum", true, true, true),
                arg(4, Header("x-opt-alias"), "xOptAlias", "string", false, false, true),
                arg(5, Header("x-opt-uuid"), "xOptUuid", "uuid", false, false, true),
            ],
        },
        EndpointD {
            name: "safeMix",
            method: Method::GET,
            segments: vec!["u", "safe", "{}", "{}"],
            handler: "safe_mix",
            args: vec![
                arg(0, AuthHeader, "auth_", "token", false, true, true),
                arg(1, Path, "safePath", "string", true, true, true),
                arg(2, Path, "unsafePath", "string", false, true, true),
                arg(3, Query("sq"), "safeQuery", "string", true, true, true),
                arg(4, Query("uq"), "unsafeQuery", "string", false, true, true),
                arg(5, Header("x-safe"), "safeHeader", "string", true, true, true),
                arg(6, Header("x-unsafe"), "unsafeHeader", "string", false, true, true),
                arg(7, Query("dnl"), "dnlQuery", "string", false, false, true),
                arg(8, Query("color"), "enumQuery", "enum", true, false, true),
                arg(9, Query("ucolor"), "unsafeEnumQuery", "enum", false, false, true),
            ],
        },
        EndpointD {
            name: "tagMix",
            method: Method::GET,
            segments: vec!["u", "tagmix", "{}"],
            handler: "tag_mix",
            args: vec![
                arg(0, Path, "plainPath", "string", false, true, true),
                arg(1, Query("rq"), "retryQuery", "string", false, true, true),
                arg(2, Query("utq"), "unsafeTagQuery", "string", false, true, true),
                arg(3, Header("x-upper"), "upperHeader", "string", false, true, true),
                arg(4, Query("ma"), "markerAlike", "string", false, true, true),
                arg(5, Query("rs"), "realSafe", "string", true, true, true),
            ],
        },
        EndpointD {
            name: "safeList",
            method: Method::GET,
            segments: vec!["u", "safelist"],
            handler: "safe_list",
            args: vec![arg(0, Query("tag"), "safeTags", "string", true, false, false), arg(1, Query("secret"), "secretWord", "string", false, true, true), arg(2, Query("id"), "safeIds", "string", true, false, false)],
        },
        EndpointD { name: "oneQuery", method: Method::GET, segments: vec!["u", "one"], handler: "one_query", args: vec![arg(0, Query("limit"), "pageLimit", "integer", false, false, true)] },
        EndpointD { name: "oneQueryRequired", method: Method::GET, segments: vec!["u", "onereq"], handler: "one_query_required", args: vec![arg(0, Query("id"), "theId", "integer", false, true, true)] },
        EndpointD {
            name: "authCookie",
            method: Method::GET,
            segments: vec!["u", "auth", "cookie"],
            handler: "auth_cookie",
            args: vec![arg(0, AuthCookie("PALANTIR_TOKEN="), "auth_", "token", false, true, true)],
        },
        EndpointD {
            name: "teeBody",
            method: Method::POST,
            segments: vec!["u", "rec", "tee", "{}"],
            handler: "tee_body",
            args: vec![arg(0, Path, "id", "integer", true, true, true), {
                let mut a = arg(1, Body, "body", "string", false, true, true);
                a.valid = format!("{{\"secret\":\"{}\",\"wrapper\":{{\"tee\":{{\"secret\":\"{}\"}}}}}}", a.taint, a.taint);
                a.bad = format!("{{\"secret\":5,\"{}\":1}}", a.taint);
                a.typed = true;
                a
            }],
        },
        EndpointD {
            name: "wrapperBody",
            method: Method::POST,
            segments: vec!["u", "rec", "wrapper", "{}"],
            handler: "wrapper_body",
            args: vec![arg(0, Path, "id", "integer", true, true, true), {
                let mut a = arg(1, Body, "body", "string", false, true, true);
                a.valid = format!("{{\"tee\":{{\"secret\":\"{}\"}},\"link\":{{\"wrapper\":{{\"tee\":{{\"secret\":\"{}\"}}}}}}}}", a.taint, a.taint);
                a.bad = format!("{{\"tee\":{{\"secret\":5,\"{}\":1}}}}", a.taint);
                a.typed = true;
                a
            }],
        },
        EndpointD {
            name: "linkBody",
            method: Method::POST,
            segments: vec!["u", "rec", "link", "{}"],
            handler: "link_body",
            args: vec![arg(0, Path, "id", "integer", true, true, true), {
                let mut a = arg(1, Body, "body", "string", false, true, true);
                a.valid = format!("[{{\"wrapper\":{{\"tee\":{{\"secret\":\"{}\"}}}}}}]", a.taint);
                a.bad = format!("[{{\"wrapper\":{{\"tee\":{{\"secret\":5,\"{}\":1}}}}}}]", a.taint);
                a.typed = true;
                a
            }],
        },
        EndpointD {
            name: "safeChoiceBody",
            method: Method::POST,
            segments: vec!["u", "safechoice", "{}"],
            handler: "safe_choice_body",
            args: vec![arg(0, Path, "id", "integer", true, true, true), {
                let mut a = arg(1, Body, "body", "string", false, true, true);
                // an unlisted variant: carries anything
                a.valid = format!("{{\"type\":\"mystery\",\"mystery\":{{\"password\":\"{}\"}}}}", a.taint);
                a.bad = format!("{{\"type\":\"label\",\"label\":5,\"{}\":1}}", a.taint);
                a.typed = true;
                a
            }],
        },
        EndpointD {
            name: "safeBody",
            method: Method::POST,
            segments: vec!["u", "safebody", "{}"],
            handler: "safe_body",
            args: vec![arg(0, Path, "id", "integer", true, true, true), {
                let mut a = arg(1, Body, "body", "string", false, true, true);
                a.valid = format!("{{\"name\":\"{}\",\"count\":1,\"ratio\":1.0}}", a.taint);
                a.bad = format!("{{\"name\":\"{}\",\"count\":\"{}\",\"{}\":1}}", a.taint, a.taint, a.taint);
                a.typed = true;
                a
            }],
        },
        EndpointD {
            name: "sameIds",
            method: Method::GET,
            segments: vec!["u", "sameids", "{}"],
            handler: "same_ids",
            args: vec![
                arg(0, Path, "pathWord", "string", true, true, true),
                arg(1, Query("pageToken"), "pageToken", "string", true, true, true),
                arg(2, Query("pageSize"), "pageSize", "integer", true, false, true),
                arg(3, Query("secretWord"), "secretWord", "string", false, true, true),
                arg(4, Header("traceid"), "traceId", "string", true, true, true),
                arg(5, Header("unsafeheader"), "unsafeHeader", "integer", false, false, true),
            ],
        },
        EndpointD {
            name: "enumMapBody",
            method: Method::POST,
            segments: vec!["u", "enummap", "{}"],
            handler: "enum_map_body",
            args: vec![arg(0, Path, "id", "integer", true, true, true), {
                // map<Color, StrAlias>: a safe key does not make the unannotated values safe
                let mut a = arg(1, Body, "body", "string", false, true, true);
                a.valid = format!("{{\"RED\":\"{}\",\"GREEN\":\"x\"}}", a.taint);
                a.bad = format!("{{\"RED\":[\"{}\"]}}", a.taint);
                a.typed = true;
                a
            }],
        },
        EndpointD {
            name: "safeEnumMapBody",
            method: Method::POST,
            segments: vec!["u", "safeenummap", "{}"],
            handler: "safe_enum_map_body",
            args: vec![arg(0, Path, "id", "integer", false, true, true), {
                // map<Color, list<Color>>: safe by type, recorded although nothing is declared
                let mut a = arg(1, Body, "body", "string", true, true, true);
                a.valid = "{\"RED\":[\"GREEN\",\"DARK_BLUE\"]}".to_string();
                a.taint = "DARK_BLUE".to_string();
                a.bad = "{\"RED\":[5]}".to_string();
                a.typed = true;
                a
            }],
        },
        EndpointD {
            name: "authHeaderBody",
            method: Method::POST,
            segments: vec!["u", "auth", "header"],
            handler: "auth_header_body",
            args: vec![arg(0, AuthHeader, "auth_", "token", false, true, true), {
                let mut a = arg(1, Body, "body", "string", false, true, true);
                a.valid = format!("{{\"name\":\"{}\",\"count\":1,\"ratio\":1.0}}", a.taint);
                a.bad = format!("[\"{}\"", a.taint);
                a.typed = true;
                a
            }],
        },
    ]
}

/// which states make sense for an argument
pub fn states_of(a: &ArgD) -> Vec<St> {
    let mut v = vec![St::Valid];
    match a.kind {
        Kind::Path => {
            if a.typed {
                v.push(St::Unparsable);
                v.push(St::InvalidText);
            }
        }
        Kind::Query(_) => {
            v.push(St::Absent);
            if a.single {
                v.push(St::Repeated);
            }
            if a.typed {
                v.push(St::Unparsable);
            }
            v.push(St::EmptyText);
            v.push(St::BareKey);
            v.push(St::EncodedKeyValid);
            if a.typed {
                v.push(St::EncodedKeyUnparsable);
            }
            if a.single {
                v.push(St::EncodedKeyRepeated);
            }
            v.push(St::EscapedEscape);
            if !a.single {
                v.push(St::EmptyAmongValues);
                v.push(St::Interleaved);
            }
        }
        Kind::Header(_) => {
            v.push(St::Absent);
            v.push(St::EmptyText);
            if a.single {
                v.push(St::Repeated);
            }
            if a.typed {
                v.push(St::Unparsable);
            }
            v.push(St::InvalidText);
        }
        Kind::AuthHeader | Kind::AuthCookie(_) => {
            v.extend([St::Absent, St::WrongScheme, St::EmptyToken, St::Unparsable, St::InvalidText, St::EmptyValue, St::OneChar, St::PrefixCut]);
        }
        Kind::Body => {
            v.extend([St::Absent, St::Unparsable]);
        }
    }
    v
}

/// is this argument undecodable in this state?
pub fn corrupts(a: &ArgD, s: St) -> bool {
    match s {
        St::Valid | St::EncodedKeyValid | St::Interleaved => false,
        St::Absent => a.required,
        // the empty text is a string (and nothing else)
        St::EmptyText | St::BareKey | St::EmptyAmongValues | St::EscapedEscape => a.typed,
        _ => true,
    }
}

/// the key with its second character percent-escaped (first if there is only one)
fn enc_key(k: &str) -> String {
    let i = if k.len() > 1 { 1 } else { 0 };
    format!("{}%{:02X}{}", &k[..i], k.as_bytes()[i], &k[i + 1..])
}

pub struct Built {
    pub method: Method,
    pub uri: http::Uri,
    pub headers: HeaderMap,
    pub body: Vec<u8>,
}

pub fn build(e: &EndpointD, states: &[St]) -> Built {
    let mut path = String::new();
    let mut path_args = e.args.iter().zip(states).filter(|(a, _)| a.kind == Kind::Path);
    for seg in &e.segments {
        path.push('/');
        if *seg == "{}" {
            let (a, s) = path_args.next().expect("path arg");
            match s {
                St::Unparsable => path.push_str(&a.bad),
                St::InvalidText => {
                    path.push_str("%FF%FE");
                    path.push_str(&a.taint);
                }
                _ => path.push_str(&a.valid),
            }
        } else {
            path.push_str(seg);
        }
    }
    let mut query: Vec<String> = vec![];
    let mut query_tail: Vec<String> = vec![];
    let mut headers = HeaderMap::new();
    let mut body = vec![];
    for (a, s) in e.args.iter().zip(states) {
        match a.kind {
            Kind::Path => {}
            Kind::Query(k) => match s {
                St::Absent => {}
                St::Repeated => {
                    query.push(format!("{}={}", k, a.valid));
                    query.push(format!("{}={}", k, a.valid));
                }
                St::Unparsable => query.push(format!("{}={}", k, a.bad)),
                St::EncodedKeyValid => query.push(format!("{}={}", enc_key(k), a.valid)),
                St::EncodedKeyUnparsable => query.push(format!("{}={}", enc_key(k), a.bad)),
                St::EncodedKeyRepeated => {
                    query.push(format!("{}={}", k, a.valid));
                    query.push(format!("{}={}", enc_key(k), a.valid));
                }
                St::EscapedEscape => query.push(format!("{}=%25{:02X}{}", k, a.valid.as_bytes()[0], &a.valid[1..])),
                St::EmptyText => query.push(format!("{}=", k)),
                St::BareKey => query.push(k.to_string()),
                St::Interleaved => {
                    query.insert(0, format!("{}={}", k, a.valid));
                    query_tail.push(format!("{}={}", k, a.valid));
                }
                St::EmptyAmongValues => {
                    query.push(format!("{}={}", k, a.valid));
                    query.push(format!("{}=", k));
                    query.push(format!("{}={}", k, a.valid));
                }
                _ => query.push(format!("{}={}", k, a.valid)),
            },
            Kind::Header(h) => {
                let name = HeaderName::from_static(h);
                match s {
                    St::Absent => {}
                    St::Repeated => {
                        headers.append(name.clone(), HeaderValue::from_str(&a.valid).unwrap());
                        headers.append(name, HeaderValue::from_str(&a.valid).unwrap());
                    }
                    St::Unparsable => {
                        headers.append(name, HeaderValue::from_str(&a.bad).unwrap());
                    }
                    St::EmptyText => {
                        headers.append(name, HeaderValue::from_static(""));
                    }
                    St::InvalidText => {
                        let mut b = a.taint.clone().into_bytes();
                        b.extend_from_slice(b"\xff\xe9");
                        headers.append(name, HeaderValue::from_bytes(&b).unwrap());
                    }
                    _ => {
                        headers.append(name, HeaderValue::from_str(&a.valid).unwrap());
                    }
                }
            }
            Kind::AuthHeader | Kind::AuthCookie(_) => {
                let (name, prefix, wrong) = match a.kind {
                    Kind::AuthHeader => (http::header::AUTHORIZATION, "Bearer ".to_string(), "Basic "),
                    Kind::AuthCookie(p) => (http::header::COOKIE, p.to_string(), "OTHER="),
                    _ => unreachable!(),
                };
                let v: Option<Vec<u8>> = match s {
                    St::Absent => None,
                    St::WrongScheme => Some(format!("{}{}", wrong, a.valid).into_bytes()),
                    St::EmptyToken => Some(prefix.clone().into_bytes()),
                    St::EmptyValue => Some(vec![]),
                    St::OneChar => Some(b"x".to_vec()),
                    St::PrefixCut => Some(prefix[..prefix.len() - 1].as_bytes().to_vec()),
                    St::Unparsable => Some(format!("{}{}", prefix, a.bad).into_bytes()),
                    St::InvalidText => {
                        let mut b = format!("{}{}", prefix, a.taint).into_bytes();
                        b.extend_from_slice(b"\xff");
                        Some(b)
                    }
                    _ => Some(format!("{}{}", prefix, a.valid).into_bytes()),
                };
                if let Some(v) = v {
                    headers.insert(name, HeaderValue::from_bytes(&v).unwrap());
                }
            }
            Kind::Body => match s {
                St::Absent => {}
                St::Unparsable => {
                    headers.insert(http::header::CONTENT_TYPE, HeaderValue::from_static("application/json"));
                    body = a.bad.clone().into_bytes();
                }
                _ => {
                    headers.insert(http::header::CONTENT_TYPE, HeaderValue::from_static("application/json"));
                    body = a.valid.clone().into_bytes();
                }
            },
        }
    }
    query.extend(query_tail);
    let uri = if query.is_empty() { path } else { format!("{}?{}", path, query.join("&")) };
    Built { method: e.method.clone(), uri: uri.parse().expect("harness builds valid URIs"), headers, body }
}

pub struct Observed {
    pub result: Result<(), Error>,
    pub calls: usize,
    pub safe_params: Option<SafeParams>,
    pub panicked: Option<String>,
}

pub fn send(rig: &Rig, b: &Built, asynch: bool) -> Observed {
    rig.handler.take_calls();
    let got = vcommon::catch(|| {
        if asynch {
            block_on(rig.asyncl.dispatch(b.method.clone(), b.uri.clone(), b.headers.clone(), b.body.clone())).map(|_| ())
        } else {
            rig.blocking.dispatch(b.method.clone(), b.uri.clone(), b.headers.clone(), b.body.clone()).map(|_| ())
        }
    });
    let calls = rig.handler.take_calls().len();
    let safe_params = if asynch { rig.asyncl.last.lock().unwrap().safe_params.take() } else { rig.blocking.last.lock().unwrap().safe_params.take() };
    match got {
        Ok(result) => Observed { result, calls, safe_params, panicked: None },
        Err(p) => Observed { result: Ok(()), calls, safe_params, panicked: Some(p) },
    }
}

pub fn error_code(e: &Error) -> String {
    match e.kind() {
        ErrorKind::Service(s) => s.error_code().as_str().to_string(),
        _ => "not-a-service-error".to_string(),
    }
}

/// every assignment of states with at most `max_dev` arguments away from Valid
pub fn assignments(e: &EndpointD, max_dev: usize) -> Vec<Vec<St>> {
    let per: Vec<Vec<St>> = e.args.iter().map(states_of).collect();
    let mut out = vec![];
    let dims: Vec<usize> = per.iter().map(|p| p.len()).collect();
    vcommon::enumerate::for_each_product(&dims, |idx| {
        let devs = idx.iter().filter(|i| **i != 0).count();
        if devs <= max_dev {
            out.push(idx.iter().enumerate().map(|(a, i)| per[a][*i]).collect());
        }
    });
    out
}
