//! C06 (loopback part) — generated endpoints: the handler is invoked exactly when the body
//! is one complete valid document within the endpoint's limit (size-limit tag wiring
//! included), under every chunking; otherwise INVALID_ARGUMENT and no invocation.

use crate::c04::Rig;
use crate::loopback::Options;
use crate::reqs::{self, Built};
use http::{HeaderMap, HeaderValue, Method};
use serde_json::json;
use vcommon::{Args, Report};

const SMILE: &str = "application/x-jackson-smile";

struct Ep {
    name: &'static str,
    uri: &'static str,
    handler: &'static str,
    limit: usize,
    /// (body, is a valid document of the parameter type)
    bodies: Vec<(&'static str, bool)>,
    optional: bool,
}

/// a JSON string document of exactly `n` bytes
fn sized(n: usize) -> &'static str {
    Box::leak(format!("\"{}\"", "a".repeat(n - 2)).into_boxed_str())
}

fn endpoints() -> Vec<Ep> {
    let str_bodies = vec![("\"\"", true), ("\"abcdef\"", true), ("\"abcdefg\"", true), ("\"abcdefgh\"", true), (" \"ab\" ", true), ("\"ab\" x", false), ("\"ab\"\"cd\"", false), ("\"ab", false), ("42", false), ("", false), ("null", false), ("\"\\u00e9\"", true)];
    vec![
        Ep { name: "smallBody", uri: "/u/body/small", handler: "small_body", limit: 8, bodies: str_bodies, optional: false },
        // the units of the size-limit tag: 1 kb = 1000 bytes, 2Ki = 2048 bytes
        Ep { name: "kbBody", uri: "/u/body/kb", handler: "kb_body", limit: 1000, bodies: vec![(sized(999), true), (sized(1000), true), (sized(1001), true), (sized(1024), true), (sized(1025), true)], optional: false },
        Ep { name: "kibBody", uri: "/u/body/kib", handler: "kib_body", limit: 2048, bodies: vec![(sized(2000), true), (sized(2047), true), (sized(2048), true), (sized(2049), true)], optional: false },
        Ep {
            name: "bodyCollections",
            uri: "/u/body/collections",
            handler: "body_collections",
            limit: 50 * 1024 * 1024,
            bodies: vec![("{}", true), ("{\"a\":[1,2]}", true), ("{\"a\":[1,2]} ", true), ("{\"a\":[1,2]}{}", false), ("{\"a\":[1,2]", false), ("{\"a\":[1,\"x\"]}", false), ("[]", false), ("{\"a\":[1,2]}x", false), ("{\"a\":null}", false)],
            optional: false,
        },
        Ep {
            name: "bodyOptional",
            uri: "/u/body/optional",
            handler: "body_optional",
            limit: 50 * 1024 * 1024,
            bodies: vec![("null", true), ("{\"name\":\"n\",\"count\":1,\"ratio\":0.5}", true), ("{\"name\":\"n\",\"count\":1,\"ratio\":0.5,\"bogus\":1}", false), ("{\"name\":\"n\",\"count\":1,\"ratio\":0.5} null", false), ("{\"name\":\"n\"", false), ("", false)],
            optional: true,
        },
        // the same optional bodies on endpoints that also carry a size-limit tag (bodies far below it)
        Ep {
            name: "limitOptional",
            uri: "/u/body/limitopt",
            handler: "limit_optional",
            limit: 50 * 1024 * 1024,
            bodies: vec![("null", true), ("{\"name\":\"n\",\"count\":1,\"ratio\":0.5}", true), ("{\"name\":\"n\",\"count\":1,\"ratio\":0.5,\"bogus\":1}", false), ("{\"name\":\"n\"", false), ("", false)],
            optional: true,
        },
        Ep {
            name: "limitAliasOpt",
            uri: "/u/body/limitaliasopt",
            handler: "limit_alias_opt",
            limit: 50 * 1024 * 1024,
            bodies: vec![("null", true), ("\"s\"", true), ("\"s\"\"t\"", false), ("\"s", false), ("", false)],
            optional: true,
        },
        Ep {
            name: "bodyAliasOpt",
            uri: "/u/body/aliasopt",
            handler: "body_alias_opt",
            limit: 50 * 1024 * 1024,
            bodies: vec![("null", true), ("\"s\"", true), ("\"s\"\"t\"", false), ("5", false), ("\"s", false)],
            optional: true,
        },
        Ep {
            name: "bodyUnion",
            uri: "/u/body/union",
            handler: "body_union",
            limit: 50 * 1024 * 1024,
            bodies: union_orders().into_iter().chain(vec![("{\"type\":\"text\",\"text\":\"t\"}", true), ("{\"text\":\"t\",\"type\":\"text\"}", true), ("{\"type\":\"text\",\"text\":\"t\"}]", false), ("{\"type\":\"text\",\"text\":5}", false), ("{\"type\":\"text\"}", false), ("{\"type\":\"other\",\"other\":[1]}", true), ("{\"type\":\"text\",\"text\":\"t\",\"more\":1}", false), ("{\"type\":\"payload\",\"payload\":{\"name\":\"n\",\"count\":1,\"ratio\":0.5}}", true), ("{\"type\":\"payload\",\"payload\":{\"name\":\"n\",\"count\":1,\"ratio\":0.5,\"deepBogus\":[]}}", false)]).collect(),
            optional: false,
        },
    ]
}

/// union documents in both field orders over every (value key, `type` value) pair from two
/// declared and two undeclared member names: a document of the union names ONE member, in
/// both places (the value under an undeclared member is free).
fn union_orders() -> Vec<(&'static str, bool)> {
    let names = ["text", "numbers", "brandNew", "other"];
    let mut out = Vec::new();
    for key in names {
        for ty in names {
            let value = match key { "text" => "\"t\"", "numbers" => "[2]", _ => "[1]" };
            let valid = key == ty;
            for type_first in [true, false] {
                let doc = if type_first { format!("{{\"type\":\"{}\",\"{}\":{}}}", ty, key, value) } else { format!("{{\"{}\":{},\"type\":\"{}\"}}", key, value, ty) };
                out.push((&*Box::leak(doc.into_boxed_str()), valid));
            }
        }
    }
    out
}

pub fn run(args: &Args) -> Report {
    let mut report = Report::new("C06", "fault_enumeration");
    let rigs = [Rig::new(Options::default), Rig::new(|| Options { request_chunk: 1, response_chunk: 0 }), Rig::new(|| Options { request_chunk: 3, response_chunk: 0 }), Rig::new(|| Options { request_chunk: 4, response_chunk: 0 })];
    let cts: Vec<(Option<&'static str>, bool)> = vec![(Some("application/json"), true), (Some("application/json; charset=utf-8"), true), (None, false), (Some("text/plain"), false), (Some("application/json+xml"), false), (Some("application/*"), false), (Some(SMILE), true)];
    let _ = args;
    for ep in endpoints() {
        for (body, valid) in &ep.bodies {
            for (ct, ct_ok) in &cts {
                for (ri, rig) in rigs.iter().enumerate() {
                    report.states += 1;
                    let mut headers = HeaderMap::new();
                    if let Some(ct) = ct {
                        headers.insert(http::header::CONTENT_TYPE, HeaderValue::from_static(ct));
                    }
                    let wire: Vec<u8> = if *ct == Some(SMILE) {
                        match serde_json::from_str::<serde_json::Value>(body) {
                            Ok(v) => serde_smile::to_vec(&v).unwrap(),
                            Err(_) => continue, // only whole JSON values have a Smile rendering
                        }
                    } else {
                        body.as_bytes().to_vec()
                    };
                    let wire_len = wire.len();
                    let built = Built { method: Method::POST, uri: ep.uri.parse().unwrap(), headers, body: wire };
                    // an optional body without a Content-Type is absent (handler runs with None)
                    let expect_call = if ct.is_none() && ep.optional { true } else { *ct_ok && *valid && wire_len <= ep.limit };
                    for asynch in [false, true] {
                        report.evaluations += 1;
                        report.transitions += 1;
                        let flavour = if asynch { "async" } else { "blocking" };
                        let obs = reqs::send(rig, &built, asynch);
                        let case = json!({"endpoint": ep.name, "body": body, "content_type": ct, "chunk": ri, "flavour": flavour});
                        let class = format!("{}|{}|{}|ct={:?}|rig{}", ep.name, flavour, if *valid { if wire_len > ep.limit { "oversize" } else { "valid-body" } } else { "invalid-body" }, ct, ri);
                        if let Some(p) = &obs.panicked {
                            report.violation(format!("C06|loopback|panic|{}", class), format!("{} panicked on body {:?}: {}", ep.name, body, p), case);
                            continue;
                        }
                        match (expect_call, &obs.result, obs.calls) {
                            (true, Ok(()), 1) => report.outcome("handler-invoked-once"),
                            (false, Err(e), 0) if reqs::error_code(e) == "INVALID_ARGUMENT" => report.outcome("rejected:INVALID_ARGUMENT:handler-not-invoked"),
                            (true, r, n) => report.violation(format!("C06|loopback|valid-request-not-handled|{}", class), format!("{} ({}): body {:?} with Content-Type {:?} should reach the handler ({}), got {:?} and {} invocations", ep.name, flavour, body, ct, ep.handler, r.as_ref().err().map(|e| e.cause().to_string()), n), case),
                            (false, r, n) => report.violation(
                                format!("C06|loopback|{}|{}", if n > 0 { "handler-invoked-on-bad-body" } else { "wrong-error" }, class),
                                format!("{} ({}): body {:?} (limit {}) with Content-Type {:?} must be rejected with INVALID_ARGUMENT without invoking the handler; got {:?}, {} invocations", ep.name, flavour, body, ep.limit, ct, r.as_ref().err().map(|e| reqs::error_code(e)), n),
                                case,
                            ),
                        }
                    }
                }
            }
        }
    }
    // the unit table of the size-limit tag, read back from the code generated for this build
    let generated = include_str!(concat!(env!("OUT_DIR"), "/conjure/universal_service.rs"));
    let flat: String = generated.split_whitespace().collect::<Vec<_>>().join(" ");
    for (method, tag, want) in [
        ("limit_plain", "77", 77u64),
        ("limit_k", "3k", 3000),
        ("limit_ki", "3 ki", 3072),
        ("limit_mb", "3 mb", 3000000),
        ("limit_m", "5M", 5000000),
        ("limit_mib", "1MiB", 1048576),
        ("limit_mi", "2 mi", 2097152),
        ("limit_g", "1g", 1000000000),
        ("limit_gb", "2 GB", 2000000000),
        ("limit_gib", "2 GiB", 2147483648),
        ("limit_gi", "1gi", 1073741824),
        ("limit_t", "1t", 1000000000000),
        ("limit_tb", "1tb", 1000000000000),
        ("limit_tib", "1 TiB", 1099511627776),
        ("limit_ti", "2ti", 2199023255552),
        ("limit_b", "15b", 15),
    ] {
        report.states += 1;
        report.evaluations += 1;
        report.transitions += 1;
        let needle = format!("fn {}(", method);
        let limits: Vec<String> = flat
            .match_indices(&needle)
            .filter_map(|(i, _)| {
                let tail = &flat[i..(i + 400).min(flat.len())];
                tail.find("StdRequestDeserializer<").map(|j| tail[j + 23..].chars().take_while(|c| *c != '>').collect::<String>())
            })
            .collect();
        // the const argument as a number: a literal (with or without suffix / separators) or a
        // product of literals; anything else is not judged
        let eval = |e: &str| -> Option<u64> {
            let cleaned: String = e.chars().filter(|c| !c.is_whitespace() && *c != '_' && *c != '{' && *c != '}' && *c != '(' && *c != ')').collect();
            cleaned.replace("usize", "").replace("u64", "").split('*').map(|f| f.parse::<u64>().ok()).try_fold(1u64, |acc, f| f.and_then(|f| acc.checked_mul(f)))
        };
        let values: Vec<Option<u64>> = limits.iter().map(|l| eval(l)).collect();
        let want_s = want.to_string();
        if values.len() < 2 || values.iter().any(|v| v.is_none()) {
            report.outcome("size-limit-tag:not-readable-from-the-generated-code (not judged)");
        } else if values.iter().all(|v| *v == Some(want)) {
            report.outcome("size-limit-tag:unit-as-specified");
        } else {
            report.violation(format!("C06|loopback|size-limit-unit|{}", tag.replace(' ', "")), format!("endpoint tagged `server-limit-request-size: {}` is generated with limits {:?}, the tag means {} bytes", tag, limits, want_s), json!({"endpoint": method, "tag": tag}));
        }
    }
    report.sample("limit", json!({"endpoint": "smallBody (server-limit-request-size: 8b)", "body": "\"abcdefg\"", "chunks": "3-byte", "expect": "rejected: 9 bytes"}));
    report.bound("endpoints", json!(["smallBody", "kbBody", "kibBody", "bodyCollections", "bodyOptional", "limitOptional", "limitAliasOpt", "bodyAliasOpt", "bodyUnion"]));
    report.bound("request_chunk_sizes", json!(["whole", 1, 3, 4]));
    report.nontrivial = report.states;
    report.rule = "states = (generated endpoint, body, Content-Type, request chunking): the handler must be invoked exactly once iff the body is one valid document within the endpoint's limit under a registered Content-Type (or the body is optional and no Content-Type is given); otherwise INVALID_ARGUMENT and zero invocations; blocking and async endpoints".into();
    report
}
