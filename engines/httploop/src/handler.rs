//! One handler implementing the generated blocking and async server traits: records every
//! invocation (endpoint name + canonical rendering of each argument) and returns a scripted
//! value.

use crate::gen::*;
use crate::loopback::{Blob, Chunks};
use conjure_error::Error;
use conjure_http::server::RequestContext;
use conjure_object::{Any, BearerToken, DoubleKey, ResourceIdentifier, SafeLong, Uuid};
use futures::StreamExt;
use serde::Serialize;
use std::any::Any as StdAny;
use std::collections::{BTreeMap, BTreeSet};
use std::sync::{Arc, Mutex};

#[derive(Debug, Clone, PartialEq)]
pub struct Call {
    pub endpoint: &'static str,
    pub args: Vec<String>,
}

/// canonical rendering of an argument / return value: its Conjure JSON text
pub fn rec<T: Serialize + ?Sized>(v: &T) -> String {
    conjure_serde::json::to_string(v).unwrap_or_else(|e| format!("<unserializable: {}>", e))
}

pub fn rec_bytes(b: &[u8]) -> String {
    format!("bytes:{:?}", b)
}

#[derive(Default)]
pub struct State {
    pub calls: Vec<Call>,
    /// the value the next handler invocation returns (typed; taken by downcast)
    pub ret: Option<Box<dyn StdAny + Send>>,
    /// if set, handlers fail with this message instead
    pub fail: Option<String>,
}

#[derive(Clone, Default)]
pub struct Handler(pub Arc<Mutex<State>>);

impl Handler {
    pub fn new() -> Handler {
        Handler::default()
    }
    pub fn set_return<T: StdAny + Send>(&self, v: T) {
        self.0.lock().unwrap().ret = Some(Box::new(v));
    }
    pub fn take_calls(&self) -> Vec<Call> {
        std::mem::take(&mut self.0.lock().unwrap().calls)
    }
    fn invoked<T: StdAny + Send + Default>(&self, endpoint: &'static str, args: Vec<String>) -> Result<T, Error> {
        let mut s = self.0.lock().unwrap();
        s.calls.push(Call { endpoint, args });
        if let Some(m) = &s.fail {
            return Err(Error::internal_safe(m.clone()));
        }
        match s.ret.take() {
            Some(b) => match b.downcast::<T>() {
                Ok(v) => Ok(*v),
                Err(_) => Err(Error::internal_safe("HARNESS: scripted return has the wrong type")),
            },
            None => Ok(T::default()),
        }
    }
}

macro_rules! json_endpoints {
    ($(fn $name:ident($($arg:ident : $ty:ty),*) -> $ret:ty;)*) => {
        macro_rules! sync_methods {
            () => {
                $(
                    fn $name(&self $(, $arg: $ty)*) -> Result<$ret, Error> {
                        self.invoked(stringify!($name), vec![$(rec(&$arg)),*])
                    }
                )*
            };
        }
        macro_rules! async_methods {
            () => {
                $(
                    async fn $name(&self $(, $arg: $ty)*) -> Result<$ret, Error> {
                        self.invoked(stringify!($name), vec![$(rec(&$arg)),*])
                    }
                )*
            };
        }
    };
}

/// payload default for scripted returns that were not set
impl Default for Payload {
    fn default() -> Self {
        Payload::builder().name("").count(0).ratio(0.0).build()
    }
}

impl Default for Choice {
    fn default() -> Self {
        Choice::Text(String::new())
    }
}

#[derive(Default)]
pub struct AnyDefault;

json_endpoints! {
    fn path_params(foo_bar: String, type_: StrAlias, rid: ResourceIdentifier) -> Vec<String>;
    fn scalars(b: bool, d: f64, u: Uuid, dt: conjure_object::DateTime<conjure_object::Utc>, sl: SafeLong, e: Color, i: i32, tok: BearerToken) -> ();
    fn query_params(q: String, opt_int: Option<i32>, strs: Vec<String>, str_set: BTreeSet<String>, colors: Vec<Color>, opt_alias: OptStrAlias, list_alias: IntListAlias, flag: bool, opt_double: Option<f64>) -> BTreeMap<String, String>;
    fn list_first(items: Vec<String>, tags: BTreeSet<String>, opt_str: Option<String>, tail: Vec<i32>) -> ();
    fn keywords(type_: i32, match_: Uuid, ref_: i32, loop_: Option<bool>, fn_: i32, self_: Option<f64>) -> i32;
    fn headers(x_str: String, x_opt_int: Option<i32>, x_alias: StrAlias, x_enum: Color, x_opt_alias: OptStrAlias, x_opt_uuid: Option<Uuid>) -> Option<String>;
    fn auth_header_body(auth_: BearerToken, body: Payload) -> Payload;
    fn auth_cookie(auth_: BearerToken) -> BTreeSet<String>;
    fn body_optional(body: Option<Payload>) -> Option<Payload>;
    fn body_alias_opt(body: OptStrAlias) -> OptStrAlias;
    fn limit_optional(body: Option<Payload>) -> Option<Payload>;
    fn limit_alias_opt(body: OptStrAlias) -> OptStrAlias;
    fn body_collections(body: BTreeMap<String, Vec<i32>>) -> BTreeMap<String, Vec<i32>>;
    fn body_union(body: Choice) -> Choice;
    fn body_double_set(body: BTreeSet<DoubleKey>) -> BTreeSet<DoubleKey>;
    fn body_list_alias(body: IntListAlias) -> IntListAlias;
    fn small_body(body: String) -> String;
    fn kb_body(body: String) -> String;
    fn limit_plain(body: String) -> String;
    fn limit_k(body: String) -> String;
    fn limit_ki(body: String) -> String;
    fn limit_mb(body: String) -> String;
    fn limit_m(body: String) -> String;
    fn limit_mib(body: String) -> String;
    fn limit_mi(body: String) -> String;
    fn limit_g(body: String) -> String;
    fn limit_gb(body: String) -> String;
    fn limit_gib(body: String) -> String;
    fn limit_gi(body: String) -> String;
    fn limit_t(body: String) -> String;
    fn limit_tb(body: String) -> String;
    fn limit_tib(body: String) -> String;
    fn limit_ti(body: String) -> String;
    fn limit_b(body: String) -> String;
    fn kib_body(body: String) -> String;
    fn safe_mix(auth_: BearerToken, safe_path: String, unsafe_path: String, safe_query: String, unsafe_query: String, safe_header: String, unsafe_header: String, dnl_query: Option<String>, enum_query: Option<Color>, unsafe_enum_query: Option<Color>) -> ();
    fn tag_mix(plain_path: String, retry_query: String, unsafe_tag_query: String, upper_header: String, marker_alike: String, real_safe: String) -> ();
    fn safe_list(safe_tags: BTreeSet<String>, secret_word: String, safe_ids: Vec<String>) -> ();
    fn enum_list() -> Vec<Color>;
    fn tee_body(id: i32, body: Tee) -> ();
    fn wrapper_body(id: i32, body: Wrapper) -> ();
    fn link_body(id: i32, body: Vec<Link>) -> ();
    fn safe_choice_body(id: i32, body: SafeChoice) -> ();
    fn safe_body(id: i32, body: Payload) -> i32;
    fn same_ids(path_word: String, page_token: String, page_size: Option<i32>, secret_word: String, trace_id: String, unsafe_header: Option<i32>) -> ();
    fn enum_map_body(id: i32, body: BTreeMap<Color, StrAlias>) -> ();
    fn safe_enum_map_body(id: i32, body: BTreeMap<Color, Vec<Color>>) -> ();
    fn out_of_order(third: i32, second: String, q: Option<String>, first: String) -> String;
    fn one_query(page_limit: Option<i32>) -> i32;
    fn one_query_required(the_id: i32) -> i32;
    fn alias_params(dt: DtAlias, dbl: DblAlias, u: UuidAlias, b: BoolAlias, sl: Option<SlAlias>, dts: Vec<DtAliasAlias>, rid: RidAlias, n: Option<IntAlias>) -> String;
    fn noop() -> ();
}

impl Handler {
    fn any_ret(&self, endpoint: &'static str, args: Vec<String>) -> Result<Any, Error> {
        let mut s = self.0.lock().unwrap();
        s.calls.push(Call { endpoint, args });
        match s.ret.take() {
            Some(b) => match b.downcast::<Any>() {
                Ok(v) => Ok(*v),
                Err(_) => Err(Error::internal_safe("HARNESS: scripted return has the wrong type")),
            },
            None => Ok(Any::new(()).unwrap()),
        }
    }
    fn blob_ret(&self, endpoint: &'static str, args: Vec<String>) -> Result<Option<Blob>, Error> {
        let mut s = self.0.lock().unwrap();
        s.calls.push(Call { endpoint, args });
        match s.ret.take() {
            Some(b) => match b.downcast::<Option<Blob>>() {
                Ok(v) => Ok(*v),
                Err(_) => Err(Error::internal_safe("HARNESS: scripted return has the wrong type")),
            },
            None => Ok(Some(Blob(vec![]))),
        }
    }
}

impl UniversalService<Chunks, Vec<u8>> for Handler {
    type BodyBinaryBody = Blob;
    type OptBinaryBody = Blob;
    type BinAliasBody = Blob;

    sync_methods!();

    fn body_any(&self, body: Any) -> Result<Any, Error> {
        self.any_ret("body_any", vec![rec(&body)])
    }
    fn body_binary(&self, body: Chunks) -> Result<Blob, Error> {
        let chunks: Vec<Vec<u8>> = body.0.into_iter().collect();
        Ok(self.blob_ret("body_binary", vec![rec_bytes(&chunks.concat())])?.unwrap_or(Blob(vec![])))
    }
    fn opt_binary(&self, present: bool) -> Result<Option<Blob>, Error> {
        self.blob_ret("opt_binary", vec![rec(&present)])
    }
    fn bin_alias(&self, body: Chunks) -> Result<Blob, Error> {
        let chunks: Vec<Vec<u8>> = body.0.into_iter().collect();
        Ok(self.blob_ret("bin_alias", vec![rec_bytes(&chunks.concat())])?.unwrap_or(Blob(vec![])))
    }
    fn context(&self, arg: Option<String>, request_context_: RequestContext<'_>) -> Result<(), Error> {
        let uri = request_context_.request_uri().to_string();
        self.invoked("context", vec![rec(&arg), uri])
    }
}

impl AsyncUniversalService<Chunks, Vec<u8>> for Handler {
    type BodyBinaryBody = Blob;
    type OptBinaryBody = Blob;
    type BinAliasBody = Blob;

    async_methods!();

    async fn body_any(&self, body: Any) -> Result<Any, Error> {
        self.any_ret("body_any", vec![rec(&body)])
    }
    async fn body_binary(&self, body: Chunks) -> Result<Blob, Error> {
        let chunks: Vec<Vec<u8>> = StreamExt::map(body, |c| c.map(|b| b.to_vec()).unwrap_or_default()).collect().await;
        Ok(self.blob_ret("body_binary", vec![rec_bytes(&chunks.concat())])?.unwrap_or(Blob(vec![])))
    }
    async fn opt_binary(&self, present: bool) -> Result<Option<Blob>, Error> {
        self.blob_ret("opt_binary", vec![rec(&present)])
    }
    async fn bin_alias(&self, body: Chunks) -> Result<Blob, Error> {
        let chunks: Vec<Vec<u8>> = StreamExt::map(body, |c| c.map(|b| b.to_vec()).unwrap_or_default()).collect().await;
        Ok(self.blob_ret("bin_alias", vec![rec_bytes(&chunks.concat())])?.unwrap_or(Blob(vec![])))
    }
    async fn context(&self, arg: Option<String>, request_context_: RequestContext<'_>) -> Result<(), Error> {
        let uri = request_context_.request_uri().to_string();
        self.invoked("context", vec![rec(&arg), uri])
    }
}
