//! C18 (loopback part) — generated client methods over a scripted transport: a value is
//! returned only from a complete, correctly typed response.

use crate::gen::*;
use crate::script::{self, Ev, Script, ScriptIter, ScriptStream};
use conjure_error::Error;
use conjure_http::client::{AsyncClient, AsyncRequestBody, AsyncService as _, Client, RequestBody, Service as _};
use conjure_object::BearerToken;
use futures::executor::block_on;
use http::{HeaderValue, Request, Response, StatusCode};
use serde::Serialize;
use serde_json::json;
use std::sync::Mutex;
use vcommon::{Args, Report};

#[derive(Clone)]
struct Canned {
    status: u16,
    content_type: Option<&'static str>,
    script: Script,
}

struct Scripted(Mutex<Canned>);

fn respond<B>(c: &Canned, body: B) -> Response<B> {
    let mut r = Response::new(body);
    *r.status_mut() = StatusCode::from_u16(c.status).unwrap();
    if let Some(ct) = c.content_type {
        r.headers_mut().insert(http::header::CONTENT_TYPE, HeaderValue::from_static(ct));
    }
    r
}

impl Client for &Scripted {
    type BodyWriter = Vec<u8>;
    type ResponseBody = ScriptIter;
    fn send(&self, _: Request<RequestBody<'_, Vec<u8>>>) -> Result<Response<ScriptIter>, Error> {
        let c = self.0.lock().unwrap().clone();
        Ok(respond(&c, ScriptIter::new(&c.script)))
    }
}

impl AsyncClient for &Scripted {
    type BodyWriter = Vec<u8>;
    type ResponseBody = ScriptStream;
    async fn send(&self, _: Request<AsyncRequestBody<'_, Vec<u8>>>) -> Result<Response<ScriptStream>, Error> {
        let c = self.0.lock().unwrap().clone();
        Ok(respond(&c, ScriptStream::new(&c.script)))
    }
}

fn rec<T: Serialize>(v: &T) -> String {
    conjure_serde::json::to_string(v).unwrap_or_default()
}

struct Class {
    name: &'static str,
    /// canonical rendering of the value a 204 yields (None: the class has no empty value)
    empty: Option<&'static str>,
    /// (body, expected rendering if it is a complete valid document of the return type)
    bodies: Vec<(&'static str, Option<&'static str>)>,
    blocking: fn(&UniversalServiceClient<&Scripted>) -> Result<String, Error>,
    asynch: fn(&UniversalServiceAsyncClient<&Scripted>) -> Result<String, Error>,
}

fn classes() -> Vec<Class> {
    let tok = || BearerToken::new("t").unwrap();
    vec![
        Class {
            name: "list<string> (pathParams)",
            empty: Some("[]"),
            bodies: vec![("[\"a\",\"b\"]", Some("[\"a\",\"b\"]")), ("[]", Some("[]")), ("[\"a\"", None), ("[\"a\"] x", None), ("[1]", None), ("", None), ("[\"a\"][\"b\"]", None)],
            blocking: |c| c.path_params("a", &StrAlias("b".into()), &"ri.a..b.c".parse().unwrap()).map(|v| rec(&v)),
            asynch: |c| block_on(c.path_params("a", &StrAlias("b".into()), &"ri.a..b.c".parse().unwrap())).map(|v| rec(&v)),
        },
        Class {
            name: "optional<string> (headers)",
            empty: Some("null"),
            bodies: vec![("\"x\"", Some("\"x\"")), ("null", Some("null")), ("\"x", None), ("\"x\" \"y\"", None), ("5", None), ("", None)],
            blocking: |c| c.headers("a", None, &StrAlias("b".into()), &Color::Red, &OptStrAlias(None), None).map(|v| rec(&v)),
            asynch: |c| block_on(c.headers("a", None, &StrAlias("b".into()), &Color::Red, &OptStrAlias(None), None)).map(|v| rec(&v)),
        },
        Class {
            name: "value object (authHeaderBody)",
            empty: None,
            bodies: vec![
                ("{\"name\":\"n\",\"count\":1,\"ratio\":0.5}", Some("{\"name\":\"n\",\"count\":1,\"ratio\":0.5}")),
                ("{\"name\":\"n\",\"count\":1,\"ratio\":0.5,\"extraField\":[1,{\"a\":null}]}", Some("{\"name\":\"n\",\"count\":1,\"ratio\":0.5}")),
                ("{\"name\":\"n\",\"count\":1}", None),
                ("{\"name\":\"n\",\"count\":1,\"ratio\":0.5}}", None),
                ("{\"name\":\"n\",\"count\":1,\"ratio\":0.5", None),
                ("", None),
            ],
            blocking: |c| c.auth_header_body(&BearerToken::new("t").unwrap(), &crate::c04::payload0()).map(|v| rec(&v)),
            asynch: |c| block_on(c.auth_header_body(&BearerToken::new("t").unwrap(), &crate::c04::payload0())).map(|v| rec(&v)),
        },
        Class {
            name: "set<string> (authCookie)",
            empty: Some("[]"),
            bodies: vec![("[\"b\",\"a\"]", Some("[\"a\",\"b\"]")), ("[]", Some("[]")), ("{}", None), ("[\"a\",]", None)],
            blocking: move |c| c.auth_cookie(&BearerToken::new("t").unwrap()).map(|v| rec(&v)),
            asynch: move |c| block_on(c.auth_cookie(&BearerToken::new("t").unwrap())).map(|v| rec(&v)),
        },
        Class {
            name: "map<string,string> (queryParams)",
            empty: Some("{}"),
            bodies: vec![("{\"k\":\"v\"}", Some("{\"k\":\"v\"}")), ("{}", Some("{}")), ("{\"k\":1}", None), ("{\"k\":\"v\"} {}", None), ("{\"k\":\"v\"", None)],
            blocking: |c| c.query_params("q", None, &[], &Default::default(), &[], &OptStrAlias(None), &IntListAlias(vec![]), false, None).map(|v| rec(&v)),
            asynch: |c| block_on(c.query_params("q", None, &[], &Default::default(), &[], &OptStrAlias(None), &IntListAlias(vec![]), false, None)).map(|v| rec(&v)),
        },
        Class {
            name: "alias of optional (bodyAliasOpt)",
            empty: Some("null"),
            bodies: vec![("\"s\"", Some("\"s\"")), ("null", Some("null")), ("\"s\"x", None), ("[]", None)],
            blocking: |c| c.body_alias_opt(&OptStrAlias(None)).map(|v| rec(&v)),
            asynch: |c| block_on(c.body_alias_opt(&OptStrAlias(None))).map(|v| rec(&v)),
        },
        Class {
            name: "alias of list (bodyListAlias)",
            empty: Some("[]"),
            bodies: vec![("[1,2]", Some("[1,2]")), ("[1,2", None), ("[1.5]", None)],
            blocking: |c| c.body_list_alias(&IntListAlias(vec![])).map(|v| rec(&v)),
            asynch: |c| block_on(c.body_list_alias(&IntListAlias(vec![]))).map(|v| rec(&v)),
        },
        Class {
            name: "unit (noop)",
            empty: Some("null"),
            bodies: vec![("null", Some("null")), ("{\"any\":[\"well-formed\",1]}", Some("null")), ("{\"broken\":", None), ("1 2", None), ("", None)],
            blocking: |c| c.noop().map(|v| rec(&v)),
            asynch: |c| block_on(c.noop()).map(|v| rec(&v)),
        },
        // enum names are [A-Z0-9_]+ : a name outside that set is not a value of any enum, listed or not
        Class {
            name: "list<enum> (enumList)",
            empty: Some("[]"),
            bodies: vec![
                ("[\"RED\",\"GREEN\"]", Some("[\"RED\",\"GREEN\"]")),
                ("[\"PURPLE_9\"]", Some("[\"PURPLE_9\"]")),
                ("[\"\u{c9}T\u{c9}\"]", None),
                ("[\"RED\",\"\u{3a9}\"]", None),
                ("[\"ONE_\u{c4}\"]", None),
                ("[\"red\"]", None),
                ("[\"RED \"]", None),
                ("[\"\"]", None),
                ("[\"R-D\"]", None),
                ("\"RED\"", None),
                ("[\"RED\"", None),
            ],
            blocking: |c| c.enum_list().map(|v| rec(&v)),
            asynch: |c| block_on(c.enum_list()).map(|v| rec(&v)),
        },
        Class {
            name: "union (bodyUnion)",
            empty: None,
            bodies: vec![
                ("{\"type\":\"text\",\"text\":\"t\"}", Some("{\"type\":\"text\",\"text\":\"t\"}")),
                ("{\"text\":\"t\",\"type\":\"text\"}", Some("{\"type\":\"text\",\"text\":\"t\"}")),
                ("{\"type\":\"zz\",\"zz\":[1]}", Some("{\"type\":\"zz\",\"zz\":[1]}")),
                ("{\"zz\":[1],\"type\":\"zz\"}", Some("{\"type\":\"zz\",\"zz\":[1]}")),
                // the member named by `type` and the member present must be the same one
                ("{\"square\":2,\"type\":\"hexagon\"}", None),
                ("{\"type\":\"hexagon\",\"square\":2}", None),
                ("{\"text\":\"t\",\"type\":\"numbers\"}", None),
                ("{\"text\":\"t\",\"type\":\"zz\"}", None),
                ("{\"zz\":1,\"type\":\"text\"}", None),
                ("{\"type\":\"text\"}", None),
                ("{\"text\":\"t\"}", None),
                ("{\"type\":\"text\",\"text\":5}", None),
                ("null", None),
            ],
            blocking: |c| c.body_union(&Choice::Text("x".into())).map(|v| rec(&v)),
            asynch: |c| block_on(c.body_union(&Choice::Text("x".into()))).map(|v| rec(&v)),
        },
        Class {
            name: "integer (safeBody)",
            empty: None,
            bodies: vec![("7", Some("7")), (" 7 ", Some("7")), ("7 8", None), ("7.5", None), ("\"7\"", None), ("2147483648", None)],
            blocking: |c| c.safe_body(1, &crate::c04::payload0()).map(|v| rec(&v)),
            asynch: |c| block_on(c.safe_body(1, &crate::c04::payload0())).map(|v| rec(&v)),
        },
    ]
    .into_iter()
    .map(|c| {
        let _ = &tok;
        c
    })
    .collect()
}

pub fn run(args: &Args) -> Report {
    let mut report = Report::new("C18", "fault_enumeration");
    let k = args.tier.pick(2usize, 5usize);
    let cts: Vec<(Option<&'static str>, &'static str)> = vec![(Some("application/json"), "exact"), (None, "other"), (Some("application/octet-stream"), "other"), (Some("application/x-jackson-smile"), "other"), (Some("text/plain"), "other"), (Some("application/json; charset=utf-8"), "unclear"), (Some("application/json+xml"), "other")];
    for class in classes() {
        for (body, value) in &class.bodies {
            let mut scripts: Vec<Script> = script::explore(body.as_bytes(), k, true, body.len() <= 10).into_iter().map(|x| x.0).collect();
            scripts.push(body.as_bytes().chunks(1).map(|c| Ev::Chunk(c.to_vec())).collect());
            for (si, s) in scripts.iter().enumerate() {
                for status in [200u16, 204, 201] {
                    for (ct, ct_class) in &cts {
                        // the full Content-Type x status product only for the first few scripts
                        if si > 2 && !(ct == &Some("application/json") && status == 200) {
                            continue;
                        }
                        report.states += 1;
                        let canned = Canned { status, content_type: *ct, script: s.clone() };
                        let transport = Scripted(Mutex::new(canned));
                        let complete = !script::has_err(s);
                        let mut allowed: Vec<&str> = vec![];
                        if status == 204 {
                            if let Some(e) = class.empty {
                                allowed.push(e);
                            }
                        }
                        let mut may_error = false;
                        if let (Some(v), true) = (value, complete) {
                            match *ct_class {
                                "exact" => allowed.push(v),
                                "unclear" => {
                                    allowed.push(v);
                                    may_error = true;
                                }
                                _ => {}
                            }
                        }
                        let results = [
                            ("blocking", if s.contains(&Ev::Pending) { None } else { Some(vcommon::catch(|| (class.blocking)(&UniversalServiceClient::new(&transport)))) }),
                            ("async", Some(vcommon::catch(|| (class.asynch)(&UniversalServiceAsyncClient::new(&transport))))),
                        ];
                        for (flavour, got) in results {
                            let got = match got {
                                Some(g) => g,
                                None => continue,
                            };
                            report.evaluations += 1;
                            report.transitions += 1;
                            let case = json!({"class": class.name, "status": status, "content_type": ct, "body": body, "script": script::text(s), "flavour": flavour});
                            let input = format!("status={},ct={:?},{}", status, ct, if complete { "complete" } else { "stream-error" });
                            let sig = |kk: &str| format!("C18|loopback|{}|{}|{}|{}", class.name, flavour, kk, input);
                            match got {
                                Err(p) => report.violation(sig("panic"), format!("{} ({}) panicked on {}: {}", class.name, flavour, script::text(s), p), case),
                                Ok(Ok(v)) => {
                                    if allowed.contains(&v.as_str()) {
                                        report.outcome("value-returned");
                                    } else {
                                        report.violation(sig("value-from-bad-response"), format!("{} ({}): status {} Content-Type {:?} body {} returned {}; permitted values: {:?}", class.name, flavour, status, ct, script::text(s), v, allowed), case);
                                    }
                                }
                                Ok(Err(e)) => {
                                    if allowed.is_empty() || may_error {
                                        report.outcome("error-returned");
                                    } else {
                                        report.violation(sig("valid-response-rejected"), format!("{} ({}): status {} Content-Type {:?} body {} failed with {:?}; expected {:?}", class.name, flavour, status, ct, script::text(s), e.cause().to_string(), allowed), case);
                                    }
                                }
                            }
                        }
                    }
                }
            }
        }
    }
    report.sample("generated-client", json!({"class": "list<string> (pathParams)", "status": 200, "content_type": "application/json", "script": "chunk(\"[\\\"a\\\"\") ERR", "expect": "error"}));
    report.bound("deviations", k);
    report.nontrivial = report.states;
    report.rule = "states = (generated client method, status, Content-Type, body, response-stream history): 9 return classes of the universal service through the generated blocking and async clients over a scripted transport; a value may only come from a 204 (empty value) or a complete document of the return type under the requested Content-Type".into();
    report
}
