//! Loopback transport: implements `conjure_http::client::{Client, AsyncClient}` by routing
//! the request to the matching `Endpoint` / `AsyncEndpoint` of a service. The router is
//! mine (routing is outside the repository): it splits the URI path on '/', matches literal
//! segments, and binds `{param}` to the *raw* segment text in `PathParams`, exactly as the
//! `PathParams` contract documents.

use bytes::Bytes;
use conjure_error::Error;
use conjure_http::client::{AsyncClient, AsyncRequestBody, AsyncWriteBody as ClientAsyncWriteBody, Client, RequestBody};
use conjure_http::server::{AsyncEndpoint, AsyncResponseBody, AsyncWriteBody, BoxAsyncEndpoint, Endpoint, EndpointMetadata, PathSegment, ResponseBody};
use conjure_http::{PathParams, SafeParams};
use futures::Stream;
use http::{Extensions, HeaderMap, Method, Request, Response, StatusCode};
use std::collections::VecDeque;
use std::pin::Pin;
use std::sync::Mutex;
use std::task::{Context, Poll};

/// request / response body: a fixed list of chunks
#[derive(Debug, Default)]
pub struct Chunks(pub VecDeque<Vec<u8>>);

/// flag on a chunk size: an empty chunk follows every chunk (transports may deliver those)
pub const WITH_EMPTY_CHUNKS: usize = 1 << 24;

impl Chunks {
    pub fn of(bytes: Vec<u8>, chunk: usize) -> Chunks {
        if bytes.is_empty() {
            return Chunks(VecDeque::new());
        }
        let empties = chunk & WITH_EMPTY_CHUNKS != 0;
        let chunk = chunk & !WITH_EMPTY_CHUNKS;
        if chunk == 0 && !empties {
            return Chunks(VecDeque::from(vec![bytes]));
        }
        let size = if chunk == 0 { bytes.len() } else { chunk };
        let mut out = VecDeque::new();
        for c in bytes.chunks(size) {
            out.push_back(c.to_vec());
            if empties {
                out.push_back(vec![]);
            }
        }
        Chunks(out)
    }
    pub fn concat(self) -> Vec<u8> {
        self.0.into_iter().flatten().collect()
    }
}

impl Iterator for Chunks {
    type Item = Result<Bytes, Error>;
    fn next(&mut self) -> Option<Self::Item> {
        self.0.pop_front().map(|c| Ok(Bytes::from(c)))
    }
}

impl Stream for Chunks {
    type Item = Result<Bytes, Error>;
    fn poll_next(mut self: Pin<&mut Self>, _: &mut Context<'_>) -> Poll<Option<Self::Item>> {
        Poll::Ready(self.0.pop_front().map(|c| Ok(Bytes::from(c))))
    }
}

/// What the server side did with the last request.
#[derive(Default)]
pub struct Exchange {
    pub method: Option<Method>,
    pub uri: String,
    pub request_headers: HeaderMap,
    pub request_body: Vec<u8>,
    pub routed_to: Option<String>,
    pub status: Option<StatusCode>,
    pub response_headers: HeaderMap,
    pub response_body: Vec<u8>,
    pub safe_params: Option<SafeParams>,
    /// the endpoint's error, rendered (the Error itself is handed to the client call)
    pub server_error: Option<String>,
}

fn route<'a, E: EndpointMetadata + ?Sized>(endpoints: &'a [Box<E>], method: &Method, path: &str) -> Option<(&'a E, PathParams)> {
    let segs: Vec<&str> = path.strip_prefix('/')?.split('/').collect();
    'outer: for e in endpoints {
        if e.method() != *method {
            continue;
        }
        let tpl = e.path();
        if tpl.len() != segs.len() {
            continue;
        }
        let mut params = PathParams::new();
        for (t, s) in tpl.iter().zip(&segs) {
            match t {
                PathSegment::Literal(l) => {
                    if l != s {
                        continue 'outer;
                    }
                }
                PathSegment::Parameter { name, .. } => {
                    // a router that fills the map in two passes (a mount point, then the inner
                    // template): `insert` on a present key replaces, as for any map
                    params.insert(name.to_string(), "%FFplaceholder-of-the-outer-router".to_string());
                    params.insert(name.to_string(), s.to_string())
                }
            }
        }
        return Some((&**e, params));
    }
    None
}

pub struct Options {
    /// split request bodies into chunks of this size on their way to the endpoint (0 = one chunk)
    pub request_chunk: usize,
    /// split response bodies likewise on their way back to the client
    pub response_chunk: usize,
}

impl Default for Options {
    fn default() -> Self {
        Options { request_chunk: 0, response_chunk: 0 }
    }
}

pub struct BlockingLoop {
    pub endpoints: Vec<Box<dyn Endpoint<Chunks, Vec<u8>> + Sync + Send>>,
    pub last: Mutex<Exchange>,
    pub options: Options,
}

fn not_routed(method: &Method, uri: &http::Uri) -> Error {
    Error::internal_safe(format!("LOOPBACK: no endpoint matches {} {}", method, uri))
}

impl BlockingLoop {
    pub fn new(endpoints: Vec<Box<dyn Endpoint<Chunks, Vec<u8>> + Sync + Send>>) -> Self {
        BlockingLoop { endpoints, last: Mutex::new(Exchange::default()), options: Options::default() }
    }

    /// Runs one request (already reduced to bytes) against the routed endpoint.
    pub fn dispatch(&self, method: Method, uri: http::Uri, headers: HeaderMap, body: Vec<u8>) -> Result<Response<Chunks>, Error> {
        let mut ex = Exchange { method: Some(method.clone()), uri: uri.to_string(), request_headers: headers.clone(), request_body: body.clone(), ..Default::default() };
        let out: Result<Response<Chunks>, Error> = (|| {
            let (endpoint, params) = route(&self.endpoints, &method, uri.path()).ok_or_else(|| not_routed(&method, &uri))?;
            ex.routed_to = Some(endpoint.name().to_string());
            let mut req = Request::new(Chunks::of(body, self.options.request_chunk));
            *req.method_mut() = method.clone();
            *req.uri_mut() = uri.clone();
            *req.headers_mut() = headers;
            req.extensions_mut().insert(params);
            let mut ext = Extensions::new();
            let result = endpoint.handle(req, &mut ext);
            ex.safe_params = ext.remove::<SafeParams>();
            let response = result?;
            let (parts, body) = response.into_parts();
            let bytes = match body {
                ResponseBody::Empty => vec![],
                ResponseBody::Fixed(b) => b.to_vec(),
                ResponseBody::Streaming(w) => {
                    let mut out = vec![];
                    w.write_body(&mut out)?;
                    out
                }
            };
            ex.status = Some(parts.status);
            ex.response_headers = parts.headers.clone();
            ex.response_body = bytes.clone();
            let mut resp = Response::new(Chunks::of(bytes, self.options.response_chunk));
            *resp.status_mut() = parts.status;
            *resp.headers_mut() = parts.headers;
            Ok(resp)
        })();
        if let Err(e) = &out {
            ex.server_error = Some(format!("{:?}", e.cause().to_string()));
        }
        *self.last.lock().unwrap() = ex;
        out
    }
}

impl Client for BlockingLoop {
    type BodyWriter = Vec<u8>;
    type ResponseBody = Chunks;

    fn send(&self, req: Request<RequestBody<'_, Vec<u8>>>) -> Result<Response<Chunks>, Error> {
        let (parts, body) = req.into_parts();
        let bytes = match body {
            RequestBody::Empty => vec![],
            RequestBody::Fixed(b) => b.to_vec(),
            RequestBody::Streaming(mut w) => {
                // a retrying transport: the first complete attempt is lost, the body is reset
                // and written again (WriteBody::reset: "so that it can be written out again")
                let mut first = vec![];
                w.write_body(&mut first)?;
                if w.reset() {
                    let mut out = vec![];
                    w.write_body(&mut out)?;
                    out
                } else {
                    first
                }
            }
        };
        self.dispatch(parts.method, parts.uri, parts.headers, bytes)
    }
}

impl Client for &BlockingLoop {
    type BodyWriter = Vec<u8>;
    type ResponseBody = Chunks;
    fn send(&self, req: Request<RequestBody<'_, Vec<u8>>>) -> Result<Response<Chunks>, Error> {
        (**self).send(req)
    }
}

pub struct AsyncLoop {
    pub endpoints: Vec<Box<BoxAsyncEndpoint<'static, Chunks, Vec<u8>>>>,
    pub last: Mutex<Exchange>,
    pub options: Options,
}

impl AsyncLoop {
    pub fn new(endpoints: Vec<BoxAsyncEndpoint<'static, Chunks, Vec<u8>>>) -> Self {
        AsyncLoop { endpoints: endpoints.into_iter().map(Box::new).collect(), last: Mutex::new(Exchange::default()), options: Options::default() }
    }

    pub async fn dispatch(&self, method: Method, uri: http::Uri, headers: HeaderMap, body: Vec<u8>) -> Result<Response<Chunks>, Error> {
        let mut ex = Exchange { method: Some(method.clone()), uri: uri.to_string(), request_headers: headers.clone(), request_body: body.clone(), ..Default::default() };
        let out: Result<Response<Chunks>, Error> = async {
            let (endpoint, params) = route(&self.endpoints, &method, uri.path()).ok_or_else(|| not_routed(&method, &uri))?;
            ex.routed_to = Some(endpoint.name().to_string());
            let mut req = Request::new(Chunks::of(body, self.options.request_chunk));
            *req.method_mut() = method.clone();
            *req.uri_mut() = uri.clone();
            *req.headers_mut() = headers;
            req.extensions_mut().insert(params);
            let mut ext = Extensions::new();
            let result = endpoint.handle(req, &mut ext).await;
            ex.safe_params = ext.remove::<SafeParams>();
            let response = result?;
            let (parts, body) = response.into_parts();
            let bytes = match body {
                AsyncResponseBody::Empty => vec![],
                AsyncResponseBody::Fixed(b) => b.to_vec(),
                AsyncResponseBody::Streaming(w) => {
                    let mut out = vec![];
                    w.write_body(Pin::new(&mut out)).await?;
                    out
                }
            };
            ex.status = Some(parts.status);
            ex.response_headers = parts.headers.clone();
            ex.response_body = bytes.clone();
            let mut resp = Response::new(Chunks::of(bytes, self.options.response_chunk));
            *resp.status_mut() = parts.status;
            *resp.headers_mut() = parts.headers;
            Ok(resp)
        }
        .await;
        if let Err(e) = &out {
            let e: &Error = e;
            ex.server_error = Some(format!("{:?}", e.cause().to_string()));
        }
        *self.last.lock().unwrap() = ex;
        out
    }
}

impl AsyncClient for &AsyncLoop {
    type BodyWriter = Vec<u8>;
    type ResponseBody = Chunks;

    async fn send(&self, req: Request<AsyncRequestBody<'_, Vec<u8>>>) -> Result<Response<Chunks>, Error> {
        let (parts, body) = req.into_parts();
        let bytes = match body {
            AsyncRequestBody::Empty => vec![],
            AsyncRequestBody::Fixed(b) => b.to_vec(),
            AsyncRequestBody::Streaming(mut w) => {
                let mut first = vec![];
                Pin::new(&mut w).write_body(Pin::new(&mut first)).await?;
                if Pin::new(&mut w).reset().await {
                    let mut out = vec![];
                    Pin::new(&mut w).write_body(Pin::new(&mut out)).await?;
                    out
                } else {
                    first
                }
            }
        };
        self.dispatch(parts.method, parts.uri, parts.headers, bytes).await
    }
}

/// a streaming body for both directions and both flavours
#[derive(Clone, Debug, PartialEq)]
pub struct Blob(pub Vec<Vec<u8>>);

impl<W: std::io::Write> conjure_http::server::WriteBody<W> for Blob {
    fn write_body(self: Box<Self>, w: &mut W) -> Result<(), Error> {
        for c in &self.0 {
            w.write_all(c).map_err(Error::internal_safe)?;
        }
        Ok(())
    }
}

impl AsyncWriteBody<Vec<u8>> for Blob {
    async fn write_body(self, mut w: Pin<&mut Vec<u8>>) -> Result<(), Error> {
        for c in &self.0 {
            w.extend_from_slice(c);
        }
        Ok(())
    }
}

impl conjure_http::client::WriteBody<Vec<u8>> for Blob {
    fn write_body(&mut self, w: &mut Vec<u8>) -> Result<(), Error> {
        for c in &self.0 {
            w.extend_from_slice(c);
        }
        Ok(())
    }
    fn reset(&mut self) -> bool {
        true
    }
}

impl ClientAsyncWriteBody<Vec<u8>> for Blob {
    async fn write_body(self: Pin<&mut Self>, mut w: Pin<&mut Vec<u8>>) -> Result<(), Error> {
        for c in &self.0 {
            w.extend_from_slice(c);
        }
        Ok(())
    }
    async fn reset(self: Pin<&mut Self>) -> bool {
        true
    }
}
