//! C09 — data of arguments not declared safe never reaches a safe-to-log channel.
//!
//! Every supplied datum (valid or not) embeds a position-specific taint token. After each
//! request the three safe channels are scanned: the SafeParams response extension, the
//! returned error's safe params, and the cause's message when the cause is flagged safe.

use crate::c04::Rig;
use crate::handler::rec;
use crate::loopback::Options;
use crate::macros::{self, MacroRig, RawReq};
use crate::reqs::{self, corrupts, EndpointD, Kind, St};
use conjure_object::BearerToken;
use http::Method;
use serde_json::json;
use vcommon::{cmodel, Args, Report};

fn forms(taint: &str) -> Vec<String> {
    vec![taint.to_string(), cmodel::base64(taint.as_bytes()), taint.to_lowercase()]
}

struct Leak {
    channel: &'static str,
    arg: String,
    text: String,
}

/// scans one rendered text for the taints of the given (non-safe) arguments
fn scan(channel: &'static str, text: &str, unsafe_taints: &[(String, String)], out: &mut Vec<Leak>) {
    for (arg, taint) in unsafe_taints {
        if forms(taint).iter().any(|f| text.contains(f.as_str())) {
            out.push(Leak { channel, arg: arg.clone(), text: text.chars().take(300).collect() });
        }
    }
}

/// everything a log line built from the safe channels could contain
fn snapshot(obs: &reqs::Observed) -> String {
    let mut out = String::new();
    if let Some(sp) = &obs.safe_params {
        let mut v: Vec<String> = sp.iter().map(|(k, v)| format!("{}={}", k, rec(v))).collect();
        v.sort();
        out.push_str(&format!("SafeParams[{}]", v.join(",")));
    }
    match &obs.result {
        Ok(()) => out.push_str(" ok"),
        Err(e) => {
            let mut v: Vec<String> = e.safe_params().iter().map(|(k, v)| format!("{}={}", k, rec(v))).collect();
            v.sort();
            out.push_str(&format!(" err code={} safe_params[{}] cause_safe={}", reqs::error_code(e), v.join(","), e.cause_safe()));
            if e.cause_safe() {
                out.push_str(&format!(" cause={}", e.cause()));
            }
        }
    }
    out
}

/// another undecodable text of the same kind
fn vary(bad: &str, variant: usize) -> String {
    match variant {
        1 => bad.replace('Q', "Y").replace('Z', "K").replace('X', "V"),
        // a different offending character in a different place
        3 => format!("!{}", bad),
        4 => bad.chars().rev().collect(),
        _ => {
            let mut cut = bad.len() / 2;
            while !bad.is_char_boundary(cut) {
                cut -= 1;
            }
            format!("{}@", &bad[..cut])
        }
    }
}

fn check(r: &mut Report, rig: &Rig, e: &EndpointD, states: &[St]) {
    r.states += 1;
    let built = reqs::build(e, states);
    // taints of everything that must stay out of safe channels: non-safe args and auth
    let unsafe_taints: Vec<(String, String)> = e.args.iter().filter(|a| !a.safe).map(|a| (a.declared.to_string(), a.taint.clone())).collect();
    let safe_names: Vec<&str> = e.args.iter().filter(|a| a.safe).map(|a| a.declared).collect();
    let all_valid = e.args.iter().zip(states).all(|(a, s)| !corrupts(a, *s));
    let class = e.args.iter().zip(states).filter(|(_, s)| **s != St::Valid).map(|(a, s)| format!("{}:{:?}", a.declared, s)).collect::<Vec<_>>().join("+");
    for asynch in [false, true] {
        r.evaluations += 1;
        r.transitions += 1;
        let flavour = if asynch { "async" } else { "blocking" };
        let obs = reqs::send(rig, &built, asynch);
        let case = json!({"endpoint": e.name, "states": states.iter().map(|s| format!("{:?}", s)).collect::<Vec<_>>(), "flavour": flavour, "uri": built.uri.to_string()});
        if let Some(p) = &obs.panicked {
            r.violation(format!("C09|{}|{}|panic|{}", e.name, flavour, class), format!("{} {} panicked: {}", e.name, built.uri, p), case);
            continue;
        }
        let mut leaks = vec![];
        // (a) SafeParams response extension
        if let Some(sp) = &obs.safe_params {
            for (name, value) in sp.iter() {
                if !safe_names.contains(&name) {
                    leaks.push(Leak { channel: "SafeParams-has-undeclared-key", arg: name.to_string(), text: rec(value) });
                }
                scan("SafeParams", &format!("{} = {} / {:?}", name, rec(value), value), &unsafe_taints, &mut leaks);
            }
        }
        // (b) (c) the returned error
        if let Err(err) = &obs.result {
            for (name, value) in err.safe_params().iter() {
                scan("Error::safe_params", &format!("{} = {} / {:?}", name, rec(value), value), &unsafe_taints, &mut leaks);
            }
            if err.cause_safe() {
                scan("safe-cause-message", &format!("{} / {:?}", err.cause(), err.cause()), &unsafe_taints, &mut leaks);
            }
        }
        // non-interference: with only the text of undecodable non-safe arguments varied, nothing
        // observable on a safe channel may change (a safe-flagged cause must be a constant message)
        let varied: Vec<&str> = e.args.iter().zip(states).filter(|(a, s)| !a.safe && **s == St::Unparsable && !a.bad.is_empty()).map(|(a, _)| a.declared).collect();
        if !varied.is_empty() {
            let base = snapshot(&obs);
            for variant in 1..=4usize {
                let mut e2 = e.clone();
                for (a, s) in e2.args.iter_mut().zip(states) {
                    if !a.safe && *s == St::Unparsable {
                        a.bad = vary(&a.bad, variant);
                    }
                }
                let built2 = reqs::build(&e2, states);
                let obs2 = reqs::send(rig, &built2, asynch);
                r.evaluations += 1;
                let snap2 = snapshot(&obs2);
                if snap2 != base {
                    leaks.push(Leak { channel: "safe-channels-vary-with-non-safe-data", arg: varied.join("+"), text: format!("request {} gives {} but request {} gives {}", built.uri, base, built2.uri, snap2).chars().take(500).collect() });
                    break;
                } else {
                    r.outcome("safe-channels-independent-of-non-safe-text");
                }
            }
        }
        if leaks.is_empty() {
            r.outcome(if obs.result.is_ok() { "handled:no-leak" } else { "rejected:no-leak" });
        }
        for l in leaks {
            r.violation(
                format!("C09|{}|{}|{}|data-of-{}|{}", e.name, flavour, l.channel, l.arg, class),
                format!("{} {}: data of non-safe argument `{}` reached {}: {}", e.name, built.uri, l.arg, l.channel, l.text),
                case.clone(),
            );
        }
        // "once decoded, whether decoding succeeds or fails": arguments are decoded in
        // declaration order after auth, so the safe ones ahead of the first undecodable
        // argument are already recorded when the request is rejected
        let auth_bad = e.args.iter().zip(states).any(|(a, s)| matches!(a.kind, Kind::AuthHeader | Kind::AuthCookie(_)) && corrupts(a, *s));
        if !all_valid && !auth_bad && obs.result.is_err() {
            let first_bad = e.args.iter().zip(states).position(|(a, s)| corrupts(a, *s)).unwrap_or(e.args.len());
            for (a, s) in e.args.iter().zip(states).take(first_bad) {
                if !a.safe || *s != St::Valid || matches!(a.kind, Kind::Body) {
                    continue;
                }
                let found = obs.safe_params.as_ref().and_then(|sp| sp.iter().find(|(k, _)| *k == a.declared).map(|(_, v)| rec(v)));
                match found {
                    Some(v) if a.taint.is_empty() || !a.valid.contains(&a.taint) || v.contains(&a.taint) => r.outcome("safe-arg-recorded-before-the-failure"),
                    other => r.violation(
                        format!("C09|{}|{}|decoded-safe-arg-missing-after-failure|{}", e.name, flavour, a.declared),
                        format!("{} {}: safe argument {} was decoded before {} failed, but SafeParams holds {:?} for it", e.name, built.uri, a.declared, e.args[first_bad.min(e.args.len() - 1)].declared, other),
                        case.clone(),
                    ),
                }
            }
        }
        // safe arguments appear under their declared names once everything decoded
        if all_valid && obs.result.is_ok() && !safe_names.is_empty() {
            match &obs.safe_params {
                None => r.violation(format!("C09|{}|{}|safe-params-missing", e.name, flavour), format!("{} {}: no SafeParams extension although {:?} are declared safe", e.name, built.uri, safe_names), case.clone()),
                Some(sp) => {
                    for a in e.args.iter().zip(states).filter(|(a, _)| a.safe) {
                        let (a, s) = a;
                        let found = sp.iter().find(|(k, _)| *k == a.declared);
                        match found {
                            None => r.violation(format!("C09|{}|{}|safe-arg-not-recorded|{}", e.name, flavour, a.declared), format!("{} {}: safe argument {} is not in SafeParams", e.name, built.uri, a.declared), case.clone()),
                            Some((_, v)) => {
                                if *s == St::Valid && !a.taint.is_empty() && a.valid.contains(&a.taint) && !rec(v).contains(&a.taint) {
                                    r.violation(format!("C09|{}|{}|safe-arg-value-wrong|{}", e.name, flavour, a.declared), format!("{} {}: SafeParams[{}] = {} does not carry the supplied value {}", e.name, built.uri, a.declared, rec(v), a.valid), case.clone());
                                } else {
                                    r.outcome("safe-arg-recorded");
                                }
                            }
                        }
                    }
                }
            }
        }
    }
}

fn macro_part(r: &mut Report) {
    let rig = MacroRig::new();
    let tok_taint = "QZTTOKXJW";
    let u_taint = "QZTUUUXJW";
    let secret_taint = "QZTSECXJW";
    let auth = |v: String| ("authorization", v.into_bytes());
    let ct = || ("content-type", b"application/json".to_vec());
    let mut reqs_: Vec<(&'static str, RawReq, Vec<&'static str>)> = vec![];
    // (name, request, taints that must not appear in safe channels)
    let bodies = ["7", "x7", "\"QZTBODXJW\"", ""];
    let auths = [format!("Bearer {}", tok_taint), format!("Basic {}", tok_taint), format!("Bearer {} {}", tok_taint, tok_taint), tok_taint.to_string(), format!("Bearer{}", tok_taint), "Bearer ".to_string()];
    for b in bodies {
        for a in &auths {
            for q in ["/m/body?s=SAFEVAL&u=QZTUUUXJW", "/m/body?s=SAFEVAL", "/m/body?u=QZTUUUXJW&u=QZTUUUXJW&s=SAFEVAL", "/m/body?s=SAFEVAL&s=SAFEVAL&u=QZTUUUXJW"] {
                reqs_.push(("post_body", RawReq { method: Method::POST, uri: q, headers: vec![auth(a.clone()), ct()], body: b.as_bytes().to_vec() }, vec![tok_taint, u_taint]));
            }
        }
    }
    for cookie in [format!("SID={}", tok_taint), format!("OTHER={}", tok_taint), tok_taint.to_string(), format!("SID={} x", tok_taint)] {
        for b in [format!("\"{}\"", secret_taint), format!("{{\"{}\":1}}", secret_taint), format!("\"{}", secret_taint)] {
            reqs_.push(("cookie", RawReq { method: Method::POST, uri: "/m/cookie", headers: vec![("cookie", cookie.clone().into_bytes()), ct()], body: b.into_bytes() }, vec![tok_taint, secret_taint]));
        }
    }
    for hdrs in [vec![("x-foo", b"5".to_vec()), ("x-plain", b"6".to_vec())], vec![("x-foo", b"12QZTFOOXJW".to_vec()), ("x-plain", b"6".to_vec())], vec![("x-foo", b"5".to_vec()), ("x-plain", b"QZTPLNXJW".to_vec())], vec![("x-foo", b"QZTFOOXJW\xff".to_vec()), ("x-plain", b"6".to_vec())]] {
        for uri in ["/m/items/1/2?q-key=3", "/m/items/1/9QZTCNTXJW", "/m/items/1/2?q-key=QZTQKYXJW", "/m/items/1/2?n=1&n=QZTNNNXJW"] {
            reqs_.push(("get_item", RawReq { method: Method::GET, uri, headers: hdrs.clone(), body: vec![] }, vec!["QZTFOOXJW", "QZTPLNXJW", "QZTCNTXJW", "QZTQKYXJW", "QZTNNNXJW"]));
        }
    }
    // media types that are request data: the endpoint declares both negotiation headers as
    // non-safe arguments, and the body is not safe either
    let medias: Vec<String> = ["application/json", "application/vnd.QZTMEDXJW+xml", "application/QZTMEDXJW", "QZTMEDXJW/json", "application/json; charset=QZTMEDXJW", "QZTMEDXJW", "text/plain; q=QZTMEDXJW"].iter().map(|s| s.to_string()).collect();
    let accepts: Vec<String> = ["application/json", "*/*", "application/vnd.QZTACCXJW+xml", "application/QZTACCXJW, text/QZTACCXJW;q=0.5", "QZTACCXJW", "application/json;q=0.0, QZTACCXJW/*"].iter().map(|s| s.to_string()).collect();
    for m in &medias {
        for a in &accepts {
            for b in ["\"QZTSECXJW\"", "{\"QZTSECXJW\":1}"] {
                reqs_.push(("typed", RawReq { method: Method::POST, uri: "/m/typed", headers: vec![("content-type", m.clone().into_bytes()), ("accept", a.clone().into_bytes())], body: b.as_bytes().to_vec() }, vec!["QZTMEDXJW", "QZTACCXJW", secret_taint]));
            }
        }
    }
    for (name, req, taints) in &reqs_ {
        r.states += 1;
        for asynch in [false, true] {
            r.evaluations += 1;
            r.transitions += 1;
            let flavour = if asynch { "async" } else { "blocking" };
            let case = json!({"macro_endpoint": name, "uri": req.uri, "flavour": flavour, "headers": req.headers.iter().map(|(k, v)| format!("{}: {}", k, String::from_utf8_lossy(v))).collect::<Vec<_>>(), "body": String::from_utf8_lossy(&req.body)});
            let got = vcommon::catch(|| macros::send_raw(&rig, req, asynch));
            let (res, _calls, sp) = match got {
                Ok(x) => x,
                Err(p) => {
                    r.violation(format!("C09|macro:{}|{}|panic", name, flavour), format!("macro service {} panicked: {}", name, p), case);
                    continue;
                }
            };
            let ut: Vec<(String, String)> = taints.iter().map(|t| (t.to_string(), t.to_string())).collect();
            let mut leaks = vec![];
            if let Some(sp) = &sp {
                for (k, v) in sp.iter() {
                    scan("SafeParams", &format!("{} = {}", k, rec(v)), &ut, &mut leaks);
                    if !["itemId", "safeOpt", "s", "theBody"].contains(&k) {
                        leaks.push(Leak { channel: "SafeParams-has-undeclared-key", arg: k.to_string(), text: rec(v) });
                    }
                }
            }
            if let Err(e) = &res {
                for (k, v) in e.safe_params().iter() {
                    scan("Error::safe_params", &format!("{} = {}", k, rec(v)), &ut, &mut leaks);
                }
                if e.cause_safe() {
                    scan("safe-cause-message", &format!("{} / {:?}", e.cause(), e.cause()), &ut, &mut leaks);
                }
            }
            if leaks.is_empty() {
                r.outcome("macro:no-leak");
            }
            for l in leaks {
                r.violation(format!("C09|macro:{}|{}|{}|data-of-{}", name, flavour, l.channel, l.arg), format!("macro service {} {}: {} reached {}: {}", name, req.uri, l.arg, l.channel, l.text), case.clone());
            }
            // safe body / safe query recorded on success
            if res.is_ok() && *name == "post_body" {
                let ok = sp.as_ref().map(|sp| sp.iter().any(|(k, v)| k == "theBody" && rec(v) == "7") && sp.iter().any(|(k, v)| k == "s" && rec(v) == "\"SAFEVAL\"")).unwrap_or(false);
                if !ok {
                    r.violation(format!("C09|macro:post_body|{}|safe-arg-not-recorded", flavour), "macro service: safe body / safe query are not in SafeParams under theBody / s".to_string(), case.clone());
                }
            }
        }
    }
}

pub fn run(args: &Args) -> Report {
    let mut report = Report::new("C09", "exploration");
    let rig = Rig::new(Options::default);
    let eps = reqs::endpoints();
    let max_dev = args.tier.pick(2usize, 5usize);
    for e in &eps {
        for states in reqs::assignments(e, max_dev) {
            check(&mut report, &rig, e, &states);
        }
        let n = e.args.len();
        for mask in 0u32..(1 << n) {
            if (mask.count_ones() as usize) <= max_dev {
                continue;
            }
            let states: Vec<St> = e.args.iter().enumerate().map(|(i, a)| if mask & (1 << i) != 0 { reqs::states_of(a).into_iter().rev().find(|s| *s != St::Valid).unwrap_or(St::Valid) } else { St::Valid }).collect();
            check(&mut report, &rig, e, &states);
        }
    }
    // auth header shapes that carry the token in unusual places
    let e = eps.iter().find(|e| e.name == "safeMix").unwrap();
    let valid: Vec<St> = vec![St::Valid; e.args.len()];
    let tok = e.args[0].taint.clone();
    for shape in [tok.clone(), format!("Bearer{}", tok), format!("{}==", tok), format!("bearer {}", tok), format!("Bearer  {}", tok), format!("Bearer {} {}", tok, tok), format!("Token token={}", tok), format!("{} Bearer", tok)] {
        let mut b = reqs::build(e, &valid);
        b.headers.insert(http::header::AUTHORIZATION, http::HeaderValue::from_str(&shape).unwrap());
        report.states += 1;
        for asynch in [false, true] {
            report.evaluations += 1;
            report.transitions += 1;
            let obs = reqs::send(&rig, &b, asynch);
            let mut leaks = vec![];
            let ut = vec![("auth_".to_string(), tok.clone())];
            if let Some(sp) = &obs.safe_params {
                for (k, v) in sp.iter() {
                    scan("SafeParams", &format!("{} = {}", k, rec(v)), &ut, &mut leaks);
                }
            }
            if let Err(err) = &obs.result {
                for (k, v) in err.safe_params().iter() {
                    scan("Error::safe_params", &format!("{} = {}", k, rec(v)), &ut, &mut leaks);
                }
                if err.cause_safe() {
                    scan("safe-cause-message", &format!("{} / {:?}", err.cause(), err.cause()), &ut, &mut leaks);
                }
            }
            if leaks.is_empty() {
                report.outcome("auth-shape:no-leak");
            }
            for l in leaks {
                report.violation(
                    format!("C09|safeMix|{}|{}|data-of-auth_|auth-header-shape", if asynch { "async" } else { "blocking" }, l.channel),
                    format!("safeMix with Authorization: {:?}: the credential reached {}: {}", shape, l.channel, l.text),
                    json!({"endpoint": "safeMix", "authorization": shape, "flavour": if asynch { "async" } else { "blocking" }}),
                );
            }
        }
    }
    macro_part(&mut report);
    // a bearer token's debug rendering never contains the token: it is one constant
    let alphabet = ["a", "Z", "0", "-", ".", "_", "~", "+", "/", "=", "e", "R"];
    let mut renderings = std::collections::BTreeSet::new();
    vcommon::enumerate::for_each_word(alphabet.len(), args.tier.pick(3, 4), |w| {
        let s: String = w.iter().map(|i| alphabet[*i]).collect();
        if let Ok(t) = BearerToken::new(&s) {
            report.evaluations += 1;
            renderings.insert(format!("{:?}|{:#?}", t, t));
        }
    });
    if renderings.len() != 1 {
        report.violation("C09|bearer-token-debug-not-constant".to_string(), format!("BearerToken's Debug rendering depends on the token: {} distinct renderings, e.g. {:?}", renderings.len(), renderings.iter().take(3).collect::<Vec<_>>()), json!({"kind": "debug"}));
    } else {
        report.outcome("bearer-token-debug-is-constant");
    }
    // ... nor do the generated types that hold one (aliases of bearertoken, aliases of those,
    // objects / unions / collections of them), plain or pretty
    {
        use crate::gen::*;
        use std::collections::{BTreeMap, BTreeSet};
        for text in ["QZTTOKXJW", "eyJTT1BTRUNSRVQ.c2VjcmV0", "a+b/c=="] {
            let t = BearerToken::new(text).unwrap();
            let alias = TokenAlias(t.clone());
            let alias2 = TokenAliasAlias(alias.clone());
            let creds = Credentials::builder()
                .token(t.clone())
                .alias(alias.clone())
                .alias_alias(alias2.clone())
                .maybe(OptTokenAlias(Some(t.clone())))
                .many(vec![alias2.clone()])
                .set(TokenSetAlias([t.clone()].into_iter().collect::<BTreeSet<_>>()))
                .by_name([("k".to_string(), t.clone())].into_iter().collect::<BTreeMap<_, _>>())
                .by_token([(alias.clone(), 1)].into_iter().collect::<BTreeMap<_, _>>())
                .build();
            let renderings: Vec<(&str, String)> = vec![
                ("alias of bearertoken", format!("{:?} {:#?}", alias, alias)),
                ("alias of alias of bearertoken", format!("{:?} {:#?}", alias2, alias2)),
                ("alias of optional<bearertoken>", format!("{:?}", OptTokenAlias(Some(t.clone())))),
                ("alias of set<bearertoken>", format!("{:?}", TokenSetAlias([t.clone()].into_iter().collect()))),
                ("object holding tokens", format!("{:?} {:#?}", creds, creds)),
                ("union variant bearertoken", format!("{:?}", Secret::Token(t.clone()))),
                ("union variant alias", format!("{:?}", Secret::Alias(alias2.clone()))),
                ("union variant object", format!("{:?}", Secret::Creds(creds.clone()))),
                ("Option / Vec of tokens", format!("{:?} {:?}", Some(t.clone()), vec![t.clone()])),
            ];
            for (what, out) in renderings {
                report.evaluations += 1;
                if out.contains(text) {
                    report.violation(format!("C09|token-holder-debug-shows-the-token|{}", what), format!("the Debug rendering of a generated {} contains the token: {}", what, out.chars().take(200).collect::<String>()), json!({"kind": "debug"}));
                } else {
                    report.outcome("token-holder-debug-hides-the-token");
                }
            }
        }
    }
    report.sample("leak-scan", json!({"endpoint": "safeMix", "states": ["Unparsable(auth)", "Valid", "..."], "channels": ["SafeParams", "Error::safe_params", "cause when cause_safe"], "taints": "one distinctive token per argument position, searched raw / base64 / lower-case"}));
    report.sample("macro", json!({"endpoint": "post_body", "authorization": "Basic QZTTOKXJW", "body": "x7"}));
    report.bound("max_simultaneous_deviations_with_all_kinds", max_dev);
    report.bound("endpoints", json!(eps.iter().map(|e| e.name).collect::<Vec<_>>()));
    report.nontrivial = report.states;
    report.rule = "states = requests: per endpoint every assignment of {valid, absent, repeated, unparsable, invalid text, wrong scheme, empty token} to its arguments with at most k deviations, every subset corrupted, unusual Authorization header shapes, macro-service requests; every datum carries a taint token; after each request the SafeParams extension, the error's safe params and the safe cause message are searched for taints of non-safe arguments".into();
    report.assumptions.push("a flip to a safe channel at a site whose text is constant (e.g. ParseIntError) leaks nothing and is not reported".into());
    report
}
