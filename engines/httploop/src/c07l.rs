//! C07 (generated-client part) — the URIs the *generated* blocking and async clients place in
//! their requests, judged by an independent tokenizer against the endpoint's template in the
//! IR: the path has exactly the template's segments, literals verbatim, and the segment at
//! each `{name}` position percent-decodes to the value passed for the argument *of that
//! name* (arguments are declared in another order than the template uses them for one
//! endpoint); the query has exactly one key=value pair per supplied value, under the
//! argument's wire id, decoding to it.

use crate::c04::{ascii_strings, boundary_strings, pair_strings, Rig};
use crate::gen::*;
use crate::loopback::Options;
use conjure_object::ResourceIdentifier;
use futures::executor::block_on;
use serde_json::json;
use std::collections::BTreeSet;
use vcommon::{Args, Report};

/// RFC 3986 percent-decoding of one component (no '+' translation); None if malformed
fn pct_decode(s: &str) -> Option<Vec<u8>> {
    let b = s.as_bytes();
    let mut out = vec![];
    let mut i = 0;
    while i < b.len() {
        if b[i] == b'%' {
            let h = std::str::from_utf8(b.get(i + 1..i + 3)?).ok()?;
            out.push(u8::from_str_radix(h, 16).ok()?);
            i += 3;
        } else {
            out.push(b[i]);
            i += 1;
        }
    }
    Some(out)
}

/// template segments: Lit(text) or Param(index into `path_values`)
enum Seg {
    Lit(&'static str),
    Param(usize),
}

fn judge(r: &mut Report, endpoint: &str, flavour: &str, class: &str, uri: &str, segs: &[Seg], path_values: &[String], query: &[(&str, String)]) {
    r.evaluations += 1;
    r.transitions += 1;
    if uri.is_empty() {
        // nothing was sent: the client refused the call (C04 judges refusals)
        r.outcome("generated-client:no-request-sent");
        return;
    }
    let case = json!({"endpoint": endpoint, "flavour": flavour, "uri": uri, "path_values": path_values, "query": query.iter().map(|(k, v)| json!([k, v])).collect::<Vec<_>>()});
    let mut fail = |r: &mut Report, kind: &str, what: String| {
        r.violation(format!("C07|generated-client|{}|{}|{}|{}", endpoint, flavour, kind, class), format!("{} ({}) built {:?}: {}", endpoint, flavour, uri, what), case.clone());
    };
    if uri.contains('#') {
        fail(r, "fragment", "the URI has a fragment".into());
        return;
    }
    let (path, q) = match uri.find('?') {
        Some(i) => (&uri[..i], Some(&uri[i + 1..])),
        None => (uri, None),
    };
    let got: Vec<&str> = path.split('/').skip(1).collect();
    if !path.starts_with('/') || got.len() != segs.len() {
        fail(r, "segment-count", format!("{} path segments, the template has {}", got.len(), segs.len()));
        return;
    }
    let mut ok = true;
    for (g, s) in got.iter().zip(segs) {
        match s {
            Seg::Lit(l) => {
                if g != l {
                    fail(r, "literal-altered", format!("segment {:?} where the template says {:?}", g, l));
                    ok = false;
                }
            }
            Seg::Param(i) => match pct_decode(g) {
                Some(b) if b == path_values[*i].as_bytes() => {}
                other => {
                    fail(r, "path-value", format!("segment {:?} decodes to {:?}, the argument of that name is {:?}", g, other.map(|b| String::from_utf8_lossy(&b).into_owned()), path_values[*i]));
                    ok = false;
                }
            },
        }
    }
    let pairs: Vec<&str> = match q {
        Some(q) if !q.is_empty() => q.split('&').collect(),
        Some(_) => vec![""],
        None => vec![],
    };
    if pairs.len() != query.len() || (q.is_some() && query.is_empty()) {
        fail(r, "pair-count", format!("{} query pairs for {} supplied values", pairs.len(), query.len()));
        return;
    }
    for (pair, (k, v)) in pairs.iter().zip(query) {
        let (pk, pv) = match pair.find('=') {
            Some(i) => (&pair[..i], &pair[i + 1..]),
            None => {
                fail(r, "pair-without-equals", format!("pair {:?}", pair));
                ok = false;
                continue;
            }
        };
        if pct_decode(pk).as_deref() != Some(k.as_bytes()) {
            fail(r, "query-key", format!("pair {:?} under key {:?}, the wire id is {:?}", pair, pk, k));
            ok = false;
        }
        match pct_decode(pv) {
            Some(b) if b == v.as_bytes() => {}
            other => {
                fail(r, "query-value", format!("pair {:?} decodes to {:?}, the value is {:?}", pair, other.map(|b| String::from_utf8_lossy(&b).into_owned()), v));
                ok = false;
            }
        }
        // a raw '+' would be read as a space by form decoding
        if pv.contains('+') {
            fail(r, "raw-plus", format!("pair {:?} carries a raw '+'", pair));
            ok = false;
        }
    }
    if ok {
        r.outcome("generated-client:uri-keeps-the-template's-structure");
    }
}

pub fn run(args: &Args) -> Report {
    let mut report = Report::new("C07", "exploration");
    let rig = Rig::new(Options::default);
    let thorough = args.tier.is_thorough();
    let mut strings = ascii_strings();
    strings.extend(boundary_strings());
    strings.extend(pair_strings(if thorough { "%+/?#&= ;:@" } else { "%/?#&" }));
    strings.push(String::new());
    let rid = ResourceIdentifier::new("ri.svc.inst.type.Loc_1.-").unwrap();
    // the recorded URI is taken (and cleared) after every call
    let last = |rig: &Rig, asynch: bool| if asynch { std::mem::take(&mut rig.asyncl.last.lock().unwrap().uri) } else { std::mem::take(&mut rig.blocking.last.lock().unwrap().uri) };
    if args.replay.is_some() {
        report.exhaustive = false;
    }
    for (i, s) in strings.iter().enumerate() {
        report.states += 1;
        let class = crate::c04::class_of(s);
        // pathParams: /u/path/{fooBar}/{type}/lit/{rid}
        for pos in 0..2 {
            let (a, b) = if pos == 0 { (s.clone(), "d".to_string()) } else { ("d".to_string(), s.clone()) };
            let alias = StrAlias(b.clone());
            for asynch in [false, true] {
                let _ = vcommon::catch(|| if asynch { block_on(rig.async_client().path_params(&a, &alias, &rid)).map(|_| ()) } else { rig.client().path_params(&a, &alias, &rid).map(|_| ()) });
                let segs = [Seg::Lit("u"), Seg::Lit("path"), Seg::Param(0), Seg::Param(1), Seg::Lit("lit"), Seg::Param(2)];
                judge(&mut report, "pathParams", if asynch { "async" } else { "blocking" }, &class, &last(&rig, asynch), &segs, &[a.clone(), b.clone(), rid.to_string()], &[]);
            }
        }
        // outOfOrder: /u/ooo/{first}/mid/{second}/{third}?q — declared third, second, q, first
        for pos in 0..3 {
            let (first, second, q) = match pos {
                0 => (s.clone(), "2nd".to_string(), Some("q v".to_string())),
                1 => ("1st".to_string(), s.clone(), None),
                _ => ("1st".to_string(), "2nd".to_string(), Some(s.clone())),
            };
            let third = i as i32 - 3;
            for asynch in [false, true] {
                let _ = vcommon::catch(|| if asynch { block_on(rig.async_client().out_of_order(third, &second, q.as_deref(), &first)).map(|_| ()) } else { rig.client().out_of_order(third, &second, q.as_deref(), &first).map(|_| ()) });
                let segs = [Seg::Lit("u"), Seg::Lit("ooo"), Seg::Param(0), Seg::Lit("mid"), Seg::Param(1), Seg::Param(2)];
                let query: Vec<(&str, String)> = q.iter().map(|v| ("q", v.clone())).collect();
                judge(&mut report, "outOfOrder", if asynch { "async" } else { "blocking" }, &class, &last(&rig, asynch), &segs, &[first.clone(), second.clone(), third.to_string()], &query);
            }
        }
        // listFirst: /u/listfirst?items*&tags*&opt?&tail*
        {
            let items = vec![s.clone(), "x".to_string(), s.clone()];
            let tags: BTreeSet<String> = [s.clone(), "t".to_string()].into_iter().collect();
            let opt = if i % 2 == 0 { Some(s.clone()) } else { None };
            let tail = vec![1, -2];
            for asynch in [false, true] {
                let _ = vcommon::catch(|| if asynch { block_on(rig.async_client().list_first(&items, &tags, opt.as_deref(), &tail)).map(|_| ()) } else { rig.client().list_first(&items, &tags, opt.as_deref(), &tail).map(|_| ()) });
                let mut query: Vec<(&str, String)> = items.iter().map(|v| ("items", v.clone())).collect();
                query.extend(tags.iter().map(|v| ("tags", v.clone())));
                query.extend(opt.iter().map(|v| ("opt", v.clone())));
                query.extend(tail.iter().map(|v| ("tail", v.to_string())));
                judge(&mut report, "listFirst", if asynch { "async" } else { "blocking" }, &class, &last(&rig, asynch), &[Seg::Lit("u"), Seg::Lit("listfirst")], &[], &query);
            }
        }
    }
    // aliasParams: /u/aliases/{dt}/{dbl}?u&b&sl&dts* — aliases of PLAIN primitives travel as the
    // primitive's PLAIN text (computed here from the primitive, not from the alias)
    {
        use conjure_object::{DateTime, SafeLong, ToPlain, Utc, Uuid};
        let dts: Vec<DateTime<Utc>> = [(0i64, 0u32), (253402300799, 999_999_999), (1, 1000), (1_600_000_000, 123_000_000)].iter().map(|(s, n)| DateTime::from_timestamp(*s, *n).unwrap()).collect();
        let rid_a = RidAlias(rid.clone());
        for (i, dt) in dts.iter().enumerate() {
            for d in [0.0f64, -0.0, 1.5, f64::NAN, f64::INFINITY, f64::NEG_INFINITY, 1e21, 5e-324] {
                report.states += 1;
                let u = Uuid::from_u128(0x0123_4567_89ab_cdef_fedc_ba98_7654_3210 + i as u128);
                let sl = SafeLong::new(-(i as i64) - 1).unwrap();
                let list: Vec<DtAliasAlias> = dts.iter().take(i + 1).map(|x| DtAliasAlias(DtAlias(*x))).collect();
                for asynch in [false, true] {
                    let _ = vcommon::catch(|| {
                        if asynch {
                            block_on(rig.async_client().alias_params(DtAlias(*dt), DblAlias(d), UuidAlias(u), BoolAlias(i % 2 == 0), Some(SlAlias(sl)), &list, &rid_a, None)).map(|_| ())
                        } else {
                            rig.client().alias_params(DtAlias(*dt), DblAlias(d), UuidAlias(u), BoolAlias(i % 2 == 0), Some(SlAlias(sl)), &list, &rid_a, None).map(|_| ())
                        }
                    });
                    let segs = [Seg::Lit("u"), Seg::Lit("aliases"), Seg::Param(0), Seg::Param(1)];
                    let mut query: Vec<(&str, String)> = vec![("u", u.to_plain()), ("b", (i % 2 == 0).to_plain()), ("sl", sl.to_plain())];
                    query.extend(dts.iter().take(i + 1).map(|x| ("dts", x.to_plain())));
                    judge(&mut report, "aliasParams", if asynch { "async" } else { "blocking" }, "typed", &last(&rig, asynch), &segs, &[dt.to_plain(), d.to_plain()], &query);
                }
            }
        }
    }
    // a macro client / macro server pair whose query names hold reserved characters
    crate::c04m::run_weird_for_c07(args, &mut report);
    report.sample("generated-client", json!({"endpoint": "outOfOrder", "template": "/u/ooo/{first}/mid/{second}/{third}", "declared": ["third", "second", "q", "first"]}));
    report.bound("generated_client_strings", strings.len());
    report.nontrivial = report.states;
    report.rule = "generated-client part: states = (string, endpoint, position): every ASCII character / boundary string / reserved pair as each path and query argument of three generated endpoints (one declares its path arguments in another order than its template), blocking and async; the URI placed in the request is tokenized by a hand-written RFC 3986 model and compared with the IR's template by argument name".into();
    report
}
