//! C04 (Smile leg) — "whichever of JSON or Smile the response is negotiated to": requests
//! with Smile bodies and Accept headers steering the response encoding, sent to the
//! generated endpoints; the handler receives the value, the response carries the handler's
//! value in the negotiated encoding.

use crate::c04::Rig;
use crate::gen::*;
use crate::handler::rec;
use crate::loopback::Options;
use crate::reqs::{self, Built};
use conjure_object::{Any, DoubleKey};
use http::{HeaderMap, HeaderValue, Method};
use serde::de::DeserializeOwned;
use serde::Serialize;
use serde_json::json;
use std::collections::{BTreeMap, BTreeSet};
use vcommon::Report;

const SMILE: &str = "application/x-jackson-smile";
const JSON: &str = "application/json";

/// (Accept header, encoding the response must use)
fn accepts() -> Vec<(Option<&'static str>, &'static str)> {
    vec![
        (Some(SMILE), SMILE),
        (Some(JSON), JSON),
        (None, JSON),
        (Some("application/x-jackson-smile, application/json;q=0.5"), SMILE),
        (Some("application/json;q=0.5, application/x-jackson-smile"), SMILE),
        (Some("application/json, application/x-jackson-smile"), JSON),
        (Some("*/*"), JSON),
        (Some("application/*;q=0.1, application/x-jackson-smile;q=0.2"), SMILE),
        (Some("application/json;q=0, */*"), SMILE),
    ]
}

#[allow(clippy::too_many_arguments)]
fn leg<A, R>(r: &mut Report, rigs: &[Rig], endpoint: &'static str, handler: &'static str, uri: &'static str, args: &[A], rets: &[R])
where
    A: Serialize + Clone,
    R: Serialize + DeserializeOwned + Clone + Send + 'static,
{
    for (ri, rig) in rigs.iter().enumerate() {
        for arg in args {
            for ret in rets {
                for body_enc in [SMILE, JSON] {
                    for (accept, want_enc) in accepts() {
                        r.states += 1;
                        let body = if body_enc == SMILE { conjure_serde::smile::to_vec(arg).unwrap() } else { conjure_serde::json::to_vec(arg).unwrap() };
                        let mut headers = HeaderMap::new();
                        headers.insert(http::header::CONTENT_TYPE, HeaderValue::from_static(body_enc));
                        if let Some(a) = accept {
                            headers.insert(http::header::ACCEPT, HeaderValue::from_static(a));
                        }
                        let built = Built { method: Method::POST, uri: uri.parse().unwrap(), headers, body };
                        for asynch in [false, true] {
                            r.evaluations += 1;
                            r.transitions += 1;
                            let flavour = if asynch { "async" } else { "blocking" };
                            rig.handler.take_calls();
                            rig.handler.set_return(ret.clone());
                            let got = vcommon::catch(|| {
                                if asynch {
                                    futures::executor::block_on(rig.asyncl.dispatch(built.method.clone(), built.uri.clone(), built.headers.clone(), built.body.clone())).map(|_| ())
                                } else {
                                    rig.blocking.dispatch(built.method.clone(), built.uri.clone(), built.headers.clone(), built.body.clone()).map(|_| ())
                                }
                            });
                            let calls = rig.handler.take_calls();
                            let obs = match got {
                                Ok(result) => reqs::Observed { result, calls: calls.len(), safe_params: None, panicked: None },
                                Err(p) => reqs::Observed { result: Ok(()), calls: calls.len(), safe_params: None, panicked: Some(p) },
                            };
                            let (status, ct, resp_body) = {
                                let last = if asynch { rig.asyncl.last.lock().unwrap() } else { rig.blocking.last.lock().unwrap() };
                                (last.status, last.response_headers.get(http::header::CONTENT_TYPE).and_then(|v| v.to_str().ok()).map(|s| s.to_string()), last.response_body.clone())
                            };
                            let case = json!({"smile_leg": endpoint, "arg": rec(arg), "ret": rec(ret), "content_type": body_enc, "accept": accept, "flavour": flavour, "chunking": ri});
                            let sig = |k: &str| format!("C04|smile-leg|{}|{}|{}|body={}|accept={:?}", endpoint, flavour, k, body_enc, accept);
                            if let Some(p) = &obs.panicked {
                                r.violation(sig("panic"), format!("{} panicked: {}", endpoint, p), case);
                                continue;
                            }
                            if let Err(e) = &obs.result {
                                r.violation(sig("request-failed"), format!("{} ({}): {} body {} with Accept {:?} failed: {}", endpoint, flavour, body_enc, rec(arg), accept, e.cause()), case);
                                continue;
                            }
                            if calls.len() != 1 || calls[0].endpoint != handler {
                                r.violation(sig("handler-invocations"), format!("{} ({}): handler calls {:?}", endpoint, flavour, calls), case);
                                continue;
                            }
                            if calls[0].args != vec![rec(arg)] {
                                r.violation(sig("arguments-altered"), format!("{} ({}): sent {} as {}, the handler received {:?}", endpoint, flavour, rec(arg), body_enc, calls[0].args), case);
                                continue;
                            }
                            // an empty optional / collection may be answered with 204 and no body
                            let empty_ok = status == Some(http::StatusCode::NO_CONTENT) && resp_body.is_empty() && matches!(rec(ret).as_str(), "null" | "[]" | "{}");
                            if empty_ok {
                                r.outcome("smile-leg:empty-value-as-204");
                                continue;
                            }
                            if ct.as_deref() != Some(want_enc) {
                                r.violation(sig("wrong-response-encoding"), format!("{} ({}): Accept {:?} must be answered in {}, the response says {:?}", endpoint, flavour, accept, want_enc, ct), case);
                                continue;
                            }
                            let decoded: Result<R, String> = if want_enc == SMILE { conjure_serde::smile::client_from_slice(&resp_body).map_err(|e| e.to_string()) } else { conjure_serde::json::client_from_slice(&resp_body).map_err(|e| e.to_string()) };
                            match decoded {
                                Ok(v) if rec(&v) == rec(ret) => r.outcome("smile-leg:delivered-exactly"),
                                other => r.violation(sig("return-altered"), format!("{} ({}): the handler returned {}, the {} response decodes to {:?}", endpoint, flavour, rec(ret), want_enc, other.map(|v| rec(&v))), case),
                            }
                        }
                    }
                }
            }
        }
    }
}

pub fn run(report: &mut Report) {
    let rigs = [Rig::new(Options::default), Rig::new(|| Options { request_chunk: 1, response_chunk: 1 }), Rig::new(|| Options { request_chunk: 5 | crate::loopback::WITH_EMPTY_CHUNKS, response_chunk: 5 | crate::loopback::WITH_EMPTY_CHUNKS })];
    let payloads: Vec<Payload> = [
        r#"{"name":"","count":0,"ratio":0.0}"#,
        r#"{"name":"n\"\\\né","count":-2147483648,"tags":["a","","%2F"],"ratio":"NaN","extra":{"k":[1,null,{"type":"x"}]},"blob":"AP8=","byKey":{"a b":"RED","":"OTHER_COLOR"}}"#,
        r#"{"name":"outer","count":1,"ratio":"-Infinity","nested":{"name":"inner","count":2,"ratio":1e-7}}"#,
    ]
    .iter()
    .map(|s| conjure_serde::json::client_from_str(s).unwrap())
    .collect();
    let choices: Vec<Choice> = [r#"{"type":"text","text":"t"}"#, r#"{"type":"payload","payload":{"name":"p","count":1,"ratio":"Infinity","blob":"AAEC"}}"#, r#"{"type":"numbers","numbers":[3,1,2]}"#, r#"{"type":"brandNew","brandNew":{"a":[1,"x",null]}}"#]
        .iter()
        .map(|s| conjure_serde::json::client_from_str(s).unwrap())
        .collect();
    leg(report, &rigs, "bodyUnion", "body_union", "/u/body/union", &choices, &choices);
    let opt: Vec<Option<Payload>> = vec![None, Some(payloads[1].clone())];
    leg(report, &rigs, "bodyOptional", "body_optional", "/u/body/optional", &[Some(payloads[0].clone()), Some(payloads[1].clone())], &opt);
    let maps: Vec<BTreeMap<String, Vec<i32>>> = vec![BTreeMap::new(), [("a b".to_string(), vec![1, -1]), ("".to_string(), vec![])].into_iter().collect()];
    leg(report, &rigs, "bodyCollections", "body_collections", "/u/body/collections", &maps, &maps);
    let sets: Vec<BTreeSet<DoubleKey>> = vec![BTreeSet::new(), [0.0, -0.0, 1.5, f64::NAN, f64::INFINITY, f64::NEG_INFINITY, 5e-324].into_iter().map(DoubleKey).collect()];
    leg(report, &rigs, "bodyDoubleSet", "body_double_set", "/u/body/doubleset", &sets, &sets);
    let lists = vec![IntListAlias(vec![]), IntListAlias(vec![i32::MIN, 0, i32::MAX])];
    leg(report, &rigs, "bodyListAlias", "body_list_alias", "/u/body/listalias", &lists, &lists);
    let aliases = vec![OptStrAlias(None), OptStrAlias(Some("é \"q\"".into()))];
    leg(report, &rigs, "bodyAliasOpt", "body_alias_opt", "/u/body/aliasopt", &aliases[1..], &aliases);
    let anys: Vec<Any> = [r#"[1,{"a":"b"},null,1.5,"s"]"#, r#""text""#, r#"{"k":{"n":[true]}}"#].iter().map(|s| conjure_serde::json::client_from_str(s).unwrap()).collect();
    leg(report, &rigs, "bodyAny", "body_any", "/u/body/any", &anys, &anys);
    report.sample("smile-leg", json!({"endpoint": "bodyUnion", "content_type": SMILE, "accept": "application/json;q=0.5, application/x-jackson-smile", "expect": "handler receives the value; response in Smile"}));
}
