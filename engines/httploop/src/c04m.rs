//! C04 (macro part) — hand-written `#[conjure_client]` traits against hand-written
//! `#[conjure_endpoints]` traits of the same definition (non-default encoders / decoders,
//! optional and sequence parameters in query and header positions, auth in both places,
//! JSON bodies and returns), joined by the loopback transport; identity oracle.

use crate::c04::{ascii_strings, boundary_strings, pair_strings};
use crate::loopback::{AsyncLoop, BlockingLoop, Options};
use conjure_error::Error;
use conjure_http::client::{AsyncService as _, ConjureRequestSerializer, ConjureResponseDeserializer, DisplaySeqEncoder, Service as _};
use conjure_http::server::{AsyncService as _, ConjureRuntime, FromStrOptionDecoder, FromStrSeqDecoder, RequestContext, Service as _, StdRequestDeserializer, StdResponseSerializer};
use conjure_http::{conjure_client, conjure_endpoints, endpoint};
use conjure_object::BearerToken;
use futures::executor::block_on;
use serde_json::json;
use std::collections::BTreeSet;
use std::sync::{Arc, Mutex};
use vcommon::{Args, Report};

#[derive(Clone, Default)]
pub struct EchoHandler {
    calls: Arc<Mutex<Vec<(String, Vec<String>)>>>,
    ret: Arc<Mutex<String>>,
}

impl EchoHandler {
    fn hit(&self, endpoint: &str, args: Vec<String>) -> String {
        self.calls.lock().unwrap().push((endpoint.to_string(), args));
        self.ret.lock().unwrap().clone()
    }
    fn take(&self) -> Vec<(String, Vec<String>)> {
        std::mem::take(&mut self.calls.lock().unwrap())
    }
}

fn d<T: std::fmt::Debug>(v: &T) -> String {
    format!("{:?}", v)
}

#[conjure_endpoints(name = "EchoService")]
pub trait EchoService {
    #[endpoint(method = GET, path = "/e/{a}/lit/{b}", produces = StdResponseSerializer)]
    fn strings(
        &self,
        #[path] a: String,
        #[path] b: String,
        #[query(name = "k-one", decoder = FromStrOptionDecoder)] q: Option<String>,
        #[query(name = "list", decoder = FromStrSeqDecoder<String>)] list: Vec<String>,
        #[header(name = "X-H")] h: String,
        #[header(name = "X-Opt", decoder = FromStrOptionDecoder)] ho: Option<String>,
    ) -> Result<String, Error>;

    #[endpoint(method = PUT, path = "/e/ints/{n}", produces = StdResponseSerializer)]
    fn ints(&self, #[auth] token: BearerToken, #[path] n: i64, #[query(name = "m", decoder = FromStrSeqDecoder<i32>)] m: BTreeSet<i32>, #[header(name = "X-Flag", decoder = FromStrOptionDecoder)] flag: Option<bool>, #[body] body: Vec<String>) -> Result<Vec<String>, Error>;

    #[endpoint(method = POST, path = "/e/unit")]
    fn unit(&self, #[auth(cookie_name = "SESS")] token: BearerToken, #[query(name = "s")] s: String) -> Result<(), Error>;

    /// query names with reserved characters: client and server must agree on the key
    #[endpoint(method = GET, path = "/e/weird", produces = StdResponseSerializer)]
    fn weird(&self, #[query(name = "filter[name]")] f: String, #[query(name = "page token", decoder = FromStrOptionDecoder)] p: Option<String>, #[query(name = "tag+", decoder = FromStrSeqDecoder<String>)] tags: Vec<String>, #[query(name = "a=b&c")] x: String, #[query(name = "caf\u{e9}%41")] y: String) -> Result<String, Error>;

    #[endpoint(method = POST, path = "/e/renamed/{theId}/mid/{rest}", name = "renamedEndpoint", produces = StdResponseSerializer)]
    fn renamed(&self, #[path(name = "theId", log_as = "theId")] id: String, #[path(name = "rest")] tail: String, #[header(name = "X-Seen")] seen: String, #[body(deserializer = StdRequestDeserializer<64>)] body: String, #[context] ctx: RequestContext<'_>) -> Result<String, Error>;
}

#[conjure_endpoints(name = "EchoService")]
pub trait AsyncEchoService {
    #[endpoint(method = GET, path = "/e/{a}/lit/{b}", produces = StdResponseSerializer)]
    async fn strings(
        &self,
        #[path] a: String,
        #[path] b: String,
        #[query(name = "k-one", decoder = FromStrOptionDecoder)] q: Option<String>,
        #[query(name = "list", decoder = FromStrSeqDecoder<String>)] list: Vec<String>,
        #[header(name = "X-H")] h: String,
        #[header(name = "X-Opt", decoder = FromStrOptionDecoder)] ho: Option<String>,
    ) -> Result<String, Error>;

    #[endpoint(method = PUT, path = "/e/ints/{n}", produces = StdResponseSerializer)]
    async fn ints(&self, #[auth] token: BearerToken, #[path] n: i64, #[query(name = "m", decoder = FromStrSeqDecoder<i32>)] m: BTreeSet<i32>, #[header(name = "X-Flag", decoder = FromStrOptionDecoder)] flag: Option<bool>, #[body] body: Vec<String>) -> Result<Vec<String>, Error>;

    #[endpoint(method = POST, path = "/e/unit")]
    async fn unit(&self, #[auth(cookie_name = "SESS")] token: BearerToken, #[query(name = "s")] s: String) -> Result<(), Error>;

    #[endpoint(method = GET, path = "/e/weird", produces = StdResponseSerializer)]
    async fn weird(&self, #[query(name = "filter[name]")] f: String, #[query(name = "page token", decoder = FromStrOptionDecoder)] p: Option<String>, #[query(name = "tag+", decoder = FromStrSeqDecoder<String>)] tags: Vec<String>, #[query(name = "a=b&c")] x: String, #[query(name = "caf\u{e9}%41")] y: String) -> Result<String, Error>;

    #[endpoint(method = POST, path = "/e/renamed/{theId}/mid/{rest}", name = "renamedEndpoint", produces = StdResponseSerializer)]
    async fn renamed(&self, #[path(name = "theId", log_as = "theId")] id: String, #[path(name = "rest")] tail: String, #[header(name = "X-Seen")] seen: String, #[body(deserializer = StdRequestDeserializer<64>)] body: String, #[context] ctx: RequestContext<'_>) -> Result<String, Error>;
}

impl EchoService for EchoHandler {
    fn strings(&self, a: String, b: String, q: Option<String>, list: Vec<String>, h: String, ho: Option<String>) -> Result<String, Error> {
        Ok(self.hit("strings", vec![d(&a), d(&b), d(&q), d(&list), d(&h), d(&ho)]))
    }
    fn ints(&self, token: BearerToken, n: i64, m: BTreeSet<i32>, flag: Option<bool>, body: Vec<String>) -> Result<Vec<String>, Error> {
        let r = self.hit("ints", vec![d(&token.as_str()), d(&n), d(&m), d(&flag), d(&body)]);
        Ok(vec![r, "second".into()])
    }
    fn unit(&self, token: BearerToken, s: String) -> Result<(), Error> {
        self.hit("unit", vec![d(&token.as_str()), d(&s)]);
        Ok(())
    }
    fn weird(&self, f: String, p: Option<String>, tags: Vec<String>, x: String, y: String) -> Result<String, Error> {
        Ok(self.hit("weird", vec![d(&f), d(&p), d(&tags), d(&x), d(&y)]))
    }

    fn renamed(&self, id: String, tail: String, seen: String, body: String, ctx: RequestContext<'_>) -> Result<String, Error> {
        let via_ctx = ctx.request_headers().get("x-seen").and_then(|v| v.to_str().ok()).map(|s| s.to_string());
        Ok(self.hit("renamed", vec![d(&id), d(&tail), d(&seen), d(&body), d(&via_ctx), d(&ctx.request_uri().path().to_string().starts_with("/e/renamed/"))]))
    }
}

impl AsyncEchoService for EchoHandler {
    async fn strings(&self, a: String, b: String, q: Option<String>, list: Vec<String>, h: String, ho: Option<String>) -> Result<String, Error> {
        Ok(self.hit("strings", vec![d(&a), d(&b), d(&q), d(&list), d(&h), d(&ho)]))
    }
    async fn ints(&self, token: BearerToken, n: i64, m: BTreeSet<i32>, flag: Option<bool>, body: Vec<String>) -> Result<Vec<String>, Error> {
        let r = self.hit("ints", vec![d(&token.as_str()), d(&n), d(&m), d(&flag), d(&body)]);
        Ok(vec![r, "second".into()])
    }
    async fn unit(&self, token: BearerToken, s: String) -> Result<(), Error> {
        self.hit("unit", vec![d(&token.as_str()), d(&s)]);
        Ok(())
    }
    async fn weird(&self, f: String, p: Option<String>, tags: Vec<String>, x: String, y: String) -> Result<String, Error> {
        Ok(self.hit("weird", vec![d(&f), d(&p), d(&tags), d(&x), d(&y)]))
    }

    async fn renamed(&self, id: String, tail: String, seen: String, body: String, ctx: RequestContext<'_>) -> Result<String, Error> {
        let via_ctx = ctx.request_headers().get("x-seen").and_then(|v| v.to_str().ok()).map(|s| s.to_string());
        Ok(self.hit("renamed", vec![d(&id), d(&tail), d(&seen), d(&body), d(&via_ctx), d(&ctx.request_uri().path().to_string().starts_with("/e/renamed/"))]))
    }
}

#[conjure_client(name = "EchoService")]
pub trait EchoApi {
    #[endpoint(method = GET, path = "/e/{a}/lit/{b}", accept = ConjureResponseDeserializer)]
    fn strings(
        &self,
        #[path] a: &str,
        #[path] b: &str,
        #[query(name = "k-one", encoder = DisplaySeqEncoder)] q: Option<&str>,
        #[query(name = "list", encoder = DisplaySeqEncoder)] list: &[String],
        #[header(name = "X-H")] h: &str,
        #[header(name = "X-Opt", encoder = DisplaySeqEncoder)] ho: Option<&str>,
    ) -> Result<String, Error>;

    #[endpoint(method = PUT, path = "/e/ints/{n}", accept = ConjureResponseDeserializer)]
    fn ints(&self, #[auth] token: &BearerToken, #[path] n: i64, #[query(name = "m", encoder = DisplaySeqEncoder)] m: &BTreeSet<i32>, #[header(name = "X-Flag", encoder = DisplaySeqEncoder)] flag: Option<bool>, #[body] body: &[String]) -> Result<Vec<String>, Error>;

    #[endpoint(method = POST, path = "/e/unit")]
    fn unit(&self, #[auth(cookie_name = "SESS")] token: &BearerToken, #[query(name = "s")] s: &str) -> Result<(), Error>;

    #[endpoint(method = GET, path = "/e/weird", accept = ConjureResponseDeserializer)]
    fn weird(&self, #[query(name = "filter[name]")] f: &str, #[query(name = "page token", encoder = DisplaySeqEncoder)] p: Option<&str>, #[query(name = "tag+", encoder = DisplaySeqEncoder)] tags: &[String], #[query(name = "a=b&c")] x: &str, #[query(name = "caf\u{e9}%41")] y: &str) -> Result<String, Error>;

    #[endpoint(method = POST, path = "/e/renamed/{theId}/mid/{rest}", name = "renamedEndpoint", accept = ConjureResponseDeserializer)]
    fn renamed(&self, #[path(name = "theId")] id: &str, #[path(name = "rest")] tail: &str, #[header(name = "X-Seen")] seen: &str, #[body(serializer = ConjureRequestSerializer)] body: &str) -> Result<String, Error>;
}

#[conjure_client(name = "EchoService")]
pub trait AsyncEchoApi {
    #[endpoint(method = GET, path = "/e/{a}/lit/{b}", accept = ConjureResponseDeserializer)]
    async fn strings(
        &self,
        #[path] a: &str,
        #[path] b: &str,
        #[query(name = "k-one", encoder = DisplaySeqEncoder)] q: Option<&str>,
        #[query(name = "list", encoder = DisplaySeqEncoder)] list: &[String],
        #[header(name = "X-H")] h: &str,
        #[header(name = "X-Opt", encoder = DisplaySeqEncoder)] ho: Option<&str>,
    ) -> Result<String, Error>;

    #[endpoint(method = PUT, path = "/e/ints/{n}", accept = ConjureResponseDeserializer)]
    async fn ints(&self, #[auth] token: &BearerToken, #[path] n: i64, #[query(name = "m", encoder = DisplaySeqEncoder)] m: &BTreeSet<i32>, #[header(name = "X-Flag", encoder = DisplaySeqEncoder)] flag: Option<bool>, #[body] body: &[String]) -> Result<Vec<String>, Error>;

    #[endpoint(method = POST, path = "/e/unit")]
    async fn unit(&self, #[auth(cookie_name = "SESS")] token: &BearerToken, #[query(name = "s")] s: &str) -> Result<(), Error>;

    #[endpoint(method = GET, path = "/e/weird", accept = ConjureResponseDeserializer)]
    async fn weird(&self, #[query(name = "filter[name]")] f: &str, #[query(name = "page token", encoder = DisplaySeqEncoder)] p: Option<&str>, #[query(name = "tag+", encoder = DisplaySeqEncoder)] tags: &[String], #[query(name = "a=b&c")] x: &str, #[query(name = "caf\u{e9}%41")] y: &str) -> Result<String, Error>;

    #[endpoint(method = POST, path = "/e/renamed/{theId}/mid/{rest}", name = "renamedEndpoint", accept = ConjureResponseDeserializer)]
    async fn renamed(&self, #[path(name = "theId")] id: &str, #[path(name = "rest")] tail: &str, #[header(name = "X-Seen")] seen: &str, #[body(serializer = ConjureRequestSerializer)] body: &str) -> Result<String, Error>;
}

struct Rig {
    handler: EchoHandler,
    blocking: BlockingLoop,
    asyncl: AsyncLoop,
}

impl Rig {
    fn new(options: fn() -> Options) -> Rig {
        let handler = EchoHandler::default();
        let rt = Arc::new(ConjureRuntime::new());
        let mut blocking = BlockingLoop::new(EchoServiceEndpoints::new(handler.clone()).endpoints(&rt));
        blocking.options = options();
        let mut asyncl = AsyncLoop::new(AsyncEchoServiceEndpoints::new(handler.clone()).endpoints(&rt));
        asyncl.options = options();
        Rig { handler, blocking, asyncl }
    }
}

fn header_ok(s: &str) -> bool {
    !s.is_empty() && s.bytes().all(|b| (0x21..=0x7e).contains(&b))
}

fn class_of(vals: &[&str]) -> String {
    let mut cls: Vec<String> = vec![];
    for s in vals {
        for c in s.chars() {
            let k = if c.is_ascii_alphanumeric() { "alnum".to_string() } else if (c as u32) < 0x20 || c as u32 == 0x7f { "control".to_string() } else if c.is_ascii() { format!("{:?}", c) } else { "non-ascii".to_string() };
            if !cls.contains(&k) {
                cls.push(k);
            }
        }
        if s.is_empty() {
            cls.push("empty".into());
        }
    }
    cls.sort();
    cls.join("")
}

#[allow(clippy::too_many_arguments)]
fn judge(r: &mut Report, rig: &Rig, endpoint: &'static str, position: &str, class: &str, want_args: Vec<String>, want_ret: String, may_refuse: bool, blocking: &dyn Fn(&Rig) -> Result<String, Error>, asynch: &dyn Fn(&Rig) -> Result<String, Error>) {
    r.states += 1;
    for (flavour, call) in [("blocking", blocking), ("async", asynch)] {
        r.evaluations += 1;
        r.transitions += 1;
        rig.handler.take();
        let got = vcommon::catch(|| call(rig));
        let calls = rig.handler.take();
        let uri = if flavour == "blocking" { rig.blocking.last.lock().unwrap().uri.clone() } else { rig.asyncl.last.lock().unwrap().uri.clone() };
        let case = json!({"macro_endpoint": endpoint, "position": position, "flavour": flavour, "args": want_args, "uri": uri});
        let prop = PROP.with(|p| *p.borrow());
        let sig = |k: &str| format!("{}|macro|{}|{}|{}|{}|{}", prop, endpoint, position, flavour, k, class);
        match got {
            Err(p) => r.violation(sig("panic"), format!("macro client {} ({}) panicked with args {:?}: {}", endpoint, flavour, want_args, p), case),
            Ok(Err(e)) => {
                if calls.is_empty() && may_refuse {
                    r.outcome("macro:refused-without-invoking-the-handler");
                } else if calls.is_empty() {
                    r.violation(sig("call-failed"), format!("macro client {} ({}) with args {:?} failed before the handler ran (request {}): {}", endpoint, flavour, want_args, uri, e.cause()), case);
                } else {
                    r.violation(sig("call-failed-after-handler"), format!("macro client {} ({}) with args {:?}: the handler ran but the client got {}", endpoint, flavour, want_args, e.cause()), case);
                }
            }
            Ok(Ok(ret)) => {
                if calls.len() != 1 {
                    r.violation(sig("handler-invocations"), format!("macro client {} ({}): handler invoked {} times", endpoint, flavour, calls.len()), case);
                } else if calls[0].0 != endpoint {
                    r.violation(sig("wrong-handler"), format!("macro client {} ({}) reached handler {}", endpoint, flavour, calls[0].0), case);
                } else if calls[0].1 != want_args {
                    r.violation(sig("arguments-altered"), format!("macro client {} ({}): sent {:?}, the handler received {:?} (request {})", endpoint, flavour, want_args, calls[0].1, uri), case);
                } else if ret != want_ret {
                    r.violation(sig("return-altered"), format!("macro client {} ({}): the handler returned {} but the client got {}", endpoint, flavour, want_ret, ret), case);
                } else {
                    r.outcome("macro:delivered-exactly");
                }
            }
        }
    }
}

thread_local! {
    /// the property a run reports under (the reserved-name endpoint also serves C07)
    static PROP: std::cell::RefCell<&'static str> = std::cell::RefCell::new("C04");
}

/// the macro client / macro server pair whose query names hold reserved characters, as a part
/// of C07: every value in every position must decode back exactly on the server
pub fn run_weird_for_c07(args: &Args, report: &mut Report) {
    PROP.with(|p| *p.borrow_mut() = "C07");
    let thorough = args.tier.is_thorough();
    let rigs = [Rig::new(Options::default)];
    let mut all: Vec<String> = ascii_strings();
    all.extend(boundary_strings());
    all.extend(pair_strings(if thorough { "%+/?#&= .~:;@!$'()*,[]\\\"<>{}|^`" } else { "%+/?#&= " }));
    let reduced: Vec<String> = vec![];
    weird_cases(report, &rigs, &all, &reduced);
    PROP.with(|p| *p.borrow_mut() = "C04");
}

fn weird_cases(report: &mut Report, rigs: &[Rig], all: &[String], reduced: &[String]) {
    for (ri, rig) in rigs.iter().enumerate() {
        for v in if ri == 0 { all } else { reduced } {
            for pos in 0..5usize {
                let mut vals: Vec<String> = vec!["f".into(), "p".into(), "t".into(), "x".into(), "y".into()];
                vals[pos] = v.clone();
                let p = if pos == 1 || ri == 0 { Some(vals[1].as_str()) } else { None };
                let tags: Vec<String> = if pos == 2 { vec![vals[2].clone(), "mid".into(), vals[2].clone()] } else { vec![] };
                let want_args = vec![d(&vals[0]), d(&p.map(|s| s.to_string())), d(&tags), d(&vals[3]), d(&vals[4])];
                *rig.handler.ret.lock().unwrap() = "w".into();
                judge(report, rig, "weird", &format!("pos{}/rig{}", pos, ri), &class_of(&[v.as_str()]), want_args, d(&"w".to_string()), false,
                    &|rig| EchoApiClient::new(&rig.blocking).weird(&vals[0], p, &tags, &vals[3], &vals[4]).map(|v| d(&v)),
                    &|rig| block_on(AsyncEchoApiClient::new(&rig.asyncl).weird(&vals[0], p, &tags, &vals[3], &vals[4])).map(|v| d(&v)));
            }
        }
    }
}

pub fn run(args: &Args, report: &mut Report) {
    let thorough = args.tier.is_thorough();
    let rigs = [Rig::new(Options::default), Rig::new(|| Options { request_chunk: 1, response_chunk: 1 }), Rig::new(|| Options { request_chunk: 2 | crate::loopback::WITH_EMPTY_CHUNKS, response_chunk: 2 | crate::loopback::WITH_EMPTY_CHUNKS })];
    let mut all: Vec<String> = ascii_strings();
    all.extend(boundary_strings());
    all.extend(pair_strings(if thorough { "%+/?#&= .~:;@!$'()*,[]\\\"<>{}|^`" } else { "%+/?#&= " }));
    let reduced: Vec<String> = ["%", "+", "/", "?", "#", "&", "=", " ", "", "\u{e9}", "%2F", "a=b&c", ",", "x;y"].iter().map(|s| s.to_string()).collect();
    let rets: Vec<String> = vec!["ret".into(), "".into(), "\"q\" \\ \u{e9}\u{10000}\n".into()];

    // ---- strings: every value in each of the six positions, the others default
    let rig = &rigs[0];
    for pos in 0..6usize {
        for v in &all {
            let hdr_pos = pos >= 4;
            let mut vals: Vec<String> = vec!["a".into(), "b".into(), "q".into(), "l".into(), "h".into(), "o".into()];
            vals[pos] = v.clone();
            run_strings(report, rig, &vals, &rets[0], &format!("pos{}", pos), hdr_pos && !header_ok(v));
        }
    }
    // pairs of positions over the reduced alphabet, on both rigs, with every scripted return
    for (ri, rig) in rigs.iter().enumerate() {
        for p1 in 0..6usize {
            for p2 in (p1 + 1)..6 {
                for a in &reduced {
                    for b in &reduced {
                        let mut vals: Vec<String> = vec!["a".into(), "b".into(), "q".into(), "l".into(), "h".into(), "o".into()];
                        vals[p1] = a.clone();
                        vals[p2] = b.clone();
                        let refuse = (p1 >= 4 && !header_ok(a)) || (p2 >= 4 && !header_ok(b));
                        run_strings(report, rig, &vals, &rets[(p1 + p2 + ri) % rets.len()], &format!("pos{}+pos{}/rig{}", p1, p2, ri), refuse);
                    }
                }
            }
        }
    }
    // optional absent / list sizes 0..3
    for (ri, rig) in rigs.iter().enumerate() {
        for q in [None, Some(""), Some("x y")] {
            for ho in [None, Some("o")] {
                for n in 0..=6usize {
                    // 4..6: repeated elements (adjacent and not), empty strings
                    let list: Vec<String> = match n {
                        4 => vec!["x".into(), "x".into()],
                        5 => vec!["".into(), "".into(), "a".into()],
                        6 => vec!["a".into(), "b".into(), "a".into(), "a".into()],
                        _ => reduced.iter().take(n).cloned().collect(),
                    };
                    let want_args = vec![d(&"a"), d(&"b"), d(&q.map(|s| s.to_string())), d(&list), d(&"h"), d(&ho.map(|s| s.to_string()))];
                    let ret = rets[n % rets.len()].clone();
                    *rig.handler.ret.lock().unwrap() = ret.clone();
                    judge(report, rig, "strings", &format!("optional+list/rig{}", ri), &format!("q={:?},ho={:?},n={}", q.is_some(), ho.is_some(), n), want_args, d(&ret), false,
                        &|rig| EchoApiClient::new(&rig.blocking).strings("a", "b", q, &list, "h", ho).map(|v| d(&v)),
                        &|rig| block_on(AsyncEchoApiClient::new(&rig.asyncl).strings("a", "b", q, &list, "h", ho)).map(|v| d(&v)));
                }
            }
        }
    }
    // ---- weird: query names holding reserved characters, every value in every position
    weird_cases(report, &rigs, &all, &reduced);
    // ---- ints: scalar alphabets, set sizes, flag states, bodies, tokens
    let tokens = ["a", "AbC-._~+/9==", "0"];
    let ns = [0i64, -1, i64::MIN, i64::MAX, 42];
    let sets: Vec<BTreeSet<i32>> = vec![BTreeSet::new(), [0].into_iter().collect(), [i32::MIN, -1, i32::MAX].into_iter().collect()];
    let bodies: Vec<Vec<String>> = vec![vec![], vec!["".into()], vec!["a\"b\\c\n".into(), "\u{e9}\u{10000}".into(), "%2F".into()]];
    for (ri, rig) in rigs.iter().enumerate() {
        for tok in tokens {
            for n in ns {
                for m in &sets {
                    for flag in [None, Some(true), Some(false)] {
                        for body in &bodies {
                            let token = BearerToken::new(tok).unwrap();
                            let want_args = vec![d(&tok), d(&n), d(m), d(&flag), d(body)];
                            *rig.handler.ret.lock().unwrap() = "first".into();
                            judge(report, rig, "ints", &format!("all/rig{}", ri), "scalars", want_args, d(&vec!["first".to_string(), "second".to_string()]), false,
                                &|rig| EchoApiClient::new(&rig.blocking).ints(&token, n, m, flag, body).map(|v| d(&v)),
                                &|rig| block_on(AsyncEchoApiClient::new(&rig.asyncl).ints(&token, n, m, flag, body)).map(|v| d(&v)));
                        }
                    }
                }
            }
        }
    }
    // ---- unit: cookie auth + query string
    for tok in tokens {
        for s in &all {
            let token = BearerToken::new(tok).unwrap();
            judge(report, &rigs[0], "unit", "cookie+query", &class_of(&[s]), vec![d(&tok), d(s)], d(&()), false,
                &|rig| EchoApiClient::new(&rig.blocking).unit(&token, s).map(|v| d(&v)),
                &|rig| block_on(AsyncEchoApiClient::new(&rig.asyncl).unit(&token, s)).map(|v| d(&v)));
        }
    }
    // ---- renamed: path parameters whose declared names differ from the identifiers, a body
    //      with a per-endpoint size limit, the request context
    for (ri, rig) in rigs.iter().enumerate() {
        for a in &reduced {
            for b in &reduced {
                for body in ["", "b", "0123456789012345678901234567890123456789012345678901234567890x"] {
                    // 64-byte limit on the JSON document: the 61-character string needs 63 bytes
                    let seen = "seen-1";
                    let want_args = vec![d(a), d(b), d(&seen), d(&body), d(&Some(seen.to_string())), d(&true)];
                    *rig.handler.ret.lock().unwrap() = "r".into();
                    judge(report, rig, "renamed", &format!("paths+body/rig{}", ri), &class_of(&[a, b]), want_args, d(&"r"), false,
                        &|rig| EchoApiClient::new(&rig.blocking).renamed(a, b, seen, body).map(|v| d(&v)),
                        &|rig| block_on(AsyncEchoApiClient::new(&rig.asyncl).renamed(a, b, seen, body)).map(|v| d(&v)));
                }
            }
        }
        // one byte over the limit is refused without reaching the handler
        let over = "0123456789012345678901234567890123456789012345678901234567890xyz";
        report.states += 1;
        for asynch in [false, true] {
            report.evaluations += 1;
            report.transitions += 1;
            rig.handler.take();
            let got = if asynch { block_on(AsyncEchoApiClient::new(&rig.asyncl).renamed("a", "b", "s", over)).map(|_| ()) } else { EchoApiClient::new(&rig.blocking).renamed("a", "b", "s", over).map(|_| ()) };
            let calls = rig.handler.take();
            if got.is_err() && calls.is_empty() {
                report.outcome("macro:oversize-body-refused");
            } else {
                report.violation(format!("C04|macro|renamed|limit|{}|oversize-body-delivered", if asynch { "async" } else { "blocking" }), format!("a 66-byte body reached the handler of an endpoint limited to 64 bytes: {:?} / {:?}", got.is_ok(), calls), json!({"macro_endpoint": "renamed", "body_len": over.len() + 2}));
            }
        }
    }
    report.sample("macro", json!({"endpoint": "strings", "args": ["a/b", "%2F", "Some(\"x y\")", ["&", "="], "h", "None"]}));
    report.bound("macro_string_values_per_position", all.len());
}

fn run_strings(report: &mut Report, rig: &Rig, vals: &[String], ret: &str, position: &str, may_refuse: bool) {
    let list = vec![vals[3].clone()];
    let want_args = vec![d(&vals[0]), d(&vals[1]), d(&Some(vals[2].clone())), d(&list), d(&vals[4]), d(&Some(vals[5].clone()))];
    *rig.handler.ret.lock().unwrap() = ret.to_string();
    let refs: Vec<&str> = vals.iter().map(|s| s.as_str()).collect();
    let defaults = ["a", "b", "q", "l", "h", "o"];
    let changed: Vec<&str> = refs.iter().zip(defaults).filter(|(v, dflt)| **v != *dflt).map(|(v, _)| *v).collect();
    judge(report, rig, "strings", position, &class_of(&changed), want_args, d(&ret), may_refuse,
        &|rig| EchoApiClient::new(&rig.blocking).strings(&vals[0], &vals[1], Some(&vals[2]), &list, &vals[4], Some(&vals[5])).map(|v| d(&v)),
        &|rig| block_on(AsyncEchoApiClient::new(&rig.asyncl).strings(&vals[0], &vals[1], Some(&vals[2]), &list, &vals[4], Some(&vals[5]))).map(|v| d(&v)));
}
