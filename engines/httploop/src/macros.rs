//! Hand-written `#[conjure_endpoints]` / `#[conjure_client]` traits: argument names with and
//! without `log_as`, non-default decoders/encoders, safe body, literals and query keys with
//! reserved characters.

use crate::loopback::{AsyncLoop, BlockingLoop, Chunks};
use conjure_error::Error;
use conjure_http::client::{AsyncClient, AsyncService as _, Client, ConjureResponseDeserializer, DisplaySeqEncoder, Service as _};
use conjure_http::server::{AsyncService as _, ConjureRuntime, FromStrOptionDecoder, FromStrSeqDecoder, Service as _, StdResponseSerializer};
use conjure_http::{conjure_client, conjure_endpoints, endpoint};
use conjure_object::BearerToken;
use futures::executor::block_on;
use http::{HeaderMap, HeaderValue, Method};
use serde_json::json;
use std::sync::{Arc, Mutex};
use vcommon::Report;

#[derive(Clone, Default)]
pub struct MacroHandler(pub Arc<Mutex<Vec<String>>>);

impl MacroHandler {
    fn hit(&self, s: String) {
        self.0.lock().unwrap().push(s);
    }
    fn take(&self) -> Vec<String> {
        std::mem::take(&mut self.0.lock().unwrap())
    }
}

#[conjure_endpoints(name = "MacroService")]
pub trait MacroService {
    #[endpoint(method = GET, path = "/m/items/{item_id}/{count}", produces = StdResponseSerializer)]
    fn get_item(
        &self,
        #[path(safe, log_as = "itemId")] item_id: i32,
        #[path] count: i32,
        #[query(name = "q-key", decoder = FromStrOptionDecoder, log_as = "qKey")] q: Option<i32>,
        #[query(name = "n", decoder = FromStrSeqDecoder<i32>)] n: Vec<i32>,
        #[header(name = "X-Foo", log_as = "fooBar")] foo_bar: i32,
        #[header(name = "X-Plain")] plain: i32,
        #[header(name = "X-Safe-Opt", decoder = FromStrOptionDecoder, safe, log_as = "safeOpt")] safe_opt: Option<String>,
    ) -> Result<String, Error>;

    #[endpoint(method = POST, path = "/m/body")]
    fn post_body(&self, #[auth] token: BearerToken, #[query(name = "s", safe)] s: String, #[query(name = "u")] u: String, #[body(safe, log_as = "theBody")] body: i32) -> Result<(), Error>;

    #[endpoint(method = POST, path = "/m/cookie")]
    fn cookie(&self, #[auth(cookie_name = "SID")] token: BearerToken, #[body] secret: String) -> Result<(), Error>;
    // the negotiation headers declared as (non-safe) header arguments of their own
    #[endpoint(method = POST, path = "/m/typed", produces = StdResponseSerializer)]
    fn typed(&self, #[header(name = "Content-Type")] media: String, #[header(name = "Accept")] accept: String, #[body] secret: String) -> Result<String, Error>;
}

#[conjure_endpoints(name = "MacroService")]
pub trait AsyncMacroService {
    #[endpoint(method = GET, path = "/m/items/{item_id}/{count}", produces = StdResponseSerializer)]
    async fn get_item(
        &self,
        #[path(safe, log_as = "itemId")] item_id: i32,
        #[path] count: i32,
        #[query(name = "q-key", decoder = FromStrOptionDecoder, log_as = "qKey")] q: Option<i32>,
        #[query(name = "n", decoder = FromStrSeqDecoder<i32>)] n: Vec<i32>,
        #[header(name = "X-Foo", log_as = "fooBar")] foo_bar: i32,
        #[header(name = "X-Plain")] plain: i32,
        #[header(name = "X-Safe-Opt", decoder = FromStrOptionDecoder, safe, log_as = "safeOpt")] safe_opt: Option<String>,
    ) -> Result<String, Error>;

    #[endpoint(method = POST, path = "/m/body")]
    async fn post_body(&self, #[auth] token: BearerToken, #[query(name = "s", safe)] s: String, #[query(name = "u")] u: String, #[body(safe, log_as = "theBody")] body: i32) -> Result<(), Error>;

    #[endpoint(method = POST, path = "/m/cookie")]
    async fn cookie(&self, #[auth(cookie_name = "SID")] token: BearerToken, #[body] secret: String) -> Result<(), Error>;
    // the negotiation headers declared as (non-safe) header arguments of their own
    #[endpoint(method = POST, path = "/m/typed", produces = StdResponseSerializer)]
    async fn typed(&self, #[header(name = "Content-Type")] media: String, #[header(name = "Accept")] accept: String, #[body] secret: String) -> Result<String, Error>;
}

impl MacroService for MacroHandler {
    fn get_item(&self, item_id: i32, count: i32, q: Option<i32>, n: Vec<i32>, foo_bar: i32, plain: i32, safe_opt: Option<String>) -> Result<String, Error> {
        self.hit(format!("get_item({},{},{:?},{:?},{},{},{:?})", item_id, count, q, n, foo_bar, plain, safe_opt));
        Ok("ret".into())
    }
    fn post_body(&self, token: BearerToken, s: String, u: String, body: i32) -> Result<(), Error> {
        self.hit(format!("post_body({},{},{},{})", token.as_str(), s, u, body));
        Ok(())
    }
    fn cookie(&self, token: BearerToken, secret: String) -> Result<(), Error> {
        self.hit(format!("cookie({},{})", token.as_str(), secret));
        Ok(())
    }    fn typed(&self, media: String, accept: String, secret: String) -> Result<String, Error> {
        self.hit(format!("typed({},{},{})", media, accept, secret));
        Ok("ret".into())
    }
}

impl AsyncMacroService for MacroHandler {
    async fn get_item(&self, item_id: i32, count: i32, q: Option<i32>, n: Vec<i32>, foo_bar: i32, plain: i32, safe_opt: Option<String>) -> Result<String, Error> {
        self.hit(format!("get_item({},{},{:?},{:?},{},{},{:?})", item_id, count, q, n, foo_bar, plain, safe_opt));
        Ok("ret".into())
    }
    async fn post_body(&self, token: BearerToken, s: String, u: String, body: i32) -> Result<(), Error> {
        self.hit(format!("post_body({},{},{},{})", token.as_str(), s, u, body));
        Ok(())
    }
    async fn cookie(&self, token: BearerToken, secret: String) -> Result<(), Error> {
        self.hit(format!("cookie({},{})", token.as_str(), secret));
        Ok(())
    }    async fn typed(&self, media: String, accept: String, secret: String) -> Result<String, Error> {
        self.hit(format!("typed({},{},{})", media, accept, secret));
        Ok("ret".into())
    }
}

/// client side of the same definition
#[conjure_client(name = "MacroService")]
pub trait MacroApi {
    #[endpoint(method = GET, path = "/m/items/{item_id}/{count}", accept = ConjureResponseDeserializer)]
    fn get_item(
        &self,
        #[path] item_id: i32,
        #[path] count: i32,
        #[query(name = "q-key", encoder = DisplaySeqEncoder)] q: Option<i32>,
        #[query(name = "n", encoder = DisplaySeqEncoder)] n: &[i32],
        #[header(name = "X-Foo")] foo_bar: i32,
        #[header(name = "X-Plain")] plain: i32,
        #[header(name = "X-Safe-Opt", encoder = DisplaySeqEncoder)] safe_opt: Option<&str>,
    ) -> Result<String, Error>;

    #[endpoint(method = POST, path = "/m/body")]
    fn post_body(&self, #[auth] token: &BearerToken, #[query(name = "s")] s: &str, #[query(name = "u")] u: &str, #[body] body: i32) -> Result<(), Error>;

    #[endpoint(method = POST, path = "/m/cookie")]
    fn cookie(&self, #[auth(cookie_name = "SID")] token: &BearerToken, #[body] secret: &str) -> Result<(), Error>;
}

#[conjure_client(name = "MacroService")]
pub trait AsyncMacroApi {
    #[endpoint(method = GET, path = "/m/items/{item_id}/{count}", accept = ConjureResponseDeserializer)]
    async fn get_item(
        &self,
        #[path] item_id: i32,
        #[path] count: i32,
        #[query(name = "q-key", encoder = DisplaySeqEncoder)] q: Option<i32>,
        #[query(name = "n", encoder = DisplaySeqEncoder)] n: &[i32],
        #[header(name = "X-Foo")] foo_bar: i32,
        #[header(name = "X-Plain")] plain: i32,
        #[header(name = "X-Safe-Opt", encoder = DisplaySeqEncoder)] safe_opt: Option<&str>,
    ) -> Result<String, Error>;

    #[endpoint(method = POST, path = "/m/body")]
    async fn post_body(&self, #[auth] token: &BearerToken, #[query(name = "s")] s: &str, #[query(name = "u")] u: &str, #[body] body: i32) -> Result<(), Error>;
}

/// literals and query keys containing characters of every encode-set level (C07)
#[conjure_client(name = "Weird")]
pub trait WeirdApi {
    #[endpoint(method = GET, path = "/w/a b/{p}/x%y/{r}/q?z/h#i/{s}/end&=+,;")]
    fn weird(&self, #[path] p: &str, #[path] r: &str, #[path] s: &str, #[query(name = "k&=y")] a: &str, #[query(name = "p q#r+s%t?u/v")] b: &str, #[query(name = "plain")] c: &str) -> Result<(), Error>;
}

pub struct MacroRig {
    pub handler: MacroHandler,
    pub blocking: BlockingLoop,
    pub asyncl: AsyncLoop,
}

impl MacroRig {
    pub fn new() -> MacroRig {
        let handler = MacroHandler::default();
        let rt = Arc::new(ConjureRuntime::new());
        let blocking = BlockingLoop::new(MacroServiceEndpoints::new(handler.clone()).endpoints(&rt));
        let asyncl = AsyncLoop::new(AsyncMacroServiceEndpoints::new(handler.clone()).endpoints(&rt));
        MacroRig { handler, blocking, asyncl }
    }
}

fn param_of(e: &Error) -> Option<String> {
    e.safe_params().iter().find(|(k, _)| *k == "param").and_then(|(_, v)| v.clone().deserialize_into::<String>().ok())
}

pub struct RawReq {
    pub method: Method,
    pub uri: &'static str,
    pub headers: Vec<(&'static str, Vec<u8>)>,
    pub body: Vec<u8>,
}

pub fn send_raw(rig: &MacroRig, req: &RawReq, asynch: bool) -> (Result<(), Error>, Vec<String>, Option<conjure_http::SafeParams>) {
    rig.handler.take();
    let mut headers = HeaderMap::new();
    for (k, v) in &req.headers {
        headers.append(http::HeaderName::from_bytes(k.as_bytes()).unwrap(), HeaderValue::from_bytes(v).unwrap());
    }
    let uri: http::Uri = req.uri.parse().unwrap();
    let (res, sp) = if asynch {
        let r = block_on(rig.asyncl.dispatch(req.method.clone(), uri, headers, req.body.clone())).map(|_| ());
        (r, rig.asyncl.last.lock().unwrap().safe_params.take())
    } else {
        let r = rig.blocking.dispatch(req.method.clone(), uri, headers, req.body.clone()).map(|_| ());
        (r, rig.blocking.last.lock().unwrap().safe_params.take())
    };
    (res, rig.handler.take(), sp)
}

/// C19 on the macro-derived service: (request, expected: None = success, Some((code, param)))
pub fn c19(r: &mut Report) {
    let rig = MacroRig::new();
    let ok_headers = || vec![("x-foo", b"5".to_vec()), ("x-plain", b"6".to_vec())];
    let mut cases: Vec<(&'static str, RawReq, Option<(&'static str, Option<&'static str>)>)> = vec![];
    let get = |uri: &'static str, headers: Vec<(&'static str, Vec<u8>)>| RawReq { method: Method::GET, uri, headers, body: vec![] };
    cases.push(("valid", get("/m/items/1/2?q-key=3&n=4&n=5", ok_headers()), None));
    cases.push(("valid-minimal", get("/m/items/1/2", ok_headers()), None));
    cases.push(("path log_as unparsable", get("/m/items/x1/2", ok_headers()), Some(("INVALID_ARGUMENT", Some("itemId")))));
    cases.push(("path default name unparsable", get("/m/items/1/x2", ok_headers()), Some(("INVALID_ARGUMENT", Some("count")))));
    cases.push(("query log_as unparsable", get("/m/items/1/2?q-key=zz", ok_headers()), Some(("INVALID_ARGUMENT", Some("qKey")))));
    cases.push(("query log_as repeated", get("/m/items/1/2?q-key=1&q-key=2", ok_headers()), Some(("INVALID_ARGUMENT", Some("qKey")))));
    cases.push(("query seq element unparsable", get("/m/items/1/2?n=1&n=x", ok_headers()), Some(("INVALID_ARGUMENT", Some("n")))));
    cases.push(("header log_as unparsable", get("/m/items/1/2", vec![("x-foo", b"five".to_vec()), ("x-plain", b"6".to_vec())]), Some(("INVALID_ARGUMENT", Some("fooBar")))));
    cases.push(("header log_as absent", get("/m/items/1/2", vec![("x-plain", b"6".to_vec())]), Some(("INVALID_ARGUMENT", Some("fooBar")))));
    cases.push(("header log_as repeated", get("/m/items/1/2", vec![("x-foo", b"5".to_vec()), ("x-foo", b"5".to_vec()), ("x-plain", b"6".to_vec())]), Some(("INVALID_ARGUMENT", Some("fooBar")))));
    cases.push(("header log_as not text", get("/m/items/1/2", vec![("x-foo", b"5\xff".to_vec()), ("x-plain", b"6".to_vec())]), Some(("INVALID_ARGUMENT", Some("fooBar")))));
    cases.push(("header default name unparsable", get("/m/items/1/2", vec![("x-foo", b"5".to_vec()), ("x-plain", b"six".to_vec())]), Some(("INVALID_ARGUMENT", Some("plain")))));
    cases.push(("header default name absent", get("/m/items/1/2", vec![("x-foo", b"5".to_vec())]), Some(("INVALID_ARGUMENT", Some("plain")))));
    cases.push(("optional header not text", get("/m/items/1/2", vec![("x-foo", b"5".to_vec()), ("x-plain", b"6".to_vec()), ("x-safe-opt", b"a\xff\xfe".to_vec())]), Some(("INVALID_ARGUMENT", Some("safeOpt")))));
    cases.push(("required header twice, once as opaque bytes", get("/m/items/1/2", vec![("x-foo", b"5".to_vec()), ("x-foo", b"\xff\xfe".to_vec()), ("x-plain", b"6".to_vec())]), Some(("INVALID_ARGUMENT", Some("fooBar")))));
    cases.push(("required header twice, opaque bytes first", get("/m/items/1/2", vec![("x-foo", b"\xff".to_vec()), ("x-foo", b"5".to_vec()), ("x-plain", b"6".to_vec())]), Some(("INVALID_ARGUMENT", Some("fooBar")))));
    cases.push(("optional header twice, once as opaque bytes", get("/m/items/1/2", vec![("x-foo", b"5".to_vec()), ("x-plain", b"6".to_vec()), ("x-safe-opt", b"a".to_vec()), ("x-safe-opt", b"\xe9".to_vec())]), Some(("INVALID_ARGUMENT", Some("safeOpt")))));
    cases.push(("optional header repeated", get("/m/items/1/2", vec![("x-foo", b"5".to_vec()), ("x-plain", b"6".to_vec()), ("x-safe-opt", b"a".to_vec()), ("x-safe-opt", b"b".to_vec())]), Some(("INVALID_ARGUMENT", Some("safeOpt")))));
    // present-but-empty values: undecodable for the integer arguments, fine for strings
    cases.push(("query log_as empty", get("/m/items/1/2?q-key=", ok_headers()), Some(("INVALID_ARGUMENT", Some("qKey")))));
    cases.push(("query log_as bare key", get("/m/items/1/2?q-key", ok_headers()), Some(("INVALID_ARGUMENT", Some("qKey")))));
    cases.push(("query seq empty among values", get("/m/items/1/2?n=1&n=&n=3", ok_headers()), Some(("INVALID_ARGUMENT", Some("n")))));
    cases.push(("query seq only empty", get("/m/items/1/2?n=", ok_headers()), Some(("INVALID_ARGUMENT", Some("n")))));
    cases.push(("header log_as empty", get("/m/items/1/2", vec![("x-foo", b"".to_vec()), ("x-plain", b"6".to_vec())]), Some(("INVALID_ARGUMENT", Some("fooBar")))));
    cases.push(("header default name empty", get("/m/items/1/2", vec![("x-foo", b"5".to_vec()), ("x-plain", b"".to_vec())]), Some(("INVALID_ARGUMENT", Some("plain")))));
    cases.push(("path look-alike +5", get("/m/items/1/%2B-5", ok_headers()), Some(("INVALID_ARGUMENT", Some("count")))));
    cases.push(("path look-alike 1.0", get("/m/items/1.0/2", ok_headers()), Some(("INVALID_ARGUMENT", Some("itemId")))));
    cases.push(("unknown query keys are ignored", get("/m/items/1/2?zz=1&q-key=3&Q-KEY=x&n=4", ok_headers()), None));
    let post = |uri: &'static str, headers: Vec<(&'static str, Vec<u8>)>, body: &'static str| RawReq { method: Method::POST, uri, headers, body: body.as_bytes().to_vec() };
    let auth = || ("authorization", b"Bearer tok".to_vec());
    let json_ct = || ("content-type", b"application/json".to_vec());
    cases.push(("valid post", post("/m/body?s=a&u=b", vec![auth(), json_ct()], "7"), None));
    cases.push(("auth absent", post("/m/body?s=a&u=b", vec![json_ct()], "7"), Some(("PERMISSION_DENIED", None))));
    cases.push(("auth wrong scheme", post("/m/body?s=a&u=b", vec![("authorization", b"Basic tok".to_vec()), json_ct()], "7"), Some(("PERMISSION_DENIED", None))));
    cases.push(("auth empty token", post("/m/body?s=a&u=b", vec![("authorization", b"Bearer ".to_vec()), json_ct()], "7"), Some(("PERMISSION_DENIED", None))));
    cases.push(("auth bad token", post("/m/body?s=a&u=b", vec![("authorization", b"Bearer a b".to_vec()), json_ct()], "7"), Some(("PERMISSION_DENIED", None))));
    cases.push(("auth token with interior =", post("/m/body?s=a&u=b", vec![("authorization", b"Bearer abc=def".to_vec()), json_ct()], "7"), Some(("PERMISSION_DENIED", None))));
    cases.push(("auth token only padding", post("/m/body?s=a&u=b", vec![("authorization", b"Bearer ==".to_vec()), json_ct()], "7"), Some(("PERMISSION_DENIED", None))));
    cases.push(("auth lower-case scheme", post("/m/body?s=a&u=b", vec![("authorization", b"bearer tok".to_vec()), json_ct()], "7"), Some(("PERMISSION_DENIED", None))));
    cases.push(("auth padded token", post("/m/body?s=a&u=b", vec![("authorization", b"Bearer YWJj==".to_vec()), json_ct()], "7"), None));
    cases.push(("string query empty", post("/m/body?s=&u=", vec![auth(), json_ct()], "7"), None));
    cases.push(("cookie token with interior =", post("/m/cookie", vec![("cookie", b"SID=user=admin".to_vec()), json_ct()], "\"s\""), Some(("PERMISSION_DENIED", None))));
    cases.push(("cookie padded token", post("/m/cookie", vec![("cookie", b"SID=YWJj==".to_vec()), json_ct()], "\"s\""), None));
    cases.push(("query absent", post("/m/body?u=b", vec![auth(), json_ct()], "7"), Some(("INVALID_ARGUMENT", Some("s")))));
    cases.push(("query repeated", post("/m/body?s=a&s=a&u=b", vec![auth(), json_ct()], "7"), Some(("INVALID_ARGUMENT", Some("s")))));
    cases.push(("cookie valid", post("/m/cookie", vec![("cookie", b"SID=tok".to_vec()), json_ct()], "\"s\""), None));
    cases.push(("cookie wrong name", post("/m/cookie", vec![("cookie", b"OTHER=tok".to_vec()), json_ct()], "\"s\""), Some(("PERMISSION_DENIED", None))));
    cases.push(("cookie absent", post("/m/cookie", vec![json_ct()], "\"s\""), Some(("PERMISSION_DENIED", None))));
    for (name, req, want) in &cases {
        r.states += 1;
        for asynch in [false, true] {
            r.evaluations += 1;
            r.transitions += 1;
            let flavour = if asynch { "async" } else { "blocking" };
            let got = vcommon::catch(|| send_raw(&rig, req, asynch));
            let case = json!({"macro_case": name, "flavour": flavour, "uri": req.uri});
            let sig = |k: &str| format!("C19|macro|{}|{}|{}", flavour, k, name);
            match (got, want) {
                (Err(p), _) => r.violation(sig("panic"), format!("macro service, {}: panicked: {}", name, p), case),
                (Ok((Ok(()), calls, _)), None) if calls.len() == 1 => r.outcome("macro:valid-request-handled"),
                (Ok((res, calls, _)), None) => r.violation(sig("valid-request-rejected"), format!("macro service, {}: result {:?}, handler calls {:?}", name, res.err().map(|e| e.cause().to_string()), calls), case),
                (Ok((Ok(()), calls, _)), Some(_)) => r.violation(sig("undecodable-request-accepted"), format!("macro service, {}: request succeeded, handler calls {:?}", name, calls), case),
                (Ok((Err(e), calls, _)), Some((code, param))) => {
                    let got_code = crate::reqs::error_code(&e);
                    let got_param = param_of(&e);
                    if !calls.is_empty() {
                        r.violation(sig("handler-invoked"), format!("macro service, {}: handler invoked {:?}", name, calls), case.clone());
                    }
                    if got_code != *code {
                        r.violation(sig("wrong-error-code"), format!("macro service, {}: code {} expected {}", name, got_code, code), case.clone());
                    } else if param.is_some() && got_param.as_deref() != *param {
                        r.violation(sig("wrong-param-name"), format!("macro service, {}: error names param {:?}, the declared (log_as) name is {:?}", name, got_param, param), case.clone());
                    } else {
                        r.outcome("macro:rejected-naming-the-declared-argument");
                    }
                }
            }
        }
    }
}

/// capturing client for URI inspection of the macro client (C07)
pub struct Capture(pub Mutex<Option<(String, HeaderMap)>>);

impl Client for &Capture {
    type BodyWriter = Vec<u8>;
    type ResponseBody = Chunks;
    fn send(&self, req: http::Request<conjure_http::client::RequestBody<'_, Vec<u8>>>) -> Result<http::Response<Chunks>, Error> {
        *self.0.lock().unwrap() = Some((req.uri().to_string(), req.headers().clone()));
        let mut resp = http::Response::new(Chunks::default());
        *resp.status_mut() = http::StatusCode::NO_CONTENT;
        Ok(resp)
    }
}

pub fn weird_uri(p: &str, r: &str, s: &str, a: &str, b: &str, c: &str) -> Result<String, String> {
    let cap = Capture(Mutex::new(None));
    let client = WeirdApiClient::new(&cap);
    vcommon::catch(|| client.weird(p, r, s, a, b, c)).and_then(|x| x.map_err(|e| e.cause().to_string()))?;
    let got = cap.0.lock().unwrap().take();
    got.map(|g| g.0).ok_or_else(|| "no request sent".to_string())
}

pub fn macro_clients<'a>(rig: &'a MacroRig) -> (MacroApiClient<&'a BlockingLoop>, AsyncMacroApiClient<&'a AsyncLoop>) {
    (MacroApiClient::new(&rig.blocking), AsyncMacroApiClient::new(&rig.asyncl))
}

#[allow(dead_code)]
fn _assert_traits<C: Client, A: AsyncClient>() {}
