//! E3b — loopback harness: generated + macro clients <-> generated + macro endpoints.
#[allow(dead_code, unused_imports, clippy::all)]
pub mod gen {
    include!(concat!(env!("OUT_DIR"), "/conjure/mod.rs"));
}
mod c04;
mod c04m;
mod c04s;
mod c06l;
mod c07l;
mod c09;
mod c18l;
mod c19;
mod handler;
mod loopback;
mod macros;
mod reqs;
#[path = "../../httpdirect/src/script.rs"]
mod script;

use vcommon::{Args, Report};

fn main() {
    let args = Args::parse();
    vcommon::quiet_panics();
    let report: Report = match args.property.as_str() {
        "C04" => c04::run(&args),
        "C06" => c06l::run(&args),
        "C07" => c07l::run(&args),
        "C09" => c09::run(&args),
        "C18" => c18l::run(&args),
        "C19" => c19::run(&args),
        other => panic!("httploop: unknown property {}", other),
    };
    report.write(&args.out);
}
