//! C19 — undecodable request parameters yield a client error naming the declared argument.

use crate::c04::Rig;
use crate::loopback::Options;
use crate::reqs::{self, corrupts, EndpointD, Kind, St};
use serde_json::json;
use vcommon::{Args, Report};

fn param_of(e: &conjure_error::Error) -> Option<String> {
    e.safe_params().iter().find(|(k, _)| *k == "param").and_then(|(_, v)| v.clone().deserialize_into::<String>().ok())
}

pub fn check(r: &mut Report, rig: &Rig, e: &EndpointD, states: &[St]) {
    r.states += 1;
    let built = reqs::build(e, states);
    let corrupted: Vec<&reqs::ArgD> = e.args.iter().zip(states).filter(|(a, s)| corrupts(a, **s)).map(|(a, _)| a).collect();
    let is_auth = |a: &reqs::ArgD| matches!(a.kind, Kind::AuthHeader | Kind::AuthCookie(_));
    let class = if corrupted.is_empty() {
        "none".to_string()
    } else {
        e.args.iter().zip(states).filter(|(a, s)| corrupts(a, **s)).map(|(a, s)| format!("{}:{:?}", a.declared, s)).collect::<Vec<_>>().join("+")
    };
    for asynch in [false, true] {
        r.evaluations += 1;
        r.transitions += 1;
        let flavour = if asynch { "async" } else { "blocking" };
        let obs = reqs::send(rig, &built, asynch);
        let case = json!({"endpoint": e.name, "states": states.iter().map(|s| format!("{:?}", s)).collect::<Vec<_>>(), "flavour": flavour, "uri": built.uri.to_string()});
        let sig = |k: &str| format!("C19|{}|{}|{}|{}", e.name, flavour, k, class);
        if let Some(p) = &obs.panicked {
            r.violation(sig("panic"), format!("{} {} panicked: {}", e.name, built.uri, p), case);
            continue;
        }
        if corrupted.is_empty() {
            match &obs.result {
                Ok(()) if obs.calls == 1 => r.outcome("all-arguments-decode:handler-invoked"),
                Ok(()) => r.violation(sig("handler-invocations"), format!("{} {}: every argument decodes but the handler was invoked {} times", e.name, built.uri, obs.calls), case),
                Err(err) => r.violation(sig("valid-request-rejected"), format!("{} {}: every argument decodes but the endpoint returned {} ({:?}, param {:?})", e.name, built.uri, reqs::error_code(err), err.cause().to_string(), param_of(err)), case),
            }
            continue;
        }
        match &obs.result {
            Ok(()) => r.violation(sig("undecodable-request-accepted"), format!("{} {}: arguments {} cannot be decoded but the endpoint succeeded (handler invoked {} times)", e.name, built.uri, class, obs.calls), case),
            Err(err) => {
                if obs.calls != 0 {
                    r.violation(sig("handler-invoked"), format!("{} {}: the handler was invoked although {} cannot be decoded", e.name, built.uri, class), case.clone());
                }
                let code = reqs::error_code(err);
                let all_auth = corrupted.iter().all(|a| is_auth(a));
                let any_auth = corrupted.iter().any(|a| is_auth(a));
                let code_ok = match (all_auth, any_auth) {
                    (true, _) => code == "PERMISSION_DENIED",
                    (false, true) => code == "PERMISSION_DENIED" || code == "INVALID_ARGUMENT",
                    (false, false) => code == "INVALID_ARGUMENT",
                };
                if !code_ok {
                    r.violation(sig("wrong-error-code"), format!("{} {}: {} undecodable, error code is {}", e.name, built.uri, class, code), case.clone());
                    continue;
                }
                if code == "INVALID_ARGUMENT" {
                    let allowed: Vec<&str> = corrupted.iter().filter(|a| !is_auth(a)).map(|a| a.declared).collect();
                    let must_name = corrupted.iter().any(|a| matches!(a.kind, Kind::Path | Kind::Query(_) | Kind::Header(_)));
                    match param_of(err) {
                        Some(p) if allowed.contains(&p.as_str()) => r.outcome("rejected:INVALID_ARGUMENT-naming-the-declared-argument"),
                        Some(p) => r.violation(sig("wrong-param-name"), format!("{} {}: {} undecodable, error names param {:?}, declared names are {:?}", e.name, built.uri, class, p, allowed), case.clone()),
                        None if must_name => r.violation(sig("no-param-name"), format!("{} {}: {} undecodable, the error has no safe `param` entry", e.name, built.uri, class), case.clone()),
                        None => r.outcome("rejected:INVALID_ARGUMENT (body only)"),
                    }
                } else {
                    r.outcome("rejected:PERMISSION_DENIED");
                }
            }
        }
    }
}

/// percent-encode everything outside the unreserved set (the raw request stays a valid URI)
fn pct(s: &str) -> String {
    s.bytes().map(|b| if b.is_ascii_alphanumeric() || b"-._~".contains(&b) { (b as char).to_string() } else { format!("%{:02X}", b) }).collect()
}

pub fn run(args: &Args) -> Report {
    let mut report = Report::new("C19", "exploration");
    let rig = Rig::new(Options::default);
    let eps = reqs::endpoints();
    let max_dev = args.tier.pick(2usize, 5usize);
    for e in &eps {
        for states in reqs::assignments(e, max_dev) {
            check(&mut report, &rig, e, &states);
        }
        // every subset of arguments corrupted at once (first corrupting state of each)
        let n = e.args.len();
        for mask in 0u32..(1 << n) {
            if (mask.count_ones() as usize) <= max_dev {
                continue;
            }
            let states: Vec<St> = e.args.iter().enumerate().map(|(i, a)| if mask & (1 << i) != 0 { reqs::states_of(a).into_iter().find(|s| corrupts(a, *s)).unwrap_or(St::Valid) } else { St::Valid }).collect();
            check(&mut report, &rig, e, &states);
        }
    }
    // look-alike texts outside each type's grammar (relaxed datetimes, signed / hex / float
    // integers, out-of-range safelongs, ...), one argument at a time, others valid
    for e in &eps {
        for (i, a) in e.args.iter().enumerate() {
            if matches!(a.kind, reqs::Kind::Body) {
                continue;
            }
            // unusual texts inside the grammar: every argument decodes, the handler runs
            for alt in &a.valid_alts {
                let visible = alt.bytes().all(|b| (0x20..0x7f).contains(&b));
                if !matches!(a.kind, reqs::Kind::Path | reqs::Kind::Query(_)) && !visible {
                    continue;
                }
                // an empty path segment is another route; `%` alone is not a URI
                if matches!(a.kind, reqs::Kind::Path) && alt.is_empty() {
                    continue;
                }
                let mut e2 = e.clone();
                e2.args[i].valid = match a.kind {
                    reqs::Kind::Path | reqs::Kind::Query(_) => pct(alt),
                    _ => alt.to_string(),
                };
                let states: Vec<St> = vec![St::Valid; e.args.len()];
                check(&mut report, &rig, &e2, &states);
            }
            for alt in &a.bad_alts {
                if matches!(a.kind, reqs::Kind::Header(_)) && !alt.bytes().all(|b| (0x20..0x7f).contains(&b)) {
                    continue;
                }
                let mut e2 = e.clone();
                e2.args[i].bad = match a.kind {
                    // keep the URI well-formed
                    reqs::Kind::Path | reqs::Kind::Query(_) => pct(alt),
                    _ => alt.to_string(),
                };
                let states: Vec<St> = (0..e.args.len()).map(|j| if j == i { St::Unparsable } else { St::Valid }).collect();
                check(&mut report, &rig, &e2, &states);
            }
        }
    }
    // the macro-derived services (names with and without log_as)
    crate::macros::c19(&mut report);
    report.sample("subset", json!({"endpoint": "queryParams", "states": ["Valid", "Unparsable", "Valid", "Valid", "Unparsable", "Valid", "Valid", "Absent", "Valid"], "expect": "INVALID_ARGUMENT, param in {optInt, colors, flag}, handler not invoked"}));
    report.sample("auth", json!({"endpoint": "safeMix", "states": ["EmptyToken", "Valid", "..."], "expect": "PERMISSION_DENIED"}));
    report.bound("max_simultaneous_deviations_with_all_kinds", max_dev);
    report.bound("all_subsets", "every subset of arguments corrupted (one kind each)");
    report.bound("endpoints", json!(eps.iter().map(|e| e.name).collect::<Vec<_>>()));
    report.nontrivial = report.states;
    report.rule = "states = (endpoint, one state per argument out of valid / absent / repeated / unparsable / invalid text / wrong auth scheme / empty token): every assignment with at most k arguments away from valid, plus every subset of arguments corrupted; each sent raw to the generated blocking and async endpoint. Argument names include camelCase and keyword names whose Rust spelling differs from the declared one".into();
    report.assumptions.push("when several arguments are undecodable the error may name any of them; when auth and other arguments are both undecodable either code is accepted".into());
    report.assumptions.push("percent-escapes that are not UTF-8 in a *string* path parameter are decoded lossily by design and are not judged".into());
    report
}
