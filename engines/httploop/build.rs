use std::env;
use std::path::PathBuf;

fn main() {
    let input = "../../ir/http.json";
    println!("cargo:rerun-if-changed={}", input);
    let output = PathBuf::from(env::var_os("OUT_DIR").unwrap()).join("conjure");
    let _ = std::fs::remove_dir_all(&output);
    conjure_codegen::Config::new()
        .strip_prefix("com.verif.http".to_string())
        .generate_files(input, output)
        .expect("code generation failed for ir/http.json");
}
