//! C05 (serde part) — servers reject and clients ignore unknown object fields at every
//! nesting depth. Injection is done at the (Shape, Val) level: the k-th struct node of the
//! shape gets an extra field (first / between / last) holding an arbitrary value; the
//! augmented pair is serialized, and the bytes are read back under the *original* shape.

use crate::c01::{json_de_paths, smile_de_paths};
use crate::dynamic::{val_eq, with_shape, Leaf, Shape, Typed, Val};
use crate::space;
use crate::twins;
use rayon::prelude::*;
use serde_json::json;
use vcommon::{Args, Report};

/// (label, shape, value) of the injected JSON values: null, true, 0, -1.5, "s", [],
/// [1,[2]], {}, {"a":{"b":[null]}}, and an object repeating a declared field name
fn injected_values() -> Vec<(&'static str, Shape, Val)> {
    let i32s = Shape::Leaf(Leaf::I32);
    vec![
        ("null", Shape::opt(i32s.clone()), Val::None),
        ("true", Shape::Leaf(Leaf::Bool), Val::Bool(true)),
        ("0", i32s.clone(), Val::I32(0)),
        ("-1.5", Shape::Leaf(Leaf::F64), Val::F64(-1.5)),
        ("\"s\"", Shape::Leaf(Leaf::Str), Val::Str("s".into())),
        ("[]", Shape::seq(i32s.clone()), Val::Seq(vec![])),
        (
            "[1,[2]]",
            Shape::Tuple(vec![i32s.clone(), Shape::seq(i32s.clone())]),
            Val::Seq(vec![Val::I32(1), Val::Seq(vec![Val::I32(2)])]),
        ),
        ("{}", Shape::map(Leaf::Str, i32s.clone()), Val::Map(vec![])),
        (
            "{\"a\":{\"b\":[null]}}",
            Shape::Struct("X", vec![("a", Shape::Struct("Y", vec![("b", Shape::seq(Shape::opt(i32s.clone())))]))]),
            Val::Struct(vec![Val::Struct(vec![Val::Seq(vec![Val::None])])]),
        ),
        ("{\"a\":1,\"b\":2}", Shape::Struct("Z", vec![("a", i32s.clone()), ("b", i32s.clone())]), Val::Struct(vec![Val::I32(1), Val::I32(2)])),
        ("NaN-double", Shape::Leaf(Leaf::F64), Val::F64(f64::NAN)),
        ("binary", Shape::Leaf(Leaf::Bytes), Val::Bytes(vec![1, 2, 3])),
    ]
}

fn count_structs(s: &Shape) -> usize {
    match s {
        Shape::Leaf(_) => 0,
        Shape::Option(i) | Shape::Seq(i) | Shape::Map(_, i) | Shape::NewtypeStruct(_, i) | Shape::RichEnum(i) => count_structs(i),
        Shape::Struct(_, fs) => 1 + fs.iter().map(|f| count_structs(&f.1)).sum::<usize>(),
        Shape::Tuple(fs) | Shape::TupleStruct(_, fs) => fs.iter().map(count_structs).sum(),
    }
}

struct Injection<'a> {
    target: usize,
    /// index at which the new field is inserted among the declared fields
    at: usize,
    name: &'static str,
    shape: &'a Shape,
    val: &'a Val,
}

/// returns the augmented (shape, val) and how many object instances received the field
fn augment(s: &Shape, v: &Val, counter: &mut usize, inj: &Injection, hits: &mut usize) -> (Shape, Val) {
    match (s, v) {
        (Shape::Leaf(_), _) => (s.clone(), v.clone()),
        (Shape::Option(i), Val::None) => {
            // still walk the shape so that struct numbering is stable
            let (si, _) = augment_shape_only(i, counter, inj);
            (Shape::opt(si), Val::None)
        }
        (Shape::Option(i), Val::Some(x)) => {
            let (si, vi) = augment(i, x, counter, inj, hits);
            (Shape::opt(si), Val::Some(Box::new(vi)))
        }
        (Shape::Seq(i), Val::Seq(items)) => {
            let start = *counter;
            let mut shape_out = None;
            let mut vals = vec![];
            for it in items {
                *counter = start;
                let (si, vi) = augment(i, it, counter, inj, hits);
                shape_out = Some(si);
                vals.push(vi);
            }
            let si = match shape_out {
                Some(s) => s,
                None => augment_shape_only(i, counter, inj).0,
            };
            (Shape::seq(si), Val::Seq(vals))
        }
        (Shape::Map(k, i), Val::Map(entries)) => {
            let start = *counter;
            let mut shape_out = None;
            let mut vals = vec![];
            for (kk, it) in entries {
                *counter = start;
                let (si, vi) = augment(i, it, counter, inj, hits);
                shape_out = Some(si);
                vals.push((kk.clone(), vi));
            }
            let si = match shape_out {
                Some(s) => s,
                None => augment_shape_only(i, counter, inj).0,
            };
            (Shape::map(*k, si), Val::Map(vals))
        }
        (Shape::NewtypeStruct(name, i), x) => {
            let (si, vi) = augment(i, x, counter, inj, hits);
            (Shape::NewtypeStruct(name, Box::new(si)), vi)
        }
        (Shape::RichEnum(i), Val::Variant(idx, vals)) => {
            // payload variants (newtype / tuple / struct) carry the inner shape as their first item
            if *idx == 0 {
                let (si, _) = augment_shape_only(i, counter, inj);
                (Shape::RichEnum(Box::new(si)), v.clone())
            } else {
                let (si, vi) = augment(i, &vals[0], counter, inj, hits);
                let mut nv = vals.clone();
                nv[0] = vi;
                (Shape::RichEnum(Box::new(si)), Val::Variant(*idx, nv))
            }
        }
        (Shape::Struct(name, fs), Val::Struct(vals)) => {
            let me = *counter;
            *counter += 1;
            let mut nf = vec![];
            let mut nv = vec![];
            for ((fname, fshape), fv) in fs.iter().zip(vals) {
                let (si, vi) = augment(fshape, fv, counter, inj, hits);
                nf.push((*fname, si));
                nv.push(vi);
            }
            if me == inj.target {
                let at = inj.at.min(nf.len());
                nf.insert(at, (inj.name, inj.shape.clone()));
                nv.insert(at, inj.val.clone());
                *hits += 1;
            }
            (Shape::Struct(name, nf), Val::Struct(nv))
        }
        (Shape::Tuple(fs), Val::Seq(vals)) | (Shape::TupleStruct(_, fs), Val::Seq(vals)) => {
            let mut nf = vec![];
            let mut nv = vec![];
            for (fshape, fv) in fs.iter().zip(vals) {
                let (si, vi) = augment(fshape, fv, counter, inj, hits);
                nf.push(si);
                nv.push(vi);
            }
            let shape = match s {
                Shape::TupleStruct(name, _) => Shape::TupleStruct(name, nf),
                _ => Shape::Tuple(nf),
            };
            (shape, Val::Seq(nv))
        }
        _ => panic!("augment: unsupported shape {:?}", s),
    }
}

fn augment_shape_only(s: &Shape, counter: &mut usize, inj: &Injection) -> (Shape, ()) {
    let out = match s {
        Shape::Leaf(_) => s.clone(),
        Shape::Option(i) => Shape::opt(augment_shape_only(i, counter, inj).0),
        Shape::Seq(i) => Shape::seq(augment_shape_only(i, counter, inj).0),
        Shape::Map(k, i) => Shape::map(*k, augment_shape_only(i, counter, inj).0),
        Shape::NewtypeStruct(name, i) => Shape::NewtypeStruct(name, Box::new(augment_shape_only(i, counter, inj).0)),
        Shape::RichEnum(i) => Shape::RichEnum(Box::new(augment_shape_only(i, counter, inj).0)),
        Shape::Struct(name, fs) => {
            let me = *counter;
            *counter += 1;
            let mut nf: Vec<(&'static str, Shape)> = fs.iter().map(|(n, f)| (*n, augment_shape_only(f, counter, inj).0)).collect();
            if me == inj.target {
                let at = inj.at.min(nf.len());
                nf.insert(at, (inj.name, inj.shape.clone()));
            }
            Shape::Struct(name, nf)
        }
        Shape::Tuple(fs) => Shape::Tuple(fs.iter().map(|f| augment_shape_only(f, counter, inj).0).collect()),
        Shape::TupleStruct(name, fs) => Shape::TupleStruct(name, fs.iter().map(|f| augment_shape_only(f, counter, inj).0).collect()),
    };
    (out, ())
}

fn is_server(path: &str) -> bool {
    path.to_lowercase().contains("server")
}

struct Doc {
    json: Vec<u8>,
    smile: Vec<u8>,
}

fn render(shape: &Shape, val: &Val) -> Option<Doc> {
    let t = Typed(shape, val);
    Some(Doc { json: conjure_serde::json::to_vec(&t).ok()?, smile: conjure_serde::smile::to_vec(&t).ok()? })
}

fn judge(r: &mut Report, shape: &Shape, original: &Val, names: &[&str], label: &str, doc: &Doc, kind: &str) {
    let st = shape.text();
    let results: Vec<(&'static str, Result<Val, String>)> = with_shape(shape, || {
        let mut v = json_de_paths(&doc.json);
        v.extend(smile_de_paths(&doc.smile));
        v
    });
    for (path, got) in results {
        r.evaluations += 1;
        r.transitions += 1;
        let case = json!({"shape": st, "value": format!("{:?}", original), "injected": label, "fields": names, "path": path, "json": String::from_utf8_lossy(&doc.json)});
        let fmt = if path.starts_with("json") { "json" } else { "smile" };
        if is_server(path) {
            match got {
                Err(e) if names.iter().any(|n| e.contains(&format!("`{}`", n))) => r.outcome("server:rejected-naming-field"),
                Err(e) => r.violation(
                    format!("C05|{}|server-error-does-not-name-field|{}|{}", fmt, kind, st),
                    format!("{}: {} rejected {} with {:?}, which names none of {:?}", st, path, String::from_utf8_lossy(&doc.json), e, names),
                    case,
                ),
                Ok(v) => r.violation(
                    format!("C05|{}|server-accepted-unknown-field|{}|{}", fmt, kind, st),
                    format!("{}: {} accepted {} (unknown field {:?} = {}) as {:?}", st, path, String::from_utf8_lossy(&doc.json), names, label, v),
                    case,
                ),
            }
        } else {
            match got {
                Ok(v) if val_eq(&v, original) => r.outcome("client:ignored"),
                Ok(v) => r.violation(
                    format!("C05|{}|client-value-changed|{}|{}", fmt, kind, st),
                    format!("{}: {} read {} as {:?}, expected {:?}", st, path, String::from_utf8_lossy(&doc.json), v, original),
                    case,
                ),
                Err(e) => r.violation(
                    format!("C05|{}|client-rejected-unknown-field|{}|{}", fmt, kind, st),
                    format!("{}: {} rejected {} (unknown field {:?} = {}): {}", st, path, String::from_utf8_lossy(&doc.json), names, label, e),
                    case,
                ),
            }
        }
    }
}

fn check_shape(shape: &Shape, thorough: bool, r: &mut Report) {
    let n = count_structs(shape);
    if n == 0 {
        return;
    }
    let injected = injected_values();
    let vals = if thorough { space::values(shape, 1) } else { vec![space::default_val(shape)].into_iter().chain(space::one_hot(shape).into_iter().take(6)).collect() };
    for val in &vals {
        // precondition: the un-injected document is read back as the value by client and server
        let base = match render(shape, val) {
            Some(d) => d,
            None => continue,
        };
        let ok = with_shape(shape, || {
            let a = conjure_serde::json::server_from_slice::<crate::dynamic::DynOut>(&base.json).map(|d| d.0);
            let b = conjure_serde::smile::server_from_slice::<crate::dynamic::DynOut>(&base.smile).map(|d| d.0);
            matches!((a, b), (Ok(x), Ok(y)) if val_eq(&x, val) && val_eq(&y, val))
        });
        if !ok {
            r.outcome("precondition-failed (C01's business)");
            continue;
        }
        for target in 0..n {
            for (pos, name) in [(0usize, "zFirst"), (1, "be\"tween\u{e9}"), (usize::MAX, "last_one")] {
                for (label, ishape, ival) in &injected {
                    let inj = Injection { target, at: pos, name, shape: ishape, val: ival };
                    let mut hits = 0;
                    let (s2, v2) = augment(shape, val, &mut 0, &inj, &mut hits);
                    if hits == 0 {
                        r.outcome("no-object-instance-in-value");
                        continue;
                    }
                    r.states += 1;
                    if let Some(doc) = render(&s2, &v2) {
                        judge(r, shape, val, &[name], label, &doc, "one");
                    }
                }
            }
            // two injections: same object, and (if any) a second struct node
            for second in 0..n {
                let a = Injection { target, at: 0, name: "extraOne", shape: &injected[4].1, val: &injected[4].2 };
                let mut hits = 0;
                let (s2, v2) = augment(shape, val, &mut 0, &a, &mut hits);
                if hits == 0 {
                    continue;
                }
                let b = Injection { target: second, at: usize::MAX, name: "extraTwo", shape: &injected[8].1, val: &injected[8].2 };
                let mut hits2 = 0;
                let (s3, v3) = augment(&s2, &v2, &mut 0, &b, &mut hits2);
                if hits2 == 0 {
                    continue;
                }
                r.states += 1;
                if let Some(doc) = render(&s3, &v3) {
                    judge(r, shape, val, &["extraOne", "extraTwo"], "two", &doc, "two");
                }
            }
        }
    }
}

/// the undeclared member's *name* as a dimension of its own: lengths around every plausible
/// buffer size, names that need escapes (so no reader can borrow them), non-ASCII, empty,
/// look-alikes of declared names — in the root object, below a list, below a map value, below
/// a newtype; first and last position; every path (str / slice / reader, JSON and Smile)
fn name_catalogue() -> Vec<&'static str> {
    let leak = |s: String| -> &'static str { Box::leak(s.into_boxed_str()) };
    let mut out: Vec<&'static str> = vec!["", " ", "A", "aa", "a ", "b\u{0}", "a\nb", "tab\there", "quo\"te", "back\\slash", "gr\u{f6}\u{df}e", "\u{10000}", "type", "a.b", "a/b", "a`b`"];
    for n in [15usize, 16, 31, 32, 33, 63, 64, 65, 66, 127, 128, 129, 200, 255, 256, 257, 1000, 4095, 4096, 4097, 70000] {
        out.push(leak(format!("n{}", "x".repeat(n - 1))));
    }
    // long and not borrowable (an escape in the middle), long and non-ASCII
    out.push(leak(format!("{}\"{}", "q".repeat(40), "r".repeat(40))));
    out.push(leak(format!("{}\n{}", "q".repeat(64), "r".repeat(64))));
    out.push(leak("\u{e9}".repeat(40)));
    out.push(leak("\u{20ac}".repeat(30)));
    out
}

fn check_names(r: &mut Report) {
    let i32s = Shape::Leaf(Leaf::I32);
    let obj = Shape::Struct("S", vec![("a", i32s.clone()), ("b", i32s.clone())]);
    let shapes = vec![
        obj.clone(),
        Shape::seq(obj.clone()),
        Shape::map(Leaf::Str, obj.clone()),
        Shape::opt(obj.clone()),
        Shape::NewtypeStruct("NT", Box::new(obj.clone())),
        Shape::Struct("O", vec![("inner", obj.clone()), ("z", i32s.clone())]),
    ];
    let injected = injected_values();
    for shape in &shapes {
        let val = space::default_val(shape);
        let val = space::one_hot(shape).into_iter().next().unwrap_or(val);
        let n = count_structs(shape);
        for name in name_catalogue() {
            for target in 0..n {
                for pos in [0usize, usize::MAX] {
                    let inj = Injection { target, at: pos, name, shape: &injected[4].1, val: &injected[4].2 };
                    let mut hits = 0;
                    let (s2, v2) = augment(shape, &val, &mut 0, &inj, &mut hits);
                    if hits == 0 {
                        continue;
                    }
                    r.states += 1;
                    if let Some(doc) = render(&s2, &v2) {
                        judge(r, shape, &val, &[name], "name-dimension", &doc, "name");
                    }
                }
            }
        }
    }
}

/// two object types of one name (the same definition in two packages or API versions) with
/// different members, read one after the other on one thread in both orders, bare and nested:
/// what is declared is decided per type, not per name
fn same_named(r: &mut Report) {
    let i32s = Shape::Leaf(Leaf::I32);
    let wide = Shape::Struct("Request", vec![("id", i32s.clone()), ("note", i32s.clone())]);
    let narrow = Shape::Struct("Request", vec![("id", i32s.clone())]);
    let wrap: Vec<(&str, fn(Shape) -> Shape, fn(Val) -> Val)> = vec![
        ("bare", |s| s, |v| v),
        ("list", |s| Shape::seq(s), |v| Val::Seq(vec![v.clone(), v])),
        ("field", |s| Shape::Struct("Holder", vec![("inner", s), ("z", Shape::Leaf(Leaf::I32))]), |v| Val::Struct(vec![v, Val::I32(3)])),
        ("map-value", |s| Shape::map(Leaf::Str, s), |v| Val::Map(vec![(Val::Str("k".into()), v)])),
    ];
    for (how, w, wval) in &wrap {
        for wide_first in [true, false] {
            let (ws, ns) = (w(wide.clone()), w(narrow.clone()));
            let wv = wval(Val::Struct(vec![Val::I32(1), Val::I32(2)]));
            let nv = strip_note(&ws, &wv);
            let Some(doc) = render(&ws, &wv) else { continue };
            r.states += 1;
            let read_wide = |r: &mut Report| {
                let results: Vec<(&'static str, Result<Val, String>)> = with_shape(&ws, || {
                    let mut v = json_de_paths(&doc.json);
                    v.extend(smile_de_paths(&doc.smile));
                    v
                });
                for (path, got) in results {
                    r.evaluations += 1;
                    match got {
                        Ok(v) if val_eq(&v, &wv) => r.outcome("same-name:declared-member-read"),
                        other => r.violation(format!("C05|same-named-types|declared-member-lost|{}", how), format!("{}: {} read its own document {} as {:?}", ws.text(), path, String::from_utf8_lossy(&doc.json), other), json!({"shape": "", "injected": "same-named", "how": how, "wide_first": wide_first})),
                    }
                }
            };
            if wide_first {
                read_wide(r);
            }
            judge(r, &ns, &nv, &["note"], "same-named", &doc, &format!("same-name:{}:{}", how, if wide_first { "after-the-wider-type" } else { "before-the-wider-type" }));
            if !wide_first {
                read_wide(r);
            }
        }
    }
}

/// the value of the narrow twin: the same value without the `note` member
fn strip_note(s: &Shape, v: &Val) -> Val {
    match (s, v) {
        (Shape::Struct("Request", _), Val::Struct(vals)) => Val::Struct(vals[..1].to_vec()),
        (Shape::Struct(_, fs), Val::Struct(vals)) => Val::Struct(fs.iter().zip(vals).map(|(f, v)| strip_note(&f.1, v)).collect()),
        (Shape::Seq(i), Val::Seq(vs)) => Val::Seq(vs.iter().map(|v| strip_note(i, v)).collect()),
        (Shape::Map(_, i), Val::Map(kv)) => Val::Map(kv.iter().map(|(k, v)| (k.clone(), strip_note(i, v))).collect()),
        (_, v) => v.clone(),
    }
}

pub fn shape_space(args: &Args) -> Vec<Shape> {
    use crate::dynamic::CONJURE_LEAVES;
    // leaves reduced to the ones with distinct wrapper behaviour; keys to three kinds
    let leaves = [Leaf::I32, Leaf::F64, Leaf::Bytes, Leaf::Str, Leaf::Uuid];
    let keys = [Leaf::Str, Leaf::F64, Leaf::Enum];
    let depth = args.tier.pick(3, 4);
    let mut shapes: Vec<Shape> = space::shapes_up_to(depth, if args.tier.is_thorough() { &CONJURE_LEAVES } else { &leaves }, &keys).into_iter().filter(|s| count_structs(s) > 0).collect();
    // structs with 0, 1 and 4 fields at the root and nested
    let i32s = Shape::Leaf(Leaf::I32);
    shapes.push(Shape::Struct("E", vec![]));
    shapes.push(Shape::Struct("One", vec![("only", i32s.clone())]));
    shapes.push(Shape::Struct("Four", vec![("a", i32s.clone()), ("b", Shape::opt(i32s.clone())), ("c", Shape::seq(Shape::Struct("E", vec![]))), ("d", Shape::Leaf(Leaf::Str))]));
    shapes.push(Shape::seq(Shape::Struct("E", vec![])));
    // serde-derived (non-transparent) newtype structs as alias-like wrappers: around the
    // root, and between a container and the object
    let obj = Shape::Struct("S", vec![("a", i32s.clone()), ("b", i32s.clone())]);
    let nt = |s: Shape| Shape::NewtypeStruct("NT", Box::new(s));
    shapes.push(nt(obj.clone()));
    shapes.push(nt(nt(obj.clone())));
    shapes.push(Shape::opt(nt(obj.clone())));
    shapes.push(Shape::seq(nt(obj.clone())));
    shapes.push(Shape::map(Leaf::Str, nt(obj.clone())));
    shapes.push(nt(Shape::seq(obj.clone())));
    shapes.push(nt(Shape::map(Leaf::F64, Shape::opt(obj.clone()))));
    shapes.push(Shape::Struct("S", vec![("a", nt(Shape::opt(nt(obj.clone())))), ("b", i32s.clone())]));
    // serde-derived externally tagged enums (hand-written types of macro-based services):
    // objects below newtype / tuple / struct variant payloads
    let en = |s: Shape| Shape::RichEnum(Box::new(s));
    shapes.push(en(obj.clone()));
    shapes.push(en(Shape::Struct("E", vec![])));
    shapes.push(Shape::seq(en(obj.clone())));
    shapes.push(Shape::opt(en(obj.clone())));
    shapes.push(Shape::map(Leaf::Str, en(obj.clone())));
    shapes.push(en(Shape::seq(obj.clone())));
    shapes.push(en(Shape::opt(obj.clone())));
    shapes.push(en(en(obj.clone())));
    shapes.push(nt(en(obj.clone())));
    shapes.push(Shape::Struct("S", vec![("a", en(obj.clone())), ("b", i32s.clone())]));
    shapes.push(en(Shape::Struct("S", vec![("a", en(obj.clone())), ("b", i32s.clone())])));
    // serde tuples and tuple structs as nesting contexts (as the document root, as a struct
    // member - the server's per-field wrapper forwards deserialize_tuple / _tuple_struct -, below
    // collections)
    let tup = |fs: Vec<Shape>| Shape::Tuple(fs);
    let ts = |fs: Vec<Shape>| Shape::TupleStruct("TS", fs);
    shapes.push(tup(vec![obj.clone(), i32s.clone()]));
    shapes.push(ts(vec![i32s.clone(), obj.clone()]));
    shapes.push(Shape::Struct("S", vec![("a", tup(vec![obj.clone(), obj.clone()])), ("b", i32s.clone())]));
    shapes.push(Shape::Struct("S", vec![("a", ts(vec![obj.clone(), i32s.clone()])), ("b", i32s.clone())]));
    shapes.push(Shape::seq(tup(vec![i32s.clone(), obj.clone()])));
    shapes.push(Shape::map(Leaf::Str, ts(vec![obj.clone()])));
    shapes.push(Shape::opt(tup(vec![obj.clone()])));
    shapes.push(tup(vec![Shape::seq(obj.clone()), Shape::opt(obj.clone())]));
    shapes
}

pub fn run(args: &Args) -> Report {
    let mut report = Report::new("C05", "model_checking");
    let shapes = shape_space(args);
    if let Some(path) = &args.replay {
        let v = vcommon::load_replay(path);
        let want = v["case"]["shape"].as_str().unwrap_or("").to_string();
        let all = shape_space(&Args { tier: vcommon::Tier::Thorough, ..args.clone() });
        for s in all.iter().filter(|s| s.text() == want) {
            check_shape(s, true, &mut report);
        }
        if want.is_empty() {
            static_twins(&mut report);
        }
        if v["case"]["injected"] == "name-dimension" {
            check_names(&mut report);
        }
        if v["case"]["injected"] == "same-named" {
            same_named(&mut report);
        }
        report.exhaustive = false;
        return report;
    }
    let thorough = args.tier.is_thorough();
    let total = shapes
        .par_iter()
        .fold(
            || Report::new("C05", "model_checking"),
            |mut r, shape| {
                check_shape(shape, thorough, &mut r);
                if shape.depth() >= 2 {
                    r.sample(&format!("depth{}", shape.depth()), json!({"shape": shape.text(), "injected_values": injected_values().iter().map(|x| x.0).collect::<Vec<_>>()}));
                }
                r
            },
        )
        .reduce(|| Report::new("C05", "model_checking"), |mut a, b| {
            a.merge(b);
            a
        });
    report.merge(total);
    static_twins(&mut report);
    check_names(&mut report);
    same_named(&mut report);
    report.extra.insert("shapes_with_objects".into(), json!(shapes.len()));
    report.bound("depth", args.tier.pick(3, 4));
    report.bound("positions", json!(["first", "between", "last"]));
    report.bound("injections", json!([1, 2]));
    report.nontrivial = report.states;
    report.rule = "states = (shape with >= 1 object node, value, object node, insertion position, injected value) and pairs of injections; the augmented value is serialized and read back under the original shape by every client/server x JSON/Smile x source path; a state is counted only when at least one object instance in the document actually received the field".into();
    report.assumptions.push("the un-injected document must round-trip (else the case is skipped as C01's business)".into());
    report.assumptions.push("serde's positional-array form of a struct is out of scope; struct variants are covered as containers of objects, not as injection targets".into());
    report
}

// ------------------------------------------------------------------ derive-based twins

fn twin_case<T: twins::Twin>(name: &str, r: &mut Report) {
    let shape = T::shape();
    let n = count_structs(&shape);
    let injected = injected_values();
    for val in space::values(&shape, 0) {
        let t = T::from_val(&val);
        let norm = t.to_val();
        for target in 0..n {
            for (pos, fname) in [(0usize, "zFirst"), (usize::MAX, "last_one")] {
                for (label, ishape, ival) in &injected {
                    let inj = Injection { target, at: pos, name: fname, shape: ishape, val: ival };
                    let mut hits = 0;
                    let (s2, v2) = augment(&shape, &norm, &mut 0, &inj, &mut hits);
                    if hits == 0 {
                        continue;
                    }
                    let doc = match render(&s2, &v2) {
                        Some(d) => d,
                        None => continue,
                    };
                    r.states += 1;
                    let text = String::from_utf8_lossy(&doc.json).into_owned();
                    let case = json!({"twin": name, "json": text, "injected": label});
                    let paths: Vec<(&str, bool, Result<Val, String>)> = vec![
                        ("json:client_from_slice", false, conjure_serde::json::client_from_slice::<T>(&doc.json).map(|x| x.to_val()).map_err(|e| e.to_string())),
                        ("json:server_from_slice", true, conjure_serde::json::server_from_slice::<T>(&doc.json).map(|x| x.to_val()).map_err(|e| e.to_string())),
                        ("json:server_from_reader", true, conjure_serde::json::server_from_reader::<_, T>(&doc.json[..]).map(|x| x.to_val()).map_err(|e| e.to_string())),
                        ("smile:client_from_slice", false, conjure_serde::smile::client_from_slice::<T>(&doc.smile).map(|x| x.to_val()).map_err(|e| e.to_string())),
                        ("smile:server_from_slice", true, conjure_serde::smile::server_from_slice::<T>(&doc.smile).map(|x| x.to_val()).map_err(|e| e.to_string())),
                    ];
                    for (path, server, got) in paths {
                        r.evaluations += 1;
                        r.transitions += 1;
                        let ok = if server {
                            matches!(&got, Err(e) if e.contains(&format!("`{}`", fname)))
                        } else {
                            matches!(&got, Ok(v) if val_eq(v, &norm))
                        };
                        if ok {
                            r.outcome(if server { "static:server-rejected" } else { "static:client-ignored" });
                        } else {
                            r.violation(
                                format!("C05|static|{}|{}|{}", if server { "server" } else { "client" }, path, name),
                                format!("derive type {}: {} on {} (unknown field {} = {}) gave {:?}", name, path, text, fname, label, got),
                                case.clone(),
                            );
                        }
                    }
                }
            }
        }
    }
}

fn static_twins(r: &mut Report) {
    use conjure_object::{Bytes, DoubleKey, Uuid};
    use std::collections::{BTreeMap, BTreeSet};
    use twins::{Alias, S};
    twin_case::<S<f64>>("S<f64>", r);
    twin_case::<S<Bytes>>("S<Bytes>", r);
    twin_case::<S<Option<S<Uuid>>>>("S<Option<S<Uuid>>>", r);
    twin_case::<Vec<S<BTreeMap<bool, Bytes>>>>("Vec<S<BTreeMap<bool,Bytes>>>", r);
    twin_case::<BTreeMap<DoubleKey, S<f64>>>("BTreeMap<DoubleKey,S<f64>>", r);
    twin_case::<BTreeSet<S<i32>>>("BTreeSet<S<i32>>", r);
    twin_case::<twins::NT<S<f64>>>("NT<S<f64>>", r);
    twin_case::<Vec<twins::NT<S<Option<twins::NT<S<i32>>>>>>>("Vec<NT<S<Option<NT<S<i32>>>>>>", r);
    twin_case::<BTreeMap<String, twins::NT<S<f64>>>>("BTreeMap<String,NT<S<f64>>>", r);
    twin_case::<Option<Vec<Option<S<S<i32>>>>>>("Option<Vec<Option<S<S<i32>>>>>", r);
    twin_case::<Alias<S<Alias<Vec<Alias<S<f64>>>>>>>("Alias<S<Alias<Vec<Alias<S<f64>>>>>>", r);
    twin_case::<BTreeMap<String, BTreeMap<String, S<Option<f64>>>>>("BTreeMap<String,BTreeMap<String,S<Option<f64>>>>", r);
}
