//! Independent checkers: does a plain-JSON / plain-Smile tree carry `(shape, val)` in the
//! Conjure encoding the statement prescribes? (No conjure-serde code involved: the trees
//! come from plain serde_json / serde_smile.)

use crate::dynamic::{Leaf, Shape, Val, ENUM_VARIANTS};
use serde_json::Value as J;
use serde_smile::value::Value as Sm;
use vcommon::cmodel;

fn key_text_ok(k: Leaf, v: &Val, s: &str, smile: bool) -> Result<(), String> {
    let ok = match (k, v) {
        (Leaf::Str, Val::Str(x)) | (Leaf::Rid, Val::Rid(x)) | (Leaf::Token, Val::Token(x)) => s == x,
        (Leaf::I32, Val::I32(x)) => s == cmodel::decimal(*x as i128),
        (Leaf::I64, Val::I64(x)) => s == cmodel::decimal(*x as i128),
        (Leaf::F64, Val::F64(x)) => cmodel::double_text_ok(s, *x),
        (Leaf::Bool, Val::Bool(b)) => s == if *b { "true" } else { "false" },
        (Leaf::Uuid, Val::Uuid(u)) => s == cmodel::uuid(*u),
        (Leaf::DateTime, Val::DateTime(secs, n)) => cmodel::parse_rfc3339(s).map(|(a, b, _)| (a, b)) == Some((*secs, *n)),
        (Leaf::Bytes, Val::Bytes(b)) => s == cmodel::base64(b),
        (Leaf::Enum, Val::Enum(i)) => s == ENUM_VARIANTS[*i as usize],
        _ => return Err(format!("key kind {:?} not modelled", k)),
    };
    let _ = smile;
    if ok {
        Ok(())
    } else {
        Err(format!("map key {:?} of kind {:?} spelled {:?}", v, k, s))
    }
}

pub fn json_matches(shape: &Shape, val: &Val, j: &J) -> Result<(), String> {
    let bad = |what: &str| Err(format!("{} for {} value {:?}: got {}", what, shape.text(), val, j));
    match (shape, val) {
        (Shape::Leaf(l), v) => {
            let ok = match (l, v, j) {
                (Leaf::Bool, Val::Bool(b), J::Bool(x)) => b == x,
                (Leaf::I32, Val::I32(x), J::Number(n)) => n.as_i64() == Some(*x as i64) && !n.is_f64(),
                (Leaf::I64, Val::I64(x), J::Number(n)) => n.as_i64() == Some(*x) && !n.is_f64(),
                (Leaf::F64, Val::F64(x), J::Number(n)) => x.is_finite() && n.as_f64().map(|f| f.to_bits()) == Some(x.to_bits()),
                (Leaf::F64, Val::F64(x), J::String(s)) => !x.is_finite() && cmodel::double_text_ok(s, *x),
                (Leaf::Str, Val::Str(x), J::String(s)) | (Leaf::Rid, Val::Rid(x), J::String(s)) | (Leaf::Token, Val::Token(x), J::String(s)) => x == s,
                (Leaf::Bytes, Val::Bytes(b), J::String(s)) => *s == cmodel::base64(b),
                (Leaf::Uuid, Val::Uuid(u), J::String(s)) => *s == cmodel::uuid(*u),
                (Leaf::DateTime, Val::DateTime(secs, n), J::String(s)) => cmodel::parse_rfc3339(s).map(|(a, b, _)| (a, b)) == Some((*secs, *n)),
                (Leaf::Enum, Val::Enum(i), J::String(s)) => s == ENUM_VARIANTS[*i as usize],
                _ => false,
            };
            if ok {
                Ok(())
            } else {
                bad("wrong leaf encoding")
            }
        }
        (Shape::Option(_), Val::None) => {
            if j.is_null() {
                Ok(())
            } else {
                bad("absent optional not null")
            }
        }
        (Shape::Option(i), Val::Some(v)) => json_matches(i, v, j),
        (Shape::Seq(i), Val::Seq(items)) => match j {
            J::Array(a) if a.len() == items.len() => {
                for (v, x) in items.iter().zip(a) {
                    json_matches(i, v, x)?;
                }
                Ok(())
            }
            _ => bad("list is not an array of the same length"),
        },
        (Shape::Map(k, i), Val::Map(entries)) => match j {
            J::Object(o) if o.len() == entries.len() => {
                // serde_json's Map (preserve_order off) sorts keys: match by model key text
                for (kv, vv) in entries {
                    let mut found = false;
                    // fast path for the one key kind used by the many-entries cases
                    if let Val::I32(n) = kv {
                        if let Some((ks, x)) = o.get_key_value(&n.to_string()) {
                            if key_text_ok(*k, kv, ks, false).is_ok() {
                                json_matches(i, vv, x)?;
                                continue;
                            }
                        }
                    }
                    for (ks, x) in o {
                        if key_text_ok(*k, kv, ks, false).is_ok() {
                            json_matches(i, vv, x)?;
                            found = true;
                            break;
                        }
                    }
                    if !found {
                        return Err(format!("no object member spells key {:?} ({:?}) in {}", kv, k, j));
                    }
                }
                Ok(())
            }
            _ => bad("map is not an object with one member per entry"),
        },
        (Shape::Struct(_, fs), Val::Struct(vals)) => match j {
            J::Object(o) if o.len() == fs.len() => {
                for ((name, sh), v) in fs.iter().zip(vals) {
                    match o.get(*name) {
                        Some(x) => json_matches(sh, v, x)?,
                        None => return Err(format!("field {} missing in {}", name, j)),
                    }
                }
                Ok(())
            }
            _ => bad("struct is not an object with exactly its fields"),
        },
        _ => Err("shape outside the Conjure model".into()),
    }
}

pub fn smile_matches(shape: &Shape, val: &Val, root: bool, j: &Sm) -> Result<(), String> {
    let bad = |what: &str| Err(format!("{} for {} value {:?}: got {:?}", what, shape.text(), val, j));
    match (shape, val) {
        (Shape::Leaf(l), v) => {
            let ok = match (l, v, j) {
                (Leaf::Bool, Val::Bool(b), Sm::Boolean(x)) => b == x,
                (Leaf::I32, Val::I32(x), Sm::Integer(n)) => x == n,
                (Leaf::I64, Val::I64(x), Sm::Long(n)) => x == n,
                (Leaf::I64, Val::I64(x), Sm::Integer(n)) => *x == *n as i64,
                // floats natively, including the non-finite ones
                (Leaf::F64, Val::F64(x), Sm::Double(n)) => (x.is_nan() && n.is_nan()) || x.to_bits() == n.to_bits(),
                (Leaf::Str, Val::Str(x), Sm::String(s)) | (Leaf::Rid, Val::Rid(x), Sm::String(s)) | (Leaf::Token, Val::Token(x), Sm::String(s)) => x == s,
                // binary natively
                (Leaf::Bytes, Val::Bytes(b), Sm::Binary(s)) => b == s,
                // the statement does not fix the Smile form of a uuid value: raw or text
                (Leaf::Uuid, Val::Uuid(u), Sm::Binary(s)) => s.as_slice() == u.to_be_bytes(),
                (Leaf::Uuid, Val::Uuid(u), Sm::String(s)) => *s == cmodel::uuid(*u),
                (Leaf::DateTime, Val::DateTime(secs, n), Sm::String(s)) => cmodel::parse_rfc3339(s).map(|(a, b, _)| (a, b)) == Some((*secs, *n)),
                (Leaf::Enum, Val::Enum(i), Sm::String(s)) => s == ENUM_VARIANTS[*i as usize],
                _ => false,
            };
            let _ = root;
            if ok {
                Ok(())
            } else {
                bad("wrong Smile leaf encoding")
            }
        }
        (Shape::Option(_), Val::None) => {
            if matches!(j, Sm::Null) {
                Ok(())
            } else {
                bad("absent optional not null")
            }
        }
        (Shape::Option(i), Val::Some(v)) => smile_matches(i, v, false, j),
        (Shape::Seq(i), Val::Seq(items)) => match j {
            Sm::Array(a) if a.len() == items.len() => {
                for (v, x) in items.iter().zip(a) {
                    smile_matches(i, v, false, x)?;
                }
                Ok(())
            }
            _ => bad("list is not an array of the same length"),
        },
        (Shape::Map(k, i), Val::Map(entries)) => match j {
            Sm::Object(o) if o.len() == entries.len() => {
                for ((kv, vv), (ks, x)) in entries.iter().zip(o.iter()) {
                    key_text_ok(*k, kv, ks, true)?;
                    smile_matches(i, vv, false, x)?;
                }
                Ok(())
            }
            _ => bad("map is not an object with one member per entry"),
        },
        (Shape::Struct(_, fs), Val::Struct(vals)) => match j {
            Sm::Object(o) if o.len() == fs.len() => {
                for ((name, sh), v) in fs.iter().zip(vals) {
                    match o.get(*name) {
                        Some(x) => smile_matches(sh, v, false, x)?,
                        None => return Err(format!("field {} missing in {:?}", name, j)),
                    }
                }
                Ok(())
            }
            _ => bad("struct is not an object with exactly its fields"),
        },
        _ => Err("shape outside the Conjure model".into()),
    }
}
