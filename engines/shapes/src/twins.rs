//! Static "twins": real Rust types built from #[derive(Serialize, Deserialize)], std
//! collections and conjure-object types. They bind the dynamic engine to reality (the
//! dynamic `(Shape, Val)` must produce the same bytes and the same accept/reject as the
//! derive/std impls) and are themselves verdict-bearing round-trip cases (sets included).

use crate::dynamic::{datetime_of, val_eq, with_shape, DynOut, Leaf, Shape, Typed, Val};
use crate::space;
use conjure_object::chrono::{DateTime, Utc};
use conjure_object::{BearerToken, Bytes, DoubleKey, ResourceIdentifier, SafeLong, Uuid};
use serde::de::DeserializeOwned;
use serde::{Deserialize, Serialize};
use serde_json::json;
use std::collections::{BTreeMap, BTreeSet};
use vcommon::Report;

pub trait Twin: Serialize + DeserializeOwned {
    fn shape() -> Shape;
    fn from_val(v: &Val) -> Self;
    fn to_val(&self) -> Val;
}

macro_rules! leaf_twin {
    ($t:ty, $leaf:expr, $from:expr, $to:expr) => {
        impl Twin for $t {
            fn shape() -> Shape {
                Shape::Leaf($leaf)
            }
            fn from_val(v: &Val) -> Self {
                #[allow(clippy::redundant_closure_call)]
                ($from)(v)
            }
            fn to_val(&self) -> Val {
                #[allow(clippy::redundant_closure_call)]
                ($to)(self)
            }
        }
    };
}

leaf_twin!(bool, Leaf::Bool, |v: &Val| match v { Val::Bool(b) => *b, _ => panic!() }, |s: &bool| Val::Bool(*s));
leaf_twin!(i32, Leaf::I32, |v: &Val| match v { Val::I32(b) => *b, _ => panic!() }, |s: &i32| Val::I32(*s));
leaf_twin!(SafeLong, Leaf::I64, |v: &Val| match v { Val::I64(b) => SafeLong::new(*b).unwrap(), _ => panic!() }, |s: &SafeLong| Val::I64(**s));
leaf_twin!(f64, Leaf::F64, |v: &Val| match v { Val::F64(b) => *b, _ => panic!() }, |s: &f64| Val::F64(*s));
leaf_twin!(DoubleKey, Leaf::F64, |v: &Val| match v { Val::F64(b) => DoubleKey(*b), _ => panic!() }, |s: &DoubleKey| Val::F64(s.0));
leaf_twin!(String, Leaf::Str, |v: &Val| match v { Val::Str(b) => b.clone(), _ => panic!() }, |s: &String| Val::Str(s.clone()));
leaf_twin!(Bytes, Leaf::Bytes, |v: &Val| match v { Val::Bytes(b) => Bytes::copy_from_slice(b), _ => panic!() }, |s: &Bytes| Val::Bytes(s.to_vec()));
leaf_twin!(Uuid, Leaf::Uuid, |v: &Val| match v { Val::Uuid(b) => Uuid::from_u128(*b), _ => panic!() }, |s: &Uuid| Val::Uuid(s.as_u128()));
leaf_twin!(ResourceIdentifier, Leaf::Rid, |v: &Val| match v { Val::Rid(b) => ResourceIdentifier::new(b).unwrap(), _ => panic!() }, |s: &ResourceIdentifier| Val::Rid(s.as_str().to_string()));
leaf_twin!(BearerToken, Leaf::Token, |v: &Val| match v { Val::Token(b) => BearerToken::new(b).unwrap(), _ => panic!() }, |s: &BearerToken| Val::Token(s.as_str().to_string()));
leaf_twin!(DateTime<Utc>, Leaf::DateTime, |v: &Val| match v { Val::DateTime(a, b) => datetime_of(*a, *b), _ => panic!() }, |s: &DateTime<Utc>| Val::DateTime(s.timestamp(), s.timestamp_subsec_nanos()));

#[derive(Serialize, Deserialize, Debug, Clone, Copy, PartialEq, Eq, PartialOrd, Ord)]
pub enum DynEnum {
    ONE,
    TWO,
    THREE,
}

leaf_twin!(DynEnum, Leaf::Enum, |v: &Val| match v { Val::Enum(0) => DynEnum::ONE, Val::Enum(1) => DynEnum::TWO, Val::Enum(_) => DynEnum::THREE, _ => panic!() }, |s: &DynEnum| Val::Enum(*s as u32));

/// serde_bytes::ByteBuf: the other way Rust code carries binary
impl Twin for serde_bytes::ByteBuf {
    fn shape() -> Shape {
        Shape::Leaf(Leaf::Bytes)
    }
    fn from_val(v: &Val) -> Self {
        match v {
            Val::Bytes(b) => serde_bytes::ByteBuf::from(b.clone()),
            _ => panic!(),
        }
    }
    fn to_val(&self) -> Val {
        Val::Bytes(self.to_vec())
    }
}

impl<T: Twin> Twin for Option<T> {
    fn shape() -> Shape {
        Shape::opt(T::shape())
    }
    fn from_val(v: &Val) -> Self {
        match v {
            Val::None => None,
            Val::Some(x) => Some(T::from_val(x)),
            _ => panic!(),
        }
    }
    fn to_val(&self) -> Val {
        match self {
            None => Val::None,
            Some(x) => Val::Some(Box::new(x.to_val())),
        }
    }
}

impl<T: Twin> Twin for Vec<T> {
    fn shape() -> Shape {
        Shape::seq(T::shape())
    }
    fn from_val(v: &Val) -> Self {
        match v {
            Val::Seq(x) => x.iter().map(T::from_val).collect(),
            _ => panic!(),
        }
    }
    fn to_val(&self) -> Val {
        Val::Seq(self.iter().map(|x| x.to_val()).collect())
    }
}

impl<T: Twin + Ord> Twin for BTreeSet<T> {
    fn shape() -> Shape {
        Shape::seq(T::shape())
    }
    fn from_val(v: &Val) -> Self {
        match v {
            Val::Seq(x) => x.iter().map(T::from_val).collect(),
            _ => panic!(),
        }
    }
    fn to_val(&self) -> Val {
        Val::Seq(self.iter().map(|x| x.to_val()).collect())
    }
}

impl<K: Twin + Ord, V: Twin> Twin for BTreeMap<K, V> {
    fn shape() -> Shape {
        match K::shape() {
            Shape::Leaf(l) => Shape::map(l, V::shape()),
            _ => panic!("map key must be a leaf"),
        }
    }
    fn from_val(v: &Val) -> Self {
        match v {
            Val::Map(x) => x.iter().map(|(k, v)| (K::from_val(k), V::from_val(v))).collect(),
            _ => panic!(),
        }
    }
    fn to_val(&self) -> Val {
        Val::Map(self.iter().map(|(k, v)| (k.to_val(), v.to_val())).collect())
    }
}

/// the grammar's struct{a: S, b: i32}, via derive
#[derive(Serialize, Deserialize, Debug, Clone, PartialEq, Eq, PartialOrd, Ord)]
#[serde(bound(deserialize = "T: DeserializeOwned"))]
pub struct S<T> {
    pub a: T,
    pub b: i32,
}

impl<T: Twin> Twin for S<T> {
    fn shape() -> Shape {
        Shape::Struct("S", vec![("a", T::shape()), ("b", Shape::Leaf(Leaf::I32))])
    }
    fn from_val(v: &Val) -> Self {
        match v {
            Val::Struct(x) => S { a: T::from_val(&x[0]), b: i32::from_val(&x[1]) },
            _ => panic!(),
        }
    }
    fn to_val(&self) -> Val {
        Val::Struct(vec![self.a.to_val(), self.b.to_val()])
    }
}

/// an alias-like transparent newtype, as generated aliases are
#[derive(Serialize, Deserialize, Debug, Clone, PartialEq, Eq, PartialOrd, Ord)]
#[serde(transparent, bound(deserialize = "T: DeserializeOwned"))]
pub struct Alias<T>(pub T);

impl<T: Twin> Twin for Alias<T> {
    fn shape() -> Shape {
        T::shape()
    }
    fn from_val(v: &Val) -> Self {
        Alias(T::from_val(v))
    }
    fn to_val(&self) -> Val {
        self.0.to_val()
    }
}

/// a serde-derived newtype struct that is *not* transparent
#[derive(Serialize, Deserialize, Debug, Clone, PartialEq, Eq, PartialOrd, Ord)]
#[serde(bound(deserialize = "T: DeserializeOwned"))]
pub struct NT<T>(pub T);

impl<T: Twin> Twin for NT<T> {
    fn shape() -> Shape {
        Shape::NewtypeStruct("NT", Box::new(T::shape()))
    }
    fn from_val(v: &Val) -> Self {
        NT(T::from_val(v))
    }
    fn to_val(&self) -> Val {
        self.0.to_val()
    }
}

pub struct TwinCase {
    pub name: &'static str,
    pub run: fn(&mut Report, &mut dyn FnMut(&mut Report, &str, &Shape, &Val, TwinView)),
}

/// what a static twin did with one value
pub struct TwinView {
    pub json: Result<Vec<u8>, String>,
    pub smile: Result<Vec<u8>, String>,
    /// static round trip per deserializer path: Ok(value as Val) / Err
    pub json_back: Vec<(&'static str, Result<Val, String>)>,
    pub smile_back: Vec<(&'static str, Result<Val, String>)>,
    pub normalized: Val,
}

fn view<T: Twin>(v: &Val) -> TwinView {
    let t = T::from_val(v);
    let normalized = t.to_val();
    let json = conjure_serde::json::to_vec(&t).map_err(|e| e.to_string());
    let smile = conjure_serde::smile::to_vec(&t).map_err(|e| e.to_string());
    let mut json_back = vec![];
    if let Ok(j) = &json {
        let s = std::str::from_utf8(j).unwrap_or("");
        json_back.push(("json:client_from_str", conjure_serde::json::client_from_str::<T>(s).map(|x| x.to_val()).map_err(|e| e.to_string())));
        json_back.push(("json:server_from_str", conjure_serde::json::server_from_str::<T>(s).map(|x| x.to_val()).map_err(|e| e.to_string())));
        json_back.push(("json:client_from_slice", conjure_serde::json::client_from_slice::<T>(j).map(|x| x.to_val()).map_err(|e| e.to_string())));
        json_back.push(("json:server_from_reader", conjure_serde::json::server_from_reader::<_, T>(&j[..]).map(|x| x.to_val()).map_err(|e| e.to_string())));
    }
    let mut smile_back = vec![];
    if let Ok(b) = &smile {
        smile_back.push(("smile:client_from_slice", conjure_serde::smile::client_from_slice::<T>(b).map(|x| x.to_val()).map_err(|e| e.to_string())));
        smile_back.push(("smile:server_from_slice", conjure_serde::smile::server_from_slice::<T>(b).map(|x| x.to_val()).map_err(|e| e.to_string())));
        smile_back.push(("smile:server_from_reader", conjure_serde::smile::server_from_reader::<_, T>(&b[..]).map(|x| x.to_val()).map_err(|e| e.to_string())));
    }
    TwinView { json, smile, json_back, smile_back, normalized }
}

fn run_twin<T: Twin>(name: &'static str, r: &mut Report, f: &mut dyn FnMut(&mut Report, &str, &Shape, &Val, TwinView)) {
    let shape = T::shape();
    for v in space::values(&shape, 1) {
        let tv = view::<T>(&v);
        f(r, name, &shape, &v, tv);
    }
}

macro_rules! twins {
    ($($t:ty),* $(,)?) => {
        pub fn all() -> Vec<TwinCase> {
            vec![$(TwinCase { name: stringify!($t), run: |r, f| run_twin::<$t>(stringify!($t), r, f) }),*]
        }
    };
}

twins!(
    bool,
    i32,
    SafeLong,
    f64,
    String,
    Bytes,
    serde_bytes::ByteBuf,
    Uuid,
    ResourceIdentifier,
    BearerToken,
    DateTime<Utc>,
    DynEnum,
    Option<f64>,
    Option<Bytes>,
    Option<Uuid>,
    Vec<f64>,
    Vec<Bytes>,
    Vec<Uuid>,
    Vec<Option<f64>>,
    Option<Vec<f64>>,
    BTreeSet<DoubleKey>,
    BTreeSet<Uuid>,
    BTreeSet<String>,
    BTreeSet<Bytes>,
    BTreeSet<Option<DoubleKey>>,
    BTreeSet<Vec<DoubleKey>>,
    BTreeMap<String, f64>,
    BTreeMap<i32, f64>,
    BTreeMap<SafeLong, bool>,
    BTreeMap<DoubleKey, f64>,
    BTreeMap<bool, f64>,
    BTreeMap<Uuid, Uuid>,
    BTreeMap<ResourceIdentifier, Bytes>,
    BTreeMap<BearerToken, i32>,
    BTreeMap<DateTime<Utc>, DateTime<Utc>>,
    BTreeMap<Bytes, Bytes>,
    BTreeMap<DynEnum, DynEnum>,
    BTreeMap<String, BTreeMap<DoubleKey, f64>>,
    BTreeMap<String, Vec<Option<f64>>>,
    BTreeMap<DoubleKey, BTreeSet<DoubleKey>>,
    S<f64>,
    S<Bytes>,
    S<Uuid>,
    S<Option<f64>>,
    S<Vec<f64>>,
    S<BTreeMap<DoubleKey, f64>>,
    S<S<f64>>,
    S<Option<S<Uuid>>>,
    Vec<S<BTreeMap<bool, Bytes>>>,
    NT<f64>,
    NT<Bytes>,
    Vec<NT<Option<NT<f64>>>>,
    S<NT<S<Bytes>>>,
    Alias<f64>,
    Alias<Vec<Alias<f64>>>,
    S<Alias<Option<Alias<Bytes>>>>,
    Alias<BTreeMap<Alias<DoubleKey>, Alias<Uuid>>>,
);

/// Runs every twin: (1) static round trip (verdict-bearing for `prop`), (2) dynamic engine
/// must produce identical bytes / results (machinery conformance).
pub fn run_all(prop: &str, r: &mut Report) {
    let mut conformance_failures: Vec<String> = vec![];
    let mut conformance_checks = 0u64;
    for twin in all() {
        let mut f = |r: &mut Report, name: &str, shape: &Shape, v: &Val, tv: TwinView| {
            r.states += 1;
            let case = json!({"twin": name, "shape": shape.text(), "value": format!("{:?}", v)});
            let norm = &tv.normalized;
            // (1) static round trip
            for (fmt, back) in [("json", &tv.json_back), ("smile", &tv.smile_back)] {
                for (path, got) in back {
                    r.evaluations += 1;
                    r.transitions += 1;
                    match got {
                        Ok(x) if val_eq(x, norm) => r.outcome("static:roundtrip-ok"),
                        other => r.violation(
                            format!("{}|{}|static-roundtrip|{}|{}", prop, fmt, path, name),
                            format!("static type {} value {:?}: {} round trip via {} gave {:?}", name, norm, fmt, path, other),
                            case.clone(),
                        ),
                    }
                }
            }
            if tv.json.is_err() || tv.smile.is_err() {
                r.violation(format!("{}|static-serialize|{}", prop, name), format!("static type {} value {:?} failed to serialize: {:?} {:?}", name, norm, tv.json.as_ref().err(), tv.smile.as_ref().err()), case.clone());
                return;
            }
            // (2) conformance of the dynamic engine
            let typed = Typed(shape, norm);
            conformance_checks += 1;
            let dj = conjure_serde::json::to_vec(&typed).map_err(|e| e.to_string());
            if dj != tv.json {
                conformance_failures.push(format!("{} {:?}: dynamic json {:?} != static {:?}", name, norm, dj.as_ref().map(|b| String::from_utf8_lossy(b).into_owned()), tv.json.as_ref().map(|b| String::from_utf8_lossy(b).into_owned())));
            }
            let ds = conjure_serde::smile::to_vec(&typed).map_err(|e| e.to_string());
            if ds != tv.smile {
                conformance_failures.push(format!("{} {:?}: dynamic smile bytes differ from static", name, norm));
            }
            if let Ok(j) = &tv.json {
                let s = std::str::from_utf8(j).unwrap();
                let dyn_back = with_shape(shape, || conjure_serde::json::server_from_str::<DynOut>(s)).map(|d| d.0).map_err(|e| e.to_string());
                let stat = tv.json_back.iter().find(|p| p.0 == "json:server_from_str").map(|p| &p.1);
                let agree = match (&dyn_back, stat) {
                    (Ok(a), Some(Ok(b))) => val_eq(a, b),
                    (Err(_), Some(Err(_))) => true,
                    _ => false,
                };
                if !agree {
                    conformance_failures.push(format!("{} {:?}: dynamic json deserialization {:?} vs static {:?}", name, norm, dyn_back, stat));
                }
            }
        };
        (twin.run)(r, &mut f);
    }
    r.extra.insert("twin_types".into(), json!(all().len()));
    r.extra.insert("harness_conformance_checks".into(), json!(conformance_checks));
    r.extra.insert("harness_conformance_failures".into(), json!(conformance_failures.len()));
    if !conformance_failures.is_empty() {
        r.caps_hit.push(format!("dynamic engine disagrees with derive/std twins (machinery error, not a verdict): {}", conformance_failures[..conformance_failures.len().min(3)].join(" ;; ")));
    }
}
