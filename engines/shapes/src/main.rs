//! E1 — schema-directed dynamic serde shape engine (C01, C05, C13, C17).
mod c01;
mod c05;
mod c13;
mod c17;
mod dynamic;
mod space;
mod twins;
mod wire;

use vcommon::{Args, Report};

fn main() {
    let args = Args::parse();
    vcommon::quiet_panics();
    let report: Report = match args.property.as_str() {
        "C01" => c01::run(&args),
        "C05" => c05::run(&args),
        "C13" => c13::run(&args),
        "C17" => c17::run(&args),
        other => panic!("shapes: unknown property {}", other),
    };
    report.write(&args.out);
}
