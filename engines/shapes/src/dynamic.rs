//! Schema-directed dynamic serde values: `(Shape, Val)` serializes through exactly the
//! serializer entry points std / derive impls use, and `&Shape` is a `DeserializeSeed`
//! doing the mirror. Leaves that are conjure-object / chrono / uuid types delegate to the
//! *real* types so their own Serialize/Deserialize impls (and `is_human_readable`) are on
//! the path.

use conjure_object::chrono::{DateTime, Utc};
use conjure_object::{BearerToken, Bytes, ResourceIdentifier, SafeLong, Uuid};
use serde::de::{self, DeserializeSeed, Deserializer, EnumAccess, IgnoredAny, MapAccess, SeqAccess, VariantAccess, Visitor};
use serde::ser::{SerializeMap, SerializeSeq, SerializeStruct, SerializeTuple, SerializeTupleStruct, SerializeTupleVariant, SerializeStructVariant, Serializer};
use serde::{Deserialize, Serialize};
use std::cell::RefCell;
use std::collections::HashMap;
use std::fmt;
use std::sync::Mutex;

#[derive(Clone, Copy, Debug, PartialEq, Eq, Hash, PartialOrd, Ord)]
pub enum Leaf {
    Bool,
    I32,
    /// safelong (real `SafeLong`)
    I64,
    F64,
    Str,
    Bytes,
    Uuid,
    Rid,
    Token,
    DateTime,
    Enum,
    // ---- outside the Conjure data model (C13 / informational)
    I8,
    I16,
    RawI64,
    I128,
    U8,
    U16,
    U32,
    U64,
    U128,
    F32,
    Char,
    Unit,
}

pub const CONJURE_LEAVES: [Leaf; 11] = [
    Leaf::Bool,
    Leaf::I32,
    Leaf::I64,
    Leaf::F64,
    Leaf::Str,
    Leaf::Bytes,
    Leaf::Uuid,
    Leaf::Rid,
    Leaf::Token,
    Leaf::DateTime,
    Leaf::Enum,
];

pub const ENUM_VARIANTS: &[&str] = &["ONE", "TWO", "THREE"];

#[derive(Clone, Debug, PartialEq, Eq, Hash, PartialOrd, Ord)]
pub enum Shape {
    Leaf(Leaf),
    Option(Box<Shape>),
    Seq(Box<Shape>),
    Map(Leaf, Box<Shape>),
    Struct(&'static str, Vec<(&'static str, Shape)>),
    // ---- outside the Conjure data model
    Tuple(Vec<Shape>),
    NewtypeStruct(&'static str, Box<Shape>),
    TupleStruct(&'static str, Vec<Shape>),
    /// enum with one variant of each kind: Unit, Newtype(S), Tuple(S, i32), Struct{x: S}
    RichEnum(Box<Shape>),
}

impl Shape {
    pub fn leaf(l: Leaf) -> Shape {
        Shape::Leaf(l)
    }
    pub fn opt(s: Shape) -> Shape {
        Shape::Option(Box::new(s))
    }
    pub fn seq(s: Shape) -> Shape {
        Shape::Seq(Box::new(s))
    }
    pub fn map(k: Leaf, s: Shape) -> Shape {
        Shape::Map(k, Box::new(s))
    }
    pub fn depth(&self) -> usize {
        match self {
            Shape::Leaf(_) => 0,
            Shape::Option(s) | Shape::Seq(s) | Shape::Map(_, s) | Shape::NewtypeStruct(_, s) | Shape::RichEnum(s) => 1 + s.depth(),
            Shape::Struct(_, fs) => 1 + fs.iter().map(|f| f.1.depth()).max().unwrap_or(0),
            Shape::Tuple(fs) | Shape::TupleStruct(_, fs) => 1 + fs.iter().map(|f| f.depth()).max().unwrap_or(0),
        }
    }
    /// compact text form used in evidence and signatures
    pub fn text(&self) -> String {
        match self {
            Shape::Leaf(l) => format!("{:?}", l).to_lowercase(),
            Shape::Option(s) => format!("optional<{}>", s.text()),
            Shape::Seq(s) => format!("list<{}>", s.text()),
            Shape::Map(k, s) => format!("map<{},{}>", format!("{:?}", k).to_lowercase(), s.text()),
            Shape::Struct(_, fs) => format!("{{{}}}", fs.iter().map(|(n, s)| format!("{}:{}", n, s.text())).collect::<Vec<_>>().join(",")),
            Shape::Tuple(fs) => format!("({})", fs.iter().map(|s| s.text()).collect::<Vec<_>>().join(",")),
            Shape::NewtypeStruct(n, s) => format!("{}({})", n, s.text()),
            Shape::TupleStruct(n, fs) => format!("{}({})", n, fs.iter().map(|s| s.text()).collect::<Vec<_>>().join(",")),
            Shape::RichEnum(s) => format!("enum<{}>", s.text()),
        }
    }
    /// only constructors of the Conjure data model?
    pub fn is_conjure(&self) -> bool {
        match self {
            Shape::Leaf(l) => CONJURE_LEAVES.contains(l),
            Shape::Option(s) | Shape::Seq(s) => s.is_conjure(),
            Shape::Map(k, s) => CONJURE_LEAVES.contains(k) && s.is_conjure(),
            Shape::Struct(_, fs) => fs.iter().all(|f| f.1.is_conjure()),
            _ => false,
        }
    }
}

#[derive(Clone, Debug)]
pub enum Val {
    Bool(bool),
    I32(i32),
    I64(i64),
    F64(f64),
    Str(String),
    Bytes(Vec<u8>),
    Uuid(u128),
    Rid(String),
    Token(String),
    /// unix seconds, nanoseconds
    DateTime(i64, u32),
    Enum(u32),
    None,
    Some(Box<Val>),
    Seq(Vec<Val>),
    Map(Vec<(Val, Val)>),
    Struct(Vec<Val>),
    // ---- outside the Conjure data model
    I128(i128),
    U64(u64),
    U128(u128),
    F32(f32),
    Char(char),
    Unit,
    /// RichEnum: variant index 0..4 and payloads
    Variant(u32, Vec<Val>),
}

pub fn val_eq(a: &Val, b: &Val) -> bool {
    use Val::*;
    match (a, b) {
        (Bool(x), Bool(y)) => x == y,
        (I32(x), I32(y)) => x == y,
        (I64(x), I64(y)) => x == y,
        (F64(x), F64(y)) => (x.is_nan() && y.is_nan()) || x.to_bits() == y.to_bits(),
        (F32(x), F32(y)) => (x.is_nan() && y.is_nan()) || x.to_bits() == y.to_bits(),
        (Str(x), Str(y)) | (Rid(x), Rid(y)) | (Token(x), Token(y)) => x == y,
        (Bytes(x), Bytes(y)) => x == y,
        (Uuid(x), Uuid(y)) => x == y,
        (DateTime(s, n), DateTime(s2, n2)) => s == s2 && n == n2,
        (Enum(x), Enum(y)) => x == y,
        (None, None) | (Unit, Unit) => true,
        (Some(x), Some(y)) => val_eq(x, y),
        (Seq(x), Seq(y)) | (Struct(x), Struct(y)) => x.len() == y.len() && x.iter().zip(y).all(|(p, q)| val_eq(p, q)),
        (Map(x), Map(y)) => x.len() == y.len() && x.iter().zip(y).all(|(p, q)| val_eq(&p.0, &q.0) && val_eq(&p.1, &q.1)),
        (I128(x), I128(y)) => x == y,
        (U64(x), U64(y)) => x == y,
        (U128(x), U128(y)) => x == y,
        (Char(x), Char(y)) => x == y,
        (Variant(i, x), Variant(j, y)) => i == j && x.len() == y.len() && x.iter().zip(y).all(|(p, q)| val_eq(p, q)),
        _ => false,
    }
}

pub fn datetime_of(secs: i64, nanos: u32) -> DateTime<Utc> {
    DateTime::<Utc>::from_timestamp(secs, nanos).expect("datetime in range")
}

// ------------------------------------------------------------------------------ static names

fn intern_fields(names: Vec<&'static str>) -> &'static [&'static str] {
    static TABLE: Mutex<Option<HashMap<Vec<&'static str>, &'static [&'static str]>>> = Mutex::new(None);
    let mut g = TABLE.lock().unwrap();
    let t = g.get_or_insert_with(HashMap::new);
    if let Some(v) = t.get(&names) {
        return v;
    }
    let leaked: &'static [&'static str] = Box::leak(names.clone().into_boxed_slice());
    t.insert(names, leaked);
    leaked
}

// ------------------------------------------------------------------------------ Serialize

pub struct Typed<'a>(pub &'a Shape, pub &'a Val);

impl Serialize for Typed<'_> {
    fn serialize<S: Serializer>(&self, s: S) -> Result<S::Ok, S::Error> {
        match (self.0, self.1) {
            (Shape::Leaf(l), v) => ser_leaf(*l, v, s),
            (Shape::Option(_), Val::None) => s.serialize_none(),
            (Shape::Option(inner), Val::Some(v)) => s.serialize_some(&Typed(inner, v)),
            (Shape::Seq(inner), Val::Seq(items)) => {
                let mut seq = s.serialize_seq(Some(items.len()))?;
                for it in items {
                    seq.serialize_element(&Typed(inner, it))?;
                }
                seq.end()
            }
            (Shape::Map(k, inner), Val::Map(entries)) => {
                let kshape = Shape::Leaf(*k);
                let mut m = s.serialize_map(Some(entries.len()))?;
                for (key, value) in entries {
                    m.serialize_entry(&Typed(&kshape, key), &Typed(inner, value))?;
                }
                m.end()
            }
            (Shape::Struct(name, fields), Val::Struct(vals)) => {
                let mut st = s.serialize_struct(name, fields.len())?;
                for ((fname, fshape), v) in fields.iter().zip(vals) {
                    st.serialize_field(fname, &Typed(fshape, v))?;
                }
                st.end()
            }
            (Shape::Tuple(shapes), Val::Seq(vals)) => {
                let mut t = s.serialize_tuple(shapes.len())?;
                for (sh, v) in shapes.iter().zip(vals) {
                    t.serialize_element(&Typed(sh, v))?;
                }
                t.end()
            }
            (Shape::NewtypeStruct(name, inner), v) => s.serialize_newtype_struct(name, &Typed(inner, v)),
            (Shape::TupleStruct(name, shapes), Val::Seq(vals)) => {
                let mut t = s.serialize_tuple_struct(name, shapes.len())?;
                for (sh, v) in shapes.iter().zip(vals) {
                    t.serialize_field(&Typed(sh, v))?;
                }
                t.end()
            }
            (Shape::RichEnum(inner), Val::Variant(idx, vals)) => match idx {
                0 => s.serialize_unit_variant("Rich", 0, "Unit"),
                1 => s.serialize_newtype_variant("Rich", 1, "Newtype", &Typed(inner, &vals[0])),
                2 => {
                    let mut t = s.serialize_tuple_variant("Rich", 2, "Tuple", 2)?;
                    t.serialize_field(&Typed(inner, &vals[0]))?;
                    t.serialize_field(&Typed(&Shape::Leaf(Leaf::I32), &vals[1]))?;
                    t.end()
                }
                _ => {
                    let mut t = s.serialize_struct_variant("Rich", 3, "Struct", 1)?;
                    t.serialize_field("x", &Typed(inner, &vals[0]))?;
                    t.end()
                }
            },
            (sh, v) => panic!("shape/value mismatch: {:?} / {:?}", sh, v),
        }
    }
}

fn ser_leaf<S: Serializer>(l: Leaf, v: &Val, s: S) -> Result<S::Ok, S::Error> {
    match (l, v) {
        (Leaf::Bool, Val::Bool(b)) => b.serialize(s),
        (Leaf::I32, Val::I32(x)) => x.serialize(s),
        (Leaf::I64, Val::I64(x)) => SafeLong::new(*x).expect("safelong value").serialize(s),
        (Leaf::F64, Val::F64(x)) => x.serialize(s),
        (Leaf::Str, Val::Str(x)) => x.serialize(s),
        (Leaf::Bytes, Val::Bytes(x)) => Bytes::copy_from_slice(x).serialize(s),
        (Leaf::Uuid, Val::Uuid(x)) => Uuid::from_u128(*x).serialize(s),
        (Leaf::Rid, Val::Rid(x)) => ResourceIdentifier::new(x).expect("rid").serialize(s),
        (Leaf::Token, Val::Token(x)) => BearerToken::new(x).expect("token").serialize(s),
        (Leaf::DateTime, Val::DateTime(secs, n)) => datetime_of(*secs, *n).serialize(s),
        (Leaf::Enum, Val::Enum(i)) => s.serialize_unit_variant("DynEnum", *i, ENUM_VARIANTS[*i as usize]),
        (Leaf::I8, Val::I64(x)) => (*x as i8).serialize(s),
        (Leaf::I16, Val::I64(x)) => (*x as i16).serialize(s),
        (Leaf::RawI64, Val::I64(x)) => x.serialize(s),
        (Leaf::I128, Val::I128(x)) => x.serialize(s),
        (Leaf::U8, Val::U64(x)) => (*x as u8).serialize(s),
        (Leaf::U16, Val::U64(x)) => (*x as u16).serialize(s),
        (Leaf::U32, Val::U64(x)) => (*x as u32).serialize(s),
        (Leaf::U64, Val::U64(x)) => x.serialize(s),
        (Leaf::U128, Val::U128(x)) => x.serialize(s),
        (Leaf::F32, Val::F32(x)) => x.serialize(s),
        (Leaf::Char, Val::Char(x)) => x.serialize(s),
        (Leaf::Unit, Val::Unit) => ().serialize(s),
        (l, v) => panic!("leaf/value mismatch: {:?} / {:?}", l, v),
    }
}

// ------------------------------------------------------------------------------ Deserialize

#[derive(Clone, Copy)]
pub struct Seed<'a>(pub &'a Shape);

impl<'de> DeserializeSeed<'de> for Seed<'_> {
    type Value = Val;

    fn deserialize<D: Deserializer<'de>>(self, d: D) -> Result<Val, D::Error> {
        match self.0 {
            Shape::Leaf(l) => de_leaf(*l, d),
            Shape::Option(inner) => d.deserialize_option(OptionVisitor(inner)),
            Shape::Seq(inner) => d.deserialize_seq(SeqVisitor(inner)),
            Shape::Map(k, inner) => d.deserialize_map(MapVisitor(*k, inner)),
            Shape::Struct(name, fields) => {
                let names = intern_fields(fields.iter().map(|f| f.0).collect());
                d.deserialize_struct(name, names, StructVisitor(fields))
            }
            Shape::Tuple(shapes) => d.deserialize_tuple(shapes.len(), TupleVisitor(shapes)),
            Shape::NewtypeStruct(name, inner) => d.deserialize_newtype_struct(name, NewtypeVisitor(inner)),
            Shape::TupleStruct(name, shapes) => d.deserialize_tuple_struct(name, shapes.len(), TupleVisitor(shapes)),
            Shape::RichEnum(inner) => d.deserialize_enum("Rich", &["Unit", "Newtype", "Tuple", "Struct"], RichVisitor(inner)),
        }
    }
}

fn de_leaf<'de, D: Deserializer<'de>>(l: Leaf, d: D) -> Result<Val, D::Error> {
    Ok(match l {
        Leaf::Bool => Val::Bool(bool::deserialize(d)?),
        Leaf::I32 => Val::I32(i32::deserialize(d)?),
        Leaf::I64 => Val::I64(*SafeLong::deserialize(d)?),
        Leaf::F64 => Val::F64(f64::deserialize(d)?),
        Leaf::Str => Val::Str(String::deserialize(d)?),
        Leaf::Bytes => Val::Bytes(Bytes::deserialize(d)?.to_vec()),
        Leaf::Uuid => Val::Uuid(Uuid::deserialize(d)?.as_u128()),
        Leaf::Rid => Val::Rid(ResourceIdentifier::deserialize(d)?.into_string()),
        Leaf::Token => Val::Token(BearerToken::deserialize(d)?.into_string()),
        Leaf::DateTime => {
            let t = DateTime::<Utc>::deserialize(d)?;
            Val::DateTime(t.timestamp(), t.timestamp_subsec_nanos())
        }
        Leaf::Enum => d.deserialize_enum("DynEnum", ENUM_VARIANTS, UnitEnumVisitor)?,
        Leaf::I8 => Val::I64(i8::deserialize(d)? as i64),
        Leaf::I16 => Val::I64(i16::deserialize(d)? as i64),
        Leaf::RawI64 => Val::I64(i64::deserialize(d)?),
        Leaf::I128 => Val::I128(i128::deserialize(d)?),
        Leaf::U8 => Val::U64(u8::deserialize(d)? as u64),
        Leaf::U16 => Val::U64(u16::deserialize(d)? as u64),
        Leaf::U32 => Val::U64(u32::deserialize(d)? as u64),
        Leaf::U64 => Val::U64(u64::deserialize(d)?),
        Leaf::U128 => Val::U128(u128::deserialize(d)?),
        Leaf::F32 => Val::F32(f32::deserialize(d)?),
        Leaf::Char => Val::Char(char::deserialize(d)?),
        Leaf::Unit => {
            <()>::deserialize(d)?;
            Val::Unit
        }
    })
}

/// derive-style identifier: index, str or bytes; `None` = not one of `names`
struct Ident(&'static [&'static str]);

impl<'de> DeserializeSeed<'de> for Ident {
    type Value = Result<usize, String>;
    fn deserialize<D: Deserializer<'de>>(self, d: D) -> Result<Self::Value, D::Error> {
        d.deserialize_identifier(self)
    }
}

impl<'de> Visitor<'de> for Ident {
    type Value = Result<usize, String>;
    fn expecting(&self, f: &mut fmt::Formatter) -> fmt::Result {
        f.write_str("field identifier")
    }
    fn visit_u64<E: de::Error>(self, v: u64) -> Result<Self::Value, E> {
        Ok(if (v as usize) < self.0.len() { Ok(v as usize) } else { Err(format!("#{}", v)) })
    }
    fn visit_str<E: de::Error>(self, v: &str) -> Result<Self::Value, E> {
        Ok(self.0.iter().position(|n| *n == v).ok_or_else(|| v.to_string()))
    }
    fn visit_bytes<E: de::Error>(self, v: &[u8]) -> Result<Self::Value, E> {
        Ok(self.0.iter().position(|n| n.as_bytes() == v).ok_or_else(|| String::from_utf8_lossy(v).into_owned()))
    }
}

struct UnitEnumVisitor;
impl<'de> Visitor<'de> for UnitEnumVisitor {
    type Value = Val;
    fn expecting(&self, f: &mut fmt::Formatter) -> fmt::Result {
        f.write_str("enum DynEnum")
    }
    fn visit_enum<A: EnumAccess<'de>>(self, data: A) -> Result<Val, A::Error> {
        let (idx, variant) = data.variant_seed(Ident(ENUM_VARIANTS))?;
        match idx {
            Ok(i) => {
                variant.unit_variant()?;
                Ok(Val::Enum(i as u32))
            }
            Err(name) => Err(de::Error::unknown_variant(&name, ENUM_VARIANTS)),
        }
    }
}

struct OptionVisitor<'a>(&'a Shape);
impl<'de> Visitor<'de> for OptionVisitor<'_> {
    type Value = Val;
    fn expecting(&self, f: &mut fmt::Formatter) -> fmt::Result {
        f.write_str("option")
    }
    fn visit_none<E: de::Error>(self) -> Result<Val, E> {
        Ok(Val::None)
    }
    fn visit_unit<E: de::Error>(self) -> Result<Val, E> {
        Ok(Val::None)
    }
    fn visit_some<D: Deserializer<'de>>(self, d: D) -> Result<Val, D::Error> {
        Ok(Val::Some(Box::new(Seed(self.0).deserialize(d)?)))
    }
}

struct SeqVisitor<'a>(&'a Shape);
impl<'de> Visitor<'de> for SeqVisitor<'_> {
    type Value = Val;
    fn expecting(&self, f: &mut fmt::Formatter) -> fmt::Result {
        f.write_str("a sequence")
    }
    fn visit_seq<A: SeqAccess<'de>>(self, mut seq: A) -> Result<Val, A::Error> {
        let mut out = vec![];
        while let Some(v) = seq.next_element_seed(Seed(self.0))? {
            out.push(v);
        }
        Ok(Val::Seq(out))
    }
}

struct MapVisitor<'a>(Leaf, &'a Shape);
impl<'de> Visitor<'de> for MapVisitor<'_> {
    type Value = Val;
    fn expecting(&self, f: &mut fmt::Formatter) -> fmt::Result {
        f.write_str("a map")
    }
    fn visit_map<A: MapAccess<'de>>(self, mut map: A) -> Result<Val, A::Error> {
        let kshape = Shape::Leaf(self.0);
        let mut out = vec![];
        // std's map visitors read whole entries
        while let Some((k, v)) = map.next_entry_seed(Seed(&kshape), Seed(self.1))? {
            out.push((k, v));
        }
        Ok(Val::Map(out))
    }
}

struct StructVisitor<'a>(&'a [(&'static str, Shape)]);
impl<'de> Visitor<'de> for StructVisitor<'_> {
    type Value = Val;
    fn expecting(&self, f: &mut fmt::Formatter) -> fmt::Result {
        f.write_str("struct")
    }
    fn visit_seq<A: SeqAccess<'de>>(self, mut seq: A) -> Result<Val, A::Error> {
        let mut out = vec![];
        for (i, (_, sh)) in self.0.iter().enumerate() {
            match seq.next_element_seed(Seed(sh))? {
                Some(v) => out.push(v),
                None => return Err(de::Error::invalid_length(i, &"struct with more elements")),
            }
        }
        Ok(Val::Struct(out))
    }
    fn visit_map<A: MapAccess<'de>>(self, mut map: A) -> Result<Val, A::Error> {
        let names = intern_fields(self.0.iter().map(|f| f.0).collect());
        let mut slots: Vec<Option<Val>> = vec![None; self.0.len()];
        while let Some(key) = map.next_key_seed(Ident(names))? {
            match key {
                Ok(i) => {
                    if slots[i].is_some() {
                        return Err(de::Error::duplicate_field(names[i]));
                    }
                    slots[i] = Some(map.next_value_seed(Seed(&self.0[i].1))?);
                }
                Err(_) => {
                    map.next_value::<IgnoredAny>()?;
                }
            }
        }
        let mut out = vec![];
        for (i, slot) in slots.into_iter().enumerate() {
            match slot {
                Some(v) => out.push(v),
                None => match &self.0[i].1 {
                    Shape::Option(_) => out.push(Val::None),
                    _ => return Err(de::Error::missing_field(names[i])),
                },
            }
        }
        Ok(Val::Struct(out))
    }
}

struct TupleVisitor<'a>(&'a [Shape]);
impl<'de> Visitor<'de> for TupleVisitor<'_> {
    type Value = Val;
    fn expecting(&self, f: &mut fmt::Formatter) -> fmt::Result {
        f.write_str("a tuple")
    }
    fn visit_seq<A: SeqAccess<'de>>(self, mut seq: A) -> Result<Val, A::Error> {
        let mut out = vec![];
        for (i, sh) in self.0.iter().enumerate() {
            match seq.next_element_seed(Seed(sh))? {
                Some(v) => out.push(v),
                None => return Err(de::Error::invalid_length(i, &"a longer tuple")),
            }
        }
        Ok(Val::Seq(out))
    }
}

struct NewtypeVisitor<'a>(&'a Shape);
impl<'de> Visitor<'de> for NewtypeVisitor<'_> {
    type Value = Val;
    fn expecting(&self, f: &mut fmt::Formatter) -> fmt::Result {
        f.write_str("tuple struct NT")
    }
    fn visit_newtype_struct<D: Deserializer<'de>>(self, d: D) -> Result<Val, D::Error> {
        Seed(self.0).deserialize(d)
    }
    fn visit_seq<A: SeqAccess<'de>>(self, mut seq: A) -> Result<Val, A::Error> {
        match seq.next_element_seed(Seed(self.0))? {
            Some(v) => Ok(v),
            None => Err(de::Error::invalid_length(0, &"tuple struct with 1 element")),
        }
    }
}

struct RichVisitor<'a>(&'a Shape);
impl<'de> Visitor<'de> for RichVisitor<'_> {
    type Value = Val;
    fn expecting(&self, f: &mut fmt::Formatter) -> fmt::Result {
        f.write_str("enum Rich")
    }
    fn visit_enum<A: EnumAccess<'de>>(self, data: A) -> Result<Val, A::Error> {
        const NAMES: &[&str] = &["Unit", "Newtype", "Tuple", "Struct"];
        let (idx, variant) = data.variant_seed(Ident(NAMES))?;
        let i32shape = Shape::Leaf(Leaf::I32);
        match idx {
            Ok(0) => {
                variant.unit_variant()?;
                Ok(Val::Variant(0, vec![]))
            }
            Ok(1) => Ok(Val::Variant(1, vec![variant.newtype_variant_seed(Seed(self.0))?])),
            Ok(2) => {
                let shapes = [self.0.clone(), i32shape];
                match variant.tuple_variant(2, TupleVisitor(&shapes))? {
                    Val::Seq(v) => Ok(Val::Variant(2, v)),
                    _ => unreachable!(),
                }
            }
            Ok(_) => {
                let fields = [("x", self.0.clone())];
                match variant.struct_variant(&["x"], StructVisitor(&fields))? {
                    Val::Struct(v) => Ok(Val::Variant(3, v)),
                    _ => unreachable!(),
                }
            }
            Err(name) => Err(de::Error::unknown_variant(&name, NAMES)),
        }
    }
}

// ------------------------------------------------------------------------------ DeserializeOwned bridge

thread_local! {
    static CURRENT: RefCell<Option<Shape>> = const { RefCell::new(None) };
}

/// A `DeserializeOwned` type whose shape is taken from a thread-local: lets dynamic values
/// go through convenience functions that demand `T: Deserialize` (`client_from_str`, …).
pub struct DynOut(pub Val);

impl<'de> Deserialize<'de> for DynOut {
    fn deserialize<D: Deserializer<'de>>(d: D) -> Result<DynOut, D::Error> {
        let shape = CURRENT.with(|c| c.borrow().clone()).expect("DynOut used outside with_shape");
        Seed(&shape).deserialize(d).map(DynOut)
    }
}

pub fn with_shape<T>(shape: &Shape, f: impl FnOnce() -> T) -> T {
    let prev = CURRENT.with(|c| c.replace(Some(shape.clone())));
    let out = f();
    CURRENT.with(|c| *c.borrow_mut() = prev);
    out
}
