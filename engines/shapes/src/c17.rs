//! C17 (runtime part) — errors encode faithfully; parameters are partitioned by declared
//! safety. A dynamic `ErrorType + Serialize` value whose fields are `(Shape, Val)` pairs
//! drives `conjure_error::encode` and the `Error::*service*` constructors.

use crate::dynamic::{Leaf, Shape, Typed, Val, CONJURE_LEAVES, ENUM_VARIANTS};
use crate::space;
use conjure_error::{encode, Error, ErrorCode, ErrorKind, ErrorType, SerializableError};
use conjure_object::Uuid;
use rayon::prelude::*;
use serde::ser::{SerializeStruct, Serializer};
use serde::Serialize;
use serde_json::json;
use std::collections::{BTreeMap, BTreeSet, HashMap};
use std::sync::Mutex;
use vcommon::{cmodel, Args, Report};

static FRESH_IDS: Mutex<BTreeSet<Uuid>> = Mutex::new(BTreeSet::new());

fn intern(names: Vec<&'static str>) -> &'static [&'static str] {
    static TABLE: Mutex<Option<HashMap<Vec<&'static str>, &'static [&'static str]>>> = Mutex::new(None);
    let mut g = TABLE.lock().unwrap();
    let t = g.get_or_insert_with(HashMap::new);
    if let Some(v) = t.get(&names) {
        return v;
    }
    let leaked: &'static [&'static str] = Box::leak(names.clone().into_boxed_slice());
    t.insert(names, leaked);
    leaked
}

#[derive(Clone)]
struct Field {
    name: &'static str,
    shape: Shape,
    val: Val,
    safe: bool,
    /// derive's skip_serializing_if: an absent optional / empty collection is not even handed
    /// to the serializer (generated errors do this); otherwise it is serialized as null / []
    skip_if_empty: bool,
}

#[derive(Clone)]
struct DynError {
    code: ErrorCode,
    name: &'static str,
    fields: Vec<Field>,
    /// an error type that carries its own instance id (as SerializableError does)
    own_id: Option<Uuid>,
}

impl ErrorType for DynError {
    fn code(&self) -> ErrorCode {
        self.code.clone()
    }
    fn name(&self) -> &str {
        self.name
    }
    fn instance_id(&self) -> Option<Uuid> {
        self.own_id
    }
    fn safe_args(&self) -> &'static [&'static str] {
        let mut v: Vec<&'static str> = self.fields.iter().filter(|f| f.safe).map(|f| f.name).collect();
        v.sort();
        intern(v)
    }
}

fn is_empty_val(v: &Val) -> bool {
    match v {
        Val::None => true,
        Val::Seq(x) => x.is_empty(),
        Val::Map(x) => x.is_empty(),
        _ => false,
    }
}

impl Serialize for DynError {
    fn serialize<S: Serializer>(&self, s: S) -> Result<S::Ok, S::Error> {
        let mut st = s.serialize_struct("DynError", self.fields.len())?;
        for f in &self.fields {
            if f.skip_if_empty && is_empty_val(&f.val) {
                st.skip_field(f.name)?;
            } else {
                st.serialize_field(f.name, &Typed(&f.shape, &f.val))?;
            }
        }
        st.end()
    }
}

/// What the statement says about one parameter value.
enum Expect {
    /// must be present with exactly this text
    Text(String),
    /// must be present with a text that parses back to this double
    Double(f64),
    /// must be omitted
    Omitted,
    /// the statement does not say (datetime, bearer token, …)
    NotJudged,
}

fn expect(shape: &Shape, val: &Val) -> Expect {
    match (shape, val) {
        (Shape::Option(_), Val::None) => Expect::Omitted,
        (Shape::Option(i), Val::Some(v)) => expect(i, v),
        (Shape::Seq(_), _) | (Shape::Map(_, _), _) | (Shape::Struct(_, _), _) => Expect::Omitted,
        (Shape::Leaf(l), v) => match (l, v) {
            (Leaf::Str, Val::Str(s)) | (Leaf::Rid, Val::Rid(s)) => Expect::Text(s.clone()),
            (Leaf::Uuid, Val::Uuid(u)) => Expect::Text(cmodel::uuid(*u)),
            (Leaf::Enum, Val::Enum(i)) => Expect::Text(ENUM_VARIANTS[*i as usize].to_string()),
            (Leaf::Bool, Val::Bool(b)) => Expect::Text(if *b { "true" } else { "false" }.to_string()),
            (Leaf::I32, Val::I32(x)) => Expect::Text(cmodel::decimal(*x as i128)),
            (Leaf::I64, Val::I64(x)) => Expect::Text(cmodel::decimal(*x as i128)),
            (Leaf::F64, Val::F64(x)) => Expect::Double(*x),
            // integer widths outside the Conjure model that hand-written error types may carry:
            // "integers in decimal text"
            (Leaf::I8 | Leaf::I16 | Leaf::RawI64, Val::I64(x)) => Expect::Text(cmodel::decimal(*x as i128)),
            (Leaf::U8 | Leaf::U16 | Leaf::U32 | Leaf::U64, Val::U64(x)) => Expect::Text(cmodel::decimal(*x as i128)),
            (Leaf::Bytes, _) => Expect::Omitted,
            _ => Expect::NotJudged,
        },
        _ => Expect::NotJudged,
    }
}

fn model_status(code: &ErrorCode) -> u16 {
    match code.as_str() {
        "PERMISSION_DENIED" => 403,
        "INVALID_ARGUMENT" => 400,
        "NOT_FOUND" => 404,
        "CONFLICT" => 409,
        "REQUEST_ENTITY_TOO_LARGE" => 413,
        "FAILED_PRECONDITION" => 500,
        "INTERNAL" => 500,
        "TIMEOUT" => 500,
        "CUSTOM_CLIENT" => 400,
        "CUSTOM_SERVER" => 500,
        other => panic!("unknown code {}", other),
    }
}

fn codes() -> Vec<ErrorCode> {
    vec![
        ErrorCode::PermissionDenied,
        ErrorCode::InvalidArgument,
        ErrorCode::NotFound,
        ErrorCode::Conflict,
        ErrorCode::RequestEntityTooLarge,
        ErrorCode::FailedPrecondition,
        ErrorCode::Internal,
        ErrorCode::Timeout,
        ErrorCode::CustomClient,
        ErrorCode::CustomServer,
    ]
}

fn describe(e: &DynError) -> serde_json::Value {
    json!({
        "code": e.code.as_str(),
        "name": e.name,
        "fields": e.fields.iter().map(|f| json!({"name": f.name, "safe": f.safe, "shape": f.shape.text(), "value": format!("{:?}", f.val), "skip_if_empty": f.skip_if_empty})).collect::<Vec<_>>(),
    })
}

fn shape_class(e: &DynError) -> String {
    e.fields.iter().map(|f| format!("{}{}:{}", if f.safe { "safe " } else { "" }, f.name, f.shape.text())).collect::<Vec<_>>().join(",")
}

/// checks one encoded error against the model; returns the expected parameter keys
fn check_encoded(e: &DynError, enc: &SerializableError, supplied_id: Option<Uuid>, r: &mut Report, what: &str) {
    let case = json!({"error": describe(e), "via": what});
    let sig = |k: &str| format!("C17|{}|{}|{}", what, k, shape_class(e));
    if enc.error_code().as_str() != e.code.as_str() {
        r.violation(sig("code"), format!("error code {} encoded as {}", e.code.as_str(), enc.error_code().as_str()), case.clone());
    }
    if enc.error_name() != e.name {
        r.violation(sig("name"), format!("error name {} encoded as {}", e.name, enc.error_name()), case.clone());
    }
    match supplied_id {
        Some(id) if enc.error_instance_id() != id => r.violation(sig("instance-id"), format!("supplied instance id {} encoded as {}", id, enc.error_instance_id()), case.clone()),
        None if enc.error_instance_id().get_version_num() != 4 => r.violation(sig("instance-id-not-random-v4"), format!("fresh instance id {} is not a version 4 uuid", enc.error_instance_id()), case.clone()),
        _ => {}
    }
    let params = enc.parameters();
    let mut judged_keys = BTreeSet::new();
    for f in &e.fields {
        let got = params.get(f.name);
        match expect(&f.shape, &f.val) {
            Expect::Text(t) => {
                judged_keys.insert(f.name);
                if got != Some(&t) {
                    r.violation(sig("parameter-text"), format!("parameter {} ({} = {:?}) encoded as {:?}, expected {:?}", f.name, f.shape.text(), f.val, got, t), case.clone());
                }
            }
            Expect::Double(d) => {
                judged_keys.insert(f.name);
                let ok = match got {
                    Some(s) => s.parse::<f64>().map(|p| (p.is_nan() && d.is_nan()) || p.to_bits() == d.to_bits() || (p == d && d == 0.0)).unwrap_or(false),
                    None => false,
                };
                if !ok {
                    r.violation(sig("parameter-double"), format!("double parameter {} = {:?} encoded as {:?}", f.name, d, got), case.clone());
                }
            }
            Expect::Omitted => {
                if let Some(s) = got {
                    r.violation(sig("parameter-not-omitted"), format!("parameter {} ({} = {:?}) should be omitted but is encoded as {:?}", f.name, f.shape.text(), f.val, s), case.clone());
                }
            }
            Expect::NotJudged => {
                r.outcome("parameter-type-not-in-statement");
            }
        }
    }
    for k in params.keys() {
        if !e.fields.iter().any(|f| f.name == k) {
            r.violation(sig("extra-parameter"), format!("encoded error has parameter {:?} that the error does not define", k), case.clone());
        }
    }
    // JSON round trip is the identity
    match conjure_serde::json::to_vec(enc) {
        Ok(bytes) => {
            for (which, back) in [
                ("client", conjure_serde::json::client_from_slice::<SerializableError>(&bytes).map_err(|e| e.to_string())),
                ("server", conjure_serde::json::server_from_slice::<SerializableError>(&bytes).map_err(|e| e.to_string())),
            ] {
                match back {
                    Ok(b) if &b == enc => r.outcome("json-roundtrip-ok"),
                    other => r.violation(sig("json-roundtrip"), format!("encoded error {} does not survive a JSON round trip ({}): {:?}", String::from_utf8_lossy(&bytes), which, other), case.clone()),
                }
            }
            // and the document has the four wire fields
            if let Ok(j) = serde_json::from_slice::<serde_json::Value>(&bytes) {
                let ok = j["errorCode"] == json!(e.code.as_str()) && j["errorName"] == json!(e.name) && j["errorInstanceId"].is_string() && (params.is_empty() || j["parameters"].is_object());
                if !ok {
                    r.violation(sig("wire-form"), format!("serialized error {} lacks the wire fields", j), case.clone());
                }
            }
        }
        Err(err) => r.violation(sig("json-serialize"), format!("encoded error fails to serialize: {}", err), case.clone()),
    }
}

fn check_partition(e: &DynError, err: &Error, enc_params: &BTreeMap<String, String>, propagated: bool, cause_safe: bool, r: &mut Report, what: &str) {
    let case = json!({"error": describe(e), "via": what});
    let sig = |k: &str| format!("C17|{}|{}|{}", what, k, shape_class(e));
    if err.cause_safe() != cause_safe {
        r.violation(sig("cause-safe-flag"), format!("cause_safe() = {} after {}", err.cause_safe(), what), case.clone());
    }
    let safe: BTreeMap<String, String> = err.safe_params().iter().map(|(k, v)| (k.to_string(), v.clone().deserialize_into::<String>().unwrap_or_else(|_| format!("{:?}", v)))).collect();
    let unsafe_: BTreeMap<String, String> = err.unsafe_params().iter().map(|(k, v)| (k.to_string(), v.clone().deserialize_into::<String>().unwrap_or_else(|_| format!("{:?}", v)))).collect();
    for (k, v) in enc_params {
        let in_safe = safe.get(k);
        let in_unsafe = unsafe_.get(k);
        let declared_safe = !propagated && e.fields.iter().any(|f| f.name == k && f.safe);
        match (in_safe, in_unsafe) {
            (Some(_), Some(_)) => r.violation(sig("in-both-sets"), format!("parameter {} is in both the safe and the unsafe set", k), case.clone()),
            (None, None) => r.violation(sig("in-neither-set"), format!("parameter {} = {:?} is in neither parameter set", k, v), case.clone()),
            (Some(x), None) => {
                if !declared_safe {
                    r.violation(sig("unsafe-exposed-as-safe"), format!("parameter {} is not declared safe{} but is in safe_params()", k, if propagated { " (propagated error)" } else { "" }), case.clone());
                } else if x != v {
                    r.violation(sig("value-altered"), format!("safe parameter {} = {:?} exposed as {:?}", k, v, x), case.clone());
                } else {
                    r.outcome("param:safe");
                }
            }
            (None, Some(x)) => {
                if declared_safe {
                    r.violation(sig("safe-exposed-as-unsafe"), format!("parameter {} is declared safe but is in unsafe_params()", k), case.clone());
                } else if x != v {
                    r.violation(sig("value-altered"), format!("unsafe parameter {} = {:?} exposed as {:?}", k, v, x), case.clone());
                } else {
                    r.outcome("param:unsafe");
                }
            }
        }
    }
    // every accessor of a parameter set answers for that set: len / is_empty / iter / IntoIterator
    // / size_hint / Index agree with the entries it exposes
    for (set_name, params) in [("safe_params", err.safe_params()), ("unsafe_params", err.unsafe_params())] {
        let n = params.iter().count();
        let mut it = params.iter();
        let hint = it.size_hint();
        let first = it.next();
        let into_n = (&params).into_iter().count();
        let indexed = vcommon::catch(|| params.iter().all(|(k, v)| format!("{:?}", &params[k]) == format!("{:?}", v)));
        if params.len() != n || params.is_empty() != (n == 0) || into_n != n || hint.0 > n || hint.1.map(|h| h < n).unwrap_or(false) || first.is_some() != (n > 0) || indexed != Ok(true) {
            r.violation(
                sig("parameter-set-accessors-disagree"),
                format!("{}: {} entries by iteration, len() = {}, is_empty() = {}, IntoIterator {}, size_hint {:?}, Index agrees: {:?}", set_name, n, params.len(), params.is_empty(), into_n, hint, indexed),
                case.clone(),
            );
        }
    }
    for k in safe.keys().chain(unsafe_.keys()) {
        if !enc_params.contains_key(k) {
            r.violation(sig("set-has-unencoded-parameter"), format!("parameter set contains {} which is not an encoded parameter", k), case.clone());
        }
    }
    match err.kind() {
        ErrorKind::Service(s) => {
            if s.parameters() != enc_params || s.error_name() != e.name || s.error_code().as_str() != e.code.as_str() {
                r.violation(sig("kind-differs-from-encode"), "the service error's SerializableError differs from encode()'s".to_string(), case.clone());
            }
        }
        _ => r.violation(sig("kind"), "not a service error".to_string(), case.clone()),
    }
}

fn check_error(e: &DynError, r: &mut Report, all_constructions: bool) {
    // encoding never panics: a parameter it cannot render is omitted
    if let Err(p) = vcommon::catch(|| check_error_inner(e, r, all_constructions)) {
        r.violation(format!("C17|encode|panic|{}", shape_class(e)), format!("encoding / constructing an error from {:?} panicked: {}", describe(e), p), json!({"error": describe(e), "via": "encode"}));
    }
}

fn check_error_inner(e: &DynError, r: &mut Report, all_constructions: bool) {
    r.states += 1;
    // encode, twice (fresh ids differ), and with a supplied id
    r.evaluations += 3;
    r.transitions += 3;
    let a = encode(e);
    let b = encode(e);
    // fresh ids are fresh across the whole run (every worker thread included)
    for id in [a.error_instance_id(), b.error_instance_id()] {
        if !FRESH_IDS.lock().unwrap().insert(id) && a.error_instance_id() != b.error_instance_id() {
            r.violation("C17|encode|instance-id-repeats-across-encodings".to_string(), format!("the fresh instance id {} was handed out twice in one process (different encodings, possibly different threads)", id), json!({"error": describe(e), "via": "encode"}));
        }
    }
    check_encoded(e, &a, None, r, "encode");
    if a.error_instance_id() == b.error_instance_id() {
        r.violation(format!("C17|encode|instance-id-not-fresh|{}", shape_class(e)), format!("two encodings share the instance id {}", a.error_instance_id()), json!({"error": describe(e), "via": "encode"}));
    }
    let id = Uuid::from_u128(0x0123_4567_89ab_4def_8edc_ba98_7654_3210);
    let with = encode(&e.clone().with_instance_id(id));
    check_encoded(e, &with, Some(id), r, "encode+with_instance_id");
    // the same through the reference impls (`&T: ErrorType`), one and two levels deep
    let wid = e.clone().with_instance_id(id);
    r.evaluations += 3;
    r.transitions += 3;
    check_encoded(e, &encode(&&wid), Some(id), r, "encode(&&with_instance_id)");
    check_encoded(e, &encode(&&&wid), Some(id), r, "encode(&&&with_instance_id)");
    check_encoded(e, &encode(&(&e.clone()).with_instance_id(id)), Some(id), r, "encode((&e).with_instance_id)");
    // overriding twice: the outermost (latest) id is the supplied one; an error type carrying its
    // own id keeps it when encoded bare and loses it to with_instance_id
    let id2 = Uuid::from_u128(0xfedc_ba98_7654_4321_8123_4567_89ab_cdef);
    let own = DynError { own_id: Some(id2), ..e.clone() };
    r.evaluations += 5;
    r.transitions += 5;
    check_encoded(e, &encode(&e.clone().with_instance_id(id2).with_instance_id(id)), Some(id), r, "encode+with_instance_id(x2)");
    check_encoded(e, &encode(&(&e.clone().with_instance_id(id2)).with_instance_id(id)), Some(id), r, "encode((&with_instance_id).with_instance_id)");
    check_encoded(e, &encode(&own), Some(id2), r, "encode(error-with-own-id)");
    check_encoded(e, &encode(&own.clone().with_instance_id(id)), Some(id), r, "encode(error-with-own-id+with_instance_id)");
    check_encoded(e, &encode(&&(&own).with_instance_id(id)), Some(id), r, "encode(&(&error-with-own-id).with_instance_id)");
    if e.code.status_code() != model_status(&e.code) {
        r.violation(format!("C17|status-code|{}", e.code.as_str()), format!("{} maps to HTTP {}", e.code.as_str(), e.code.status_code()), json!({"error": describe(e), "via": "status"}));
    }
    if !all_constructions {
        return;
    }
    r.evaluations += 5;
    r.transitions += 5;
    let s1 = Error::service("cause", e.clone());
    let p1 = params_of(&s1);
    check_encoded_kind(e, &s1, None, r, "Error::service");
    check_partition(e, &s1, &p1, false, false, r, "Error::service");
    let s2 = Error::service_safe("cause", e.clone().with_instance_id(id));
    let p2 = params_of(&s2);
    check_encoded_kind(e, &s2, Some(id), r, "Error::service_safe");
    check_partition(e, &s2, &p2, false, true, r, "Error::service_safe");
    let s7 = Error::service("cause", own.clone().with_instance_id(id));
    check_encoded_kind(e, &s7, Some(id), r, "Error::service(error-with-own-id+with_instance_id)");
    let s8 = Error::service_safe("cause", e.clone().with_instance_id(id2).with_instance_id(id));
    check_encoded_kind(e, &s8, Some(id), r, "Error::service_safe(with_instance_id x2)");
    let s5 = Error::service("cause", &wid);
    check_encoded_kind(e, &s5, Some(id), r, "Error::service(&with_instance_id)");
    check_partition(e, &s5, &params_of(&s5), false, false, r, "Error::service(&with_instance_id)");
    let s6 = Error::service_safe("cause", &e.clone());
    check_encoded_kind(e, &s6, None, r, "Error::service_safe(&e)");
    check_partition(e, &s6, &params_of(&s6), false, true, r, "Error::service_safe(&e)");
    let s3 = Error::propagated_service("cause", with.clone());
    check_partition(e, &s3, with.parameters(), true, false, r, "Error::propagated_service");
    let s4 = Error::propagated_service_safe("cause", with.clone());
    check_partition(e, &s4, with.parameters(), true, true, r, "Error::propagated_service_safe");
}

fn params_of(err: &Error) -> BTreeMap<String, String> {
    match err.kind() {
        ErrorKind::Service(s) => s.parameters().clone(),
        _ => BTreeMap::new(),
    }
}

fn check_encoded_kind(e: &DynError, err: &Error, id: Option<Uuid>, r: &mut Report, what: &str) {
    if let ErrorKind::Service(s) = err.kind() {
        check_encoded(e, s, id, r, what);
    }
}

/// the convenience constructors build the INTERNAL error of the specification; every call is an
/// encoding of its own (fresh instance id), whatever was constructed before it in the process
fn convenience(r: &mut Report) {
    let mut seen = BTreeSet::new();
    for round in 0..6 {
        for (how, err) in [("Error::internal", Error::internal("cause")), ("Error::internal_safe", Error::internal_safe("cause")), ("Error::service(Internal)", Error::service("cause", conjure_error::Internal::new()))] {
            r.states += 1;
            r.evaluations += 1;
            r.transitions += 1;
            let case = json!({"error": "Default:Internal", "via": how, "round": round});
            let ErrorKind::Service(s) = err.kind() else {
                r.violation(format!("C17|convenience|{}|not-a-service-error", how), format!("{} does not build a service error", how), case);
                continue;
            };
            if s.error_code().as_str() != "INTERNAL" || s.error_name() != "Default:Internal" || !s.parameters().is_empty() || !err.safe_params().is_empty() || !err.unsafe_params().is_empty() {
                r.violation(format!("C17|convenience|{}|wrong-form", how), format!("{} encodes as {} / {} with parameters {:?}", how, s.error_code().as_str(), s.error_name(), s.parameters()), case);
            } else if s.error_instance_id().get_version_num() != 4 {
                r.violation(format!("C17|convenience|{}|instance-id-not-random-v4", how), format!("{}: instance id {}", how, s.error_instance_id()), case);
            } else if !seen.insert(s.error_instance_id()) || !FRESH_IDS.lock().unwrap().insert(s.error_instance_id()) {
                r.violation(format!("C17|convenience|{}|instance-id-not-fresh", how), format!("{} (call {} of the sequence) carries the instance id {} that an earlier error of this process already has", how, round + 1, s.error_instance_id()), case);
            } else {
                r.outcome("convenience-constructor:fresh-internal-error");
            }
        }
    }
}

/// error types that occupy no memory but still have scalar parameters (a field whose type has
/// one value: a one-value enum, a marker that serializes as a string), by value and by reference
fn zero_sized(r: &mut Report) {
    #[derive(Clone)]
    struct Phase;
    impl Serialize for Phase {
        fn serialize<S: serde::Serializer>(&self, s: S) -> Result<S::Ok, S::Error> {
            s.serialize_str("INIT")
        }
    }
    #[derive(Clone, serde::Serialize)]
    enum Only {
        #[serde(rename = "SOLE")]
        Sole,
    }
    #[derive(Clone, serde::Serialize)]
    struct Zst {
        phase: Phase,
        only: Only,
        unit: (),
    }
    impl ErrorType for Zst {
        fn code(&self) -> ErrorCode {
            ErrorCode::Conflict
        }
        fn name(&self) -> &str {
            "Verif:ZeroSized"
        }
        fn instance_id(&self) -> Option<Uuid> {
            None
        }
        fn safe_args(&self) -> &'static [&'static str] {
            &["only"]
        }
    }
    assert_eq!(std::mem::size_of::<Zst>(), 0);
    let e = Zst { phase: Phase, only: Only::Sole, unit: () };
    let want: BTreeMap<String, String> = [("phase".to_string(), "INIT".to_string()), ("only".to_string(), "SOLE".to_string())].into_iter().collect();
    r.states += 1;
    let id = Uuid::from_u128(7);
    let runs: Vec<(&str, Result<BTreeMap<String, String>, String>)> = vec![
        ("encode(&e) [T = Zst]", vcommon::catch(|| encode::<Zst>(&e).parameters().clone())),
        ("encode(&&e) [T = &Zst]", vcommon::catch(|| encode::<&Zst>(&&e).parameters().clone())),
        ("encode(&&&e) [T = &&Zst]", vcommon::catch(|| encode::<&&Zst>(&&&e).parameters().clone())),
        ("encode(with_instance_id)", vcommon::catch(|| encode(&e.clone().with_instance_id(id)).parameters().clone())),
        ("Error::service(by value)", vcommon::catch(|| params_of(&Error::service("cause", e.clone())))),
        ("Error::service_safe(&e)", vcommon::catch(|| params_of(&Error::service_safe("cause", &e)))),
    ];
    for (how, got) in runs {
        r.evaluations += 1;
        r.transitions += 1;
        if got.as_ref().ok() == Some(&want) {
            r.outcome("zero-sized-error:parameters-encoded");
        } else {
            r.violation(format!("C17|zero-sized-error|{}", how), format!("a zero-sized error type with two scalar parameters: {} gives parameters {:?}, expected {:?}", how, got, want), json!({"error": "zero-sized", "via": how}));
        }
    }
}

const NAMES: [&str; 6] = ["a", "b", "c", "d", "e", "f"];

pub fn run(args: &Args) -> Report {
    let mut report = Report::new("C17", "model_checking");
    let new = || Report::new("C17", "model_checking");
    let merge = |mut a: Report, b: Report| {
        a.merge(b);
        a
    };

    // ---- part 1: one parameter of every shape x value, safe and unsafe, skipped-or-null
    let keys = [Leaf::Str, Leaf::F64, Leaf::Enum];
    let depth = args.tier.pick(2, 3);
    let mut shapes = space::shapes_up_to(depth, &CONJURE_LEAVES, &keys);
    // every kind of map key (binary, boolean, integer, uuid, rid, token, datetime keys are Conjure
    // map keys too), at depth 2
    let all_keys = [Leaf::Bytes, Leaf::Bool, Leaf::I32, Leaf::I64, Leaf::Uuid, Leaf::Rid, Leaf::Token, Leaf::DateTime];
    let have: std::collections::BTreeSet<String> = shapes.iter().map(|s| s.text()).collect();
    shapes.extend(space::shapes_up_to(2, &[Leaf::Str, Leaf::I32, Leaf::Bytes], &all_keys).into_iter().filter(|s| !have.contains(&s.text())));
    let cs = codes();
    let p1 = shapes
        .par_iter()
        .enumerate()
        .fold(new, |mut r, (i, shape)| {
            for (j, val) in space::values(shape, 1).into_iter().enumerate() {
                for safe in [true, false] {
                    for skip in [true, false] {
                        if skip && !is_empty_val(&val) {
                            continue;
                        }
                        let e = DynError {
                            code: cs[(i + j) % cs.len()].clone(),
                            name: "Verif:OneParam",
                            fields: vec![Field { name: "fooBar", shape: shape.clone(), val: val.clone(), safe, skip_if_empty: skip }],
                            own_id: None,
                        };
                        // the Error constructors capture a back-trace each: use them on every
                        // shape but only on the first values
                        check_error(&e, &mut r, j < 3);
                    }
                }
            }
            if shape.depth() == 1 {
                r.sample("one-parameter", json!({"shape": shape.text()}));
            }
            r
        })
        .reduce(new, merge);
    report.merge(p1);
    // the same for the other integer widths (scalar and optional)
    let mut px = new();
    for l in [Leaf::I8, Leaf::I16, Leaf::RawI64, Leaf::U8, Leaf::U16, Leaf::U32, Leaf::U64] {
        for shape in [Shape::Leaf(l), Shape::opt(Shape::Leaf(l))] {
            for (j, val) in space::values(&shape, 1).into_iter().enumerate() {
                for safe in [true, false] {
                    let e = DynError { code: cs[j % cs.len()].clone(), name: "Verif:OneParam", fields: vec![Field { name: "fooBar", shape: shape.clone(), val: val.clone(), safe, skip_if_empty: false }], own_id: None };
                    check_error(&e, &mut px, true);
                }
            }
        }
    }
    report.merge(px);

    // ---- part 2: every error definition over 6 names x {not defined, safe, unsafe} x
    //      {scalar, omitted (list), omitted (absent optional)} with <= 3 safe and <= 3 unsafe
    let kinds: [(Shape, Val); 3] = [
        (Shape::Leaf(Leaf::Str), Val::Str("v".into())),
        (Shape::seq(Shape::Leaf(Leaf::Str)), Val::Seq(vec![Val::Str("x".into())])),
        (Shape::opt(Shape::Leaf(Leaf::I32)), Val::None),
    ];
    // options per name: 0 = not defined; 1..=3 safe with kind k; 4..=6 unsafe with kind k
    let names: &[&'static str] = if args.tier.is_thorough() { &NAMES } else { &NAMES[..5] };
    let total = 7u64.pow(names.len() as u32);
    let max_args = args.tier.pick(3usize, 3usize);
    let p2 = (0..total)
        .into_par_iter()
        .fold(new, |mut r, idx| {
            let mut n = idx;
            let mut fields = vec![];
            let (mut ns, mut nu) = (0, 0);
            for name in names.iter().copied() {
                let o = (n % 7) as usize;
                n /= 7;
                if o == 0 {
                    continue;
                }
                let safe = o <= 3;
                if safe {
                    ns += 1
                } else {
                    nu += 1
                }
                let (shape, val) = kinds[(o - 1) % 3].clone();
                fields.push(Field { name, shape, val, safe, skip_if_empty: false });
            }
            if ns > max_args || nu > max_args {
                return r;
            }
            let e = DynError { code: ErrorCode::Conflict, name: "Verif:Partition", fields, own_id: None };
            check_error(&e, &mut r, true);
            if idx == 7u64.pow(4) + 9 {
                r.sample("partition", describe(&e));
            }
            r
        })
        .reduce(new, merge);
    report.merge(p2);

    // ---- part 3: every code x status
    for c in codes() {
        let e = DynError { code: c, name: "Verif:Code", fields: vec![], own_id: None };
        check_error(&e, &mut report, true);
    }
    zero_sized(&mut report);
    convenience(&mut report);

    report.bound("one_parameter_shape_depth", depth);
    report.bound("partition_names", json!(names));
    report.bound("partition_max_safe_and_unsafe_args", max_args);
    report.nontrivial = report.states;
    report.rule = "states = error values: (1) one parameter of every shape of the C01 grammar up to the depth bound x its value set x {safe, unsafe} x {serialized as null/empty, skipped}; (2) every definition assigning each of 6 names one of {undefined, safe, unsafe} x {scalar, list, absent optional} with at most N safe and N unsafe args; (3) every error code. Each is encoded (with and without instance id) and built through the 4 service constructors".into();
    report.assumptions.push("parameter types the statement does not list (datetime, bearer token, any) are not judged for presence, only for partition consistency".into());
    report.assumptions.push("doubles: any text that Rust's f64 parser reads back to the same number is accepted".into());
    report
}
