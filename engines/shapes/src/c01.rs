//! C01 — JSON and Smile wrappers round-trip every Conjure value in Conjure encoding.

use crate::dynamic::{val_eq, with_shape, DynOut, Leaf, Shape, Typed, Val, CONJURE_LEAVES};
use crate::space;
use crate::wire;
use rayon::prelude::*;
use serde::{Deserialize, Serialize};
use serde_json::json;
use std::io::Read;
use vcommon::{Args, Report};

/// hands out at most `k` bytes per read call (k = 0: everything)
pub struct ShortReader<'a> {
    pub data: &'a [u8],
    pub k: usize,
}

impl Read for ShortReader<'_> {
    fn read(&mut self, buf: &mut [u8]) -> std::io::Result<usize> {
        let mut n = self.data.len().min(buf.len());
        if self.k > 0 {
            n = n.min(self.k);
        }
        buf[..n].copy_from_slice(&self.data[..n]);
        self.data = &self.data[n..];
        Ok(n)
    }
}

/// a reader that answers every other call with `ErrorKind::Interrupted` (a signal arrived) and
/// otherwise hands out at most `k` bytes: `io::Read` callers must simply retry
pub struct IntrReader<'a> {
    pub data: &'a [u8],
    pub k: usize,
    pub tick: usize,
}

impl IntrReader<'_> {
    fn interrupted(&mut self) -> bool {
        self.tick += 1;
        self.tick % 2 == 1
    }
}

impl Read for IntrReader<'_> {
    fn read(&mut self, buf: &mut [u8]) -> std::io::Result<usize> {
        if self.interrupted() {
            return Err(std::io::Error::new(std::io::ErrorKind::Interrupted, "interrupted"));
        }
        let n = self.data.len().min(buf.len()).min(self.k);
        buf[..n].copy_from_slice(&self.data[..n]);
        self.data = &self.data[n..];
        Ok(n)
    }
}

impl std::io::BufRead for IntrReader<'_> {
    fn fill_buf(&mut self) -> std::io::Result<&[u8]> {
        if self.interrupted() {
            return Err(std::io::Error::new(std::io::ErrorKind::Interrupted, "interrupted"));
        }
        Ok(&self.data[..self.data.len().min(self.k)])
    }
    fn consume(&mut self, amt: usize) {
        self.data = &self.data[amt..];
    }
}

/// a writer that takes at most `k` bytes per call (what sockets and pipes do) and answers the
/// first call with `Interrupted` when `intr` is set — both are within `io::Write`'s contract
pub struct ShortWriter {
    pub out: Vec<u8>,
    pub k: usize,
    pub intr: bool,
}

impl std::io::Write for ShortWriter {
    fn write(&mut self, buf: &[u8]) -> std::io::Result<usize> {
        if self.intr {
            self.intr = false;
            return Err(std::io::Error::new(std::io::ErrorKind::Interrupted, "interrupted"));
        }
        let n = buf.len().min(self.k);
        self.out.extend_from_slice(&buf[..n]);
        Ok(n)
    }
    fn flush(&mut self) -> std::io::Result<()> {
        Ok(())
    }
}

/// writers other than a Vec: short writes, an interrupted first write, an exactly sized slice
/// (complete output) and a slice one byte too small (must be an error, never a silent cut)
fn writer_kinds(st: &str, want: &[u8], write: &dyn Fn(&mut dyn std::io::Write) -> Result<(), String>) -> Vec<(&'static str, String)> {
    let mut out = vec![];
    for (k, intr) in [(1usize, false), (3, false), (2, true)] {
        let mut w = ShortWriter { out: vec![], k, intr };
        let res = write(&mut w);
        if res.is_err() || w.out != want {
            out.push(("to_writer(short writes)", format!("{}: a writer taking {} byte(s) per call{} received {:?} ({:?}), to_vec = {:?}", st, k, if intr { " after one Interrupted" } else { "" }, String::from_utf8_lossy(&w.out), res, String::from_utf8_lossy(want))));
        }
    }
    let mut exact = vec![0u8; want.len()];
    {
        let mut sl: &mut [u8] = &mut exact[..];
        let res = write(&mut sl);
        let left = sl.len();
        if res.is_err() || left != 0 || exact != want {
            out.push(("to_writer(exact slice)", format!("{}: writing into an exactly sized slice gave {:?}, {} bytes unused", st, res, left)));
        }
    }
    if !want.is_empty() {
        let mut small = vec![0u8; want.len() - 1];
        let mut sl: &mut [u8] = &mut small[..];
        if write(&mut sl).is_ok() {
            out.push(("to_writer(slice too small)", format!("{}: writing {} bytes into a slice of {} reported success", st, want.len(), want.len() - 1)));
        }
    }
    out
}

impl std::io::BufRead for ShortReader<'_> {
    fn fill_buf(&mut self) -> std::io::Result<&[u8]> {
        let n = if self.k > 0 { self.data.len().min(self.k) } else { self.data.len() };
        Ok(&self.data[..n])
    }
    fn consume(&mut self, amt: usize) {
        self.data = &self.data[amt..];
    }
}

type DeResult = Result<Val, String>;

fn wrap<E: std::fmt::Display>(r: Result<DynOut, E>) -> DeResult {
    r.map(|d| d.0).map_err(|e| e.to_string())
}

/// drive a deserializer struct by hand: value first, then the end-of-input check
fn direct<D, E1: std::fmt::Display, E2: std::fmt::Display>(mut de: D, value: impl FnOnce(&mut D) -> Result<DynOut, E1>, end: impl FnOnce(&mut D) -> Result<(), E2>) -> DeResult {
    let v = value(&mut de).map_err(|e| e.to_string())?;
    end(&mut de).map_err(|e| format!("end(): {}", e))?;
    Ok(v.0)
}

/// one document in 8 (chosen by its bytes, so that a replay chooses alike) is preceded, on the
/// same thread and through every path, by a refused one (the same document cut short, and with
/// a stray byte): a rejection must leave nothing behind
fn refused_first(json: bool, doc: &[u8]) {
    let h = doc.iter().fold(0xcbf29ce484222325u64, |h, b| (h ^ *b as u64).wrapping_mul(0x100000001b3));
    if h % 8 != 0 || doc.len() < 2 {
        return;
    }
    let cut = &doc[..doc.len() - 1];
    let mut stray = doc.to_vec();
    stray.insert(doc.len() / 2, if json { b'#' } else { 0xff });
    for bad in [cut, &stray[..]] {
        let _ = vcommon::catch(|| if json { json_de_paths_raw(bad).len() } else { smile_de_paths_raw(bad).len() });
    }
}

pub fn json_de_paths(text: &[u8]) -> Vec<(&'static str, DeResult)> {
    refused_first(true, text);
    json_de_paths_raw(text)
}

pub fn smile_de_paths(bytes: &[u8]) -> Vec<(&'static str, DeResult)> {
    refused_first(false, bytes);
    smile_de_paths_raw(bytes)
}

fn json_de_paths_raw(text: &[u8]) -> Vec<(&'static str, DeResult)> {
    let s = std::str::from_utf8(text).unwrap_or("");
    use conjure_serde::json as cj;
    vec![
        ("json:client_from_str", wrap(cj::client_from_str::<DynOut>(s))),
        ("json:server_from_str", wrap(cj::server_from_str::<DynOut>(s))),
        ("json:client_from_slice", wrap(cj::client_from_slice::<DynOut>(text))),
        ("json:server_from_slice", wrap(cj::server_from_slice::<DynOut>(text))),
        ("json:client_from_reader", wrap(cj::client_from_reader::<_, DynOut>(ShortReader { data: text, k: 0 }))),
        ("json:server_from_reader", wrap(cj::server_from_reader::<_, DynOut>(ShortReader { data: text, k: 0 }))),
        ("json:client_from_reader/1", wrap(cj::client_from_reader::<_, DynOut>(ShortReader { data: text, k: 1 }))),
        ("json:server_from_reader/1", wrap(cj::server_from_reader::<_, DynOut>(ShortReader { data: text, k: 1 }))),
        ("json:client_from_reader/2", wrap(cj::client_from_reader::<_, DynOut>(ShortReader { data: text, k: 2 }))),
        ("json:server_from_reader/2", wrap(cj::server_from_reader::<_, DynOut>(ShortReader { data: text, k: 2 }))),
        ("json:client_from_reader/interrupted", wrap(cj::client_from_reader::<_, DynOut>(IntrReader { data: text, k: 3, tick: 0 }))),
        ("json:server_from_reader/interrupted", wrap(cj::server_from_reader::<_, DynOut>(IntrReader { data: text, k: 3, tick: 0 }))),
        // the deserializer structs driven by hand (deserialize, then end())
        ("json:ClientDeserializer::from_str", direct(cj::ClientDeserializer::from_str(s), |d| DynOut::deserialize(d), |d| d.end())),
        ("json:ClientDeserializer::from_slice", direct(cj::ClientDeserializer::from_slice(text), |d| DynOut::deserialize(d), |d| d.end())),
        ("json:ClientDeserializer::from_reader", direct(cj::ClientDeserializer::from_reader(ShortReader { data: text, k: 3 }), |d| DynOut::deserialize(d), |d| d.end())),
        ("json:ServerDeserializer::from_str", direct(cj::ServerDeserializer::from_str(s), |d| DynOut::deserialize(d), |d| d.end())),
        ("json:ServerDeserializer::from_slice", direct(cj::ServerDeserializer::from_slice(text), |d| DynOut::deserialize(d), |d| d.end())),
        ("json:ServerDeserializer::from_reader", direct(cj::ServerDeserializer::from_reader(ShortReader { data: text, k: 3 }), |d| DynOut::deserialize(d), |d| d.end())),
    ]
}

fn smile_de_paths_raw(bytes: &[u8]) -> Vec<(&'static str, DeResult)> {
    use conjure_serde::smile as cs;
    let mut m1 = bytes.to_vec();
    let mut m2 = bytes.to_vec();
    vec![
        ("smile:client_from_slice", wrap(cs::client_from_slice::<DynOut>(bytes))),
        ("smile:server_from_slice", wrap(cs::server_from_slice::<DynOut>(bytes))),
        ("smile:client_from_mut_slice", wrap(cs::client_from_mut_slice::<DynOut>(&mut m1))),
        ("smile:server_from_mut_slice", wrap(cs::server_from_mut_slice::<DynOut>(&mut m2))),
        ("smile:client_from_reader", wrap(cs::client_from_reader::<_, DynOut>(ShortReader { data: bytes, k: 0 }))),
        ("smile:server_from_reader", wrap(cs::server_from_reader::<_, DynOut>(ShortReader { data: bytes, k: 0 }))),
        ("smile:client_from_reader/1", wrap(cs::client_from_reader::<_, DynOut>(ShortReader { data: bytes, k: 1 }))),
        ("smile:server_from_reader/1", wrap(cs::server_from_reader::<_, DynOut>(ShortReader { data: bytes, k: 1 }))),
        ("smile:client_from_reader/2", wrap(cs::client_from_reader::<_, DynOut>(ShortReader { data: bytes, k: 2 }))),
        ("smile:server_from_reader/2", wrap(cs::server_from_reader::<_, DynOut>(ShortReader { data: bytes, k: 2 }))),
        // (an `Interrupted` answer from a BufRead is not retried by serde_smile's own reader - the
        // dependency's behaviour, not conjure-serde's; only the JSON readers get IntrReader)
        ("smile:ClientDeserializer::from_slice", direct(cs::ClientDeserializer::from_slice(bytes), |d| DynOut::deserialize(d), |d| d.end())),
        ("smile:ServerDeserializer::from_slice", direct(cs::ServerDeserializer::from_slice(bytes), |d| DynOut::deserialize(d), |d| d.end())),
        ("smile:ClientDeserializer::from_reader", direct(cs::ClientDeserializer::from_reader(ShortReader { data: bytes, k: 3 }), |d| DynOut::deserialize(d), |d| d.end())),
        ("smile:ServerDeserializer::from_reader", direct(cs::ServerDeserializer::from_reader(ShortReader { data: bytes, k: 3 }), |d| DynOut::deserialize(d), |d| d.end())),
    ]
}

pub fn json_pretty<T: Serialize>(v: &T) -> Result<Vec<u8>, String> {
    let mut buf = vec![];
    let mut ser = conjure_serde::json::Serializer::pretty(&mut buf);
    v.serialize(&mut ser).map_err(|e| e.to_string())?;
    Ok(buf)
}

/// which value class the case exercises, for signatures
fn leaf_kinds(s: &Shape, out: &mut Vec<String>) {
    match s {
        Shape::Leaf(l) => out.push(format!("{:?}", l).to_lowercase()),
        Shape::Option(i) | Shape::Seq(i) | Shape::NewtypeStruct(_, i) | Shape::RichEnum(i) => leaf_kinds(i, out),
        Shape::Map(k, i) => {
            out.push(format!("key:{:?}", k).to_lowercase());
            leaf_kinds(i, out)
        }
        Shape::Struct(_, fs) => fs.iter().for_each(|f| leaf_kinds(&f.1, out)),
        Shape::Tuple(fs) | Shape::TupleStruct(_, fs) => fs.iter().for_each(|f| leaf_kinds(f, out)),
    }
}

pub fn check_case(shape: &Shape, val: &Val, r: &mut Report) {
    check_case_tagged(shape, val, r, None)
}

fn clip(mut s: String) -> String {
    if s.len() > 700 {
        let mut cut = 700;
        while !s.is_char_boundary(cut) {
            cut -= 1;
        }
        s.truncate(cut);
        s.push_str("...");
    }
    s
}

/// `tag`: for generated large values, the recipe (kind, n) that rebuilds the value on replay
pub fn check_case_tagged(shape: &Shape, val: &Val, r: &mut Report, tag: Option<&serde_json::Value>) {
    r.states += 1;
    let typed = Typed(shape, val);
    let st = shape.text();
    let case = |path: &str| match tag {
        Some(t) => json!({"shape": st, "size_case": t, "path": path}),
        None => json!({"shape": st, "value": format!("{:?}", val), "path": path}),
    };
    let verdict_bearing = shape.is_conjure();
    let mut fail = |r: &mut Report, fmt: &str, oracle: &str, path: &str, msg: String| {
        if verdict_bearing {
            let sig = match tag {
                Some(t) => format!("C01|{}|{}|{}|{}|size:{}", fmt, oracle, path, st, t["class"].as_str().unwrap_or("")),
                None => format!("C01|{}|{}|{}|{}", fmt, oracle, path, st),
            };
            r.violation(sig, clip(msg), case(path));
        } else {
            r.outcome("informational-mismatch");
        }
    };

    // ---------------- JSON
    use conjure_serde::json as cj;
    r.transitions += 4;
    let a = match cj::to_vec(&typed) {
        Ok(a) => a,
        Err(e) => {
            fail(r, "json", "serialize", "to_vec", format!("{} value {:?}: to_vec failed: {}", st, val, e));
            return;
        }
    };
    match cj::to_string(&typed) {
        Ok(s) if s.as_bytes() == a.as_slice() => {}
        other => fail(r, "json", "serializers-agree", "to_string", format!("{}: to_string = {:?}, to_vec = {:?}", st, other.map_err(|e| e.to_string()), String::from_utf8_lossy(&a))),
    }
    let mut w = vec![];
    match cj::to_writer(&mut w, &typed) {
        Ok(()) if w == a => {}
        other => fail(r, "json", "serializers-agree", "to_writer", format!("{}: to_writer = {:?} / {:?}, to_vec = {:?}", st, other.map_err(|e| e.to_string()), String::from_utf8_lossy(&w), String::from_utf8_lossy(&a))),
    }
    for (path, msg) in writer_kinds(&st, &a, &|w| cj::to_writer(w, &typed).map_err(|e| e.to_string())) {
        fail(r, "json", "serializers-agree", path, msg);
    }
    {
        use serde::Serialize as _;
        let mut w1 = vec![];
        let r1 = typed.serialize(&mut cj::Serializer::new(&mut w1)).map_err(|e| e.to_string());
        let mut w2 = vec![];
        let r2 = typed.serialize(&mut cj::Serializer::with_formatter(&mut w2, serde_json::ser::CompactFormatter)).map_err(|e| e.to_string());
        if r1.is_err() || r2.is_err() || w1 != a || w2 != a {
            fail(r, "json", "serializers-agree", "Serializer::new/with_formatter", format!("{}: Serializer::new -> {:?} {:?}, with_formatter -> {:?} {:?}, to_vec = {:?}", st, r1, String::from_utf8_lossy(&w1), r2, String::from_utf8_lossy(&w2), String::from_utf8_lossy(&a)));
        }
    }
    // (b) standard JSON in the Conjure encoding
    let parsed: Result<serde_json::Value, _> = serde_json::from_slice(&a);
    match &parsed {
        Ok(j) => {
            if verdict_bearing {
                if let Err(m) = wire::json_matches(shape, val, j) {
                    fail(r, "json", "encoding", "to_vec", m);
                }
            }
        }
        Err(e) => fail(r, "json", "standard-json", "to_vec", format!("{}: output {:?} is not standard JSON: {}", st, String::from_utf8_lossy(&a), e)),
    }
    // (d) pretty == compact as values
    let pretty = json_pretty(&typed);
    match (&pretty, &parsed) {
        (Ok(p), Ok(j)) => match serde_json::from_slice::<serde_json::Value>(p) {
            Ok(pj) if pj == *j => {}
            other => fail(r, "json", "pretty-equals-compact", "pretty", format!("{}: pretty output {:?} parses to {:?}, compact to {}", st, String::from_utf8_lossy(p), other.map_err(|e| e.to_string()), j)),
        },
        (Err(e), _) => fail(r, "json", "serialize", "pretty", format!("{}: pretty serializer failed: {}", st, e)),
        _ => {}
    }
    // (a) round trip through every deserializer x source
    let mut inputs: Vec<(&str, &[u8])> = vec![("compact", &a)];
    if let Ok(p) = &pretty {
        inputs.push(("pretty", p));
    }
    for (which, text) in inputs {
        for (path, got) in with_shape(shape, || json_de_paths(text)) {
            r.transitions += 1;
            r.evaluations += 1;
            match got {
                Ok(v) if val_eq(&v, val) => r.outcome("json:roundtrip-ok"),
                Ok(v) => fail(r, "json", "roundtrip", path, format!("{} value {:?} -> {} {:?} -> {:?} via {}", st, val, which, String::from_utf8_lossy(text), v, path)),
                Err(e) => fail(r, "json", "roundtrip", path, format!("{} value {:?} -> {} {:?} rejected by {}: {}", st, val, which, String::from_utf8_lossy(text), path, e)),
            }
        }
    }

    // ---------------- Smile
    use conjure_serde::smile as cs;
    r.transitions += 2;
    let b = match cs::to_vec(&typed) {
        Ok(b) => b,
        Err(e) => {
            fail(r, "smile", "serialize", "to_vec", format!("{} value {:?}: smile to_vec failed: {}", st, val, e));
            return;
        }
    };
    let mut w = vec![];
    match cs::to_writer(&mut w, &typed) {
        Ok(()) if w == b => {}
        other => fail(r, "smile", "serializers-agree", "to_writer", format!("{}: smile to_writer differs from to_vec ({:?})", st, other.map_err(|e| e.to_string()))),
    }
    for (path, msg) in writer_kinds(&st, &b, &|w| cs::to_writer(w, &typed).map_err(|e| e.to_string())) {
        fail(r, "smile", "serializers-agree", path, msg);
    }
    {
        use serde::Serialize as _;
        let mut w1 = vec![];
        let mut ser = cs::Serializer::new(&mut w1);
        let r1 = typed.serialize(&mut ser).map_err(|e| e.to_string());
        drop(ser);
        if r1.is_err() || w1 != b {
            fail(r, "smile", "serializers-agree", "Serializer::new", format!("{}: smile Serializer::new differs from to_vec ({:?})", st, r1));
        }
    }
    match serde_smile::from_slice::<serde_smile::value::Value>(&b) {
        Ok(tree) => {
            if verdict_bearing {
                if let Err(m) = wire::smile_matches(shape, val, true, &tree) {
                    fail(r, "smile", "encoding", "to_vec", m);
                }
            }
        }
        Err(e) => fail(r, "smile", "standard-smile", "to_vec", format!("{}: output is not readable by plain serde_smile: {}", st, e)),
    }
    for (path, got) in with_shape(shape, || smile_de_paths(&b)) {
        r.transitions += 1;
        r.evaluations += 1;
        match got {
            Ok(v) if val_eq(&v, val) => r.outcome("smile:roundtrip-ok"),
            Ok(v) => fail(r, "smile", "roundtrip", path, format!("{} value {:?} -> smile -> {:?} via {}", st, val, v, path)),
            Err(e) => fail(r, "smile", "roundtrip", path, format!("{} value {:?} -> smile {:02x?} rejected by {}: {}", st, val, b, path, e)),
        }
    }
    let mut kinds = vec![];
    leaf_kinds(shape, &mut kinds);
    for k in kinds {
        r.outcome(&format!("covers:{}", k));
    }
}

/// wide value sets per leaf kind (boundaries of every power of two and ten, every ASCII
/// character, calendar and sub-second boundaries, ...)
pub fn leaf_sweep(l: Leaf) -> Vec<Val> {
    let mut out = vec![];
    match l {
        Leaf::I32 => {
            let mut xs: Vec<i64> = vec![0];
            for k in 0..31 {
                for d in [-1i64, 0, 1] {
                    xs.push((1i64 << k) + d);
                    xs.push(-(1i64 << k) + d);
                }
            }
            let mut p = 1i64;
            while p < i32::MAX as i64 {
                xs.extend([p - 1, p, p + 1, -p - 1, -p, -p + 1]);
                p *= 10;
            }
            xs.extend([i32::MAX as i64, i32::MIN as i64]);
            xs.sort();
            xs.dedup();
            out.extend(xs.into_iter().filter(|x| *x >= i32::MIN as i64 && *x <= i32::MAX as i64).map(|x| Val::I32(x as i32)));
        }
        Leaf::I64 => {
            let max = (1i64 << 53) - 1;
            let mut xs: Vec<i64> = vec![0, max, -max];
            for k in 0..53 {
                for d in [-1i64, 0, 1] {
                    xs.push((1i64 << k) + d);
                    xs.push(-(1i64 << k) + d);
                }
            }
            let mut p = 1i64;
            while p < max {
                xs.extend([p - 1, p, p + 1, -p - 1, -p, -p + 1]);
                p *= 10;
            }
            xs.sort();
            xs.dedup();
            out.extend(xs.into_iter().filter(|x| x.abs() <= max).map(Val::I64));
        }
        Leaf::Str => {
            for c in (0u32..128).chain([0x80, 0xff, 0x100, 0x7ff, 0x800, 0xd7ff, 0xe000, 0xfffd, 0xffff, 0x10000, 0x10ffff, 0x2028, 0x2029, 0xfeff]) {
                if let Some(ch) = char::from_u32(c) {
                    out.push(Val::Str(ch.to_string()));
                    out.push(Val::Str(format!("a{}b", ch)));
                }
            }
            for s in ["null", "false", "-0", "1e5", "Infinity", "-Infinity", "0x10", " lead", "trail ", "\\u0041", "\\", "\\\"", "{}", "[]", "/", "\u{0}\u{0}"] {
                out.push(Val::Str(s.to_string()));
            }
        }
        Leaf::Uuid => {
            for k in 0..16u32 {
                let nib = k as u128;
                let mut v = 0u128;
                for i in 0..32 {
                    v |= ((nib + i as u128) % 16) << (4 * i);
                }
                out.push(Val::Uuid(v));
            }
            out.extend([Val::Uuid(1), Val::Uuid(1 << 127), Val::Uuid(0x8000_0000_0000_0000), Val::Uuid(0xffff_ffff_0000_0000_0000_0000_0000_0000)]);
        }
        Leaf::DateTime => {
            // year 0000, 0001, 1582, 1969/1970 boundary, a leap day, 2038, 9999; sub-second boundaries
            let secs = [-62167219200i64, -62135596800, -12219292800, -86400, -1, 0, 1, 951782400, 951868799, 2147483647, 2147483648, 4102444800, 253402300799];
            let nanos = [0u32, 1, 999, 1000, 999_999, 1_000_000, 100_000_000, 123_456_789, 999_999_999];
            for sct in secs {
                for n in nanos {
                    out.push(Val::DateTime(sct, n));
                }
            }
        }
        Leaf::Rid => {
            for r in ["ri.a..b.c", "ri.a.0.b.c", "ri.a-b.c-d.e-f.G_h.-", "ri.a1.1a.b2.3", "ri.s.i.t.l.o.c.a.t.o.r", "ri.service.instance.type.locator-with_all.Chars-09AZ", "ri.x.y.z.-", "ri.x.y.z._", "ri.x.y.z.."] {
                out.push(Val::Rid(r.to_string()));
            }
        }
        Leaf::Token => {
            for t in ["a", "0", "-", ".", "_", "~", "+", "/", "a=", "a==", "a===", "AZaz09-._~+/=", "eyJhbGciOiJIUzI1NiJ9.e30.x-y_z"] {
                out.push(Val::Token(t.to_string()));
            }
        }
        _ => {}
    }
    out
}

const MANTISSAS: [u64; 16] = [
    0, 1, 2, 3, 0xF_FFFF_FFFF_FFFF, 0xF_FFFF_FFFF_FFFE, 0x8_0000_0000_0000, 0x5_5555_5555_5555, 0xA_AAAA_AAAA_AAAA, 0x1_2345_6789_ABCD, 0x3_243F_6A88_85A3, 0xB_7E15_1628_AED2, 0x9_E377_9B97_F4A7, 0x6_A09E_667F_3BCD,
    0x7_FFFF_FFFF_FFFF, 0x0_0000_0000_FFFF,
];

/// finite doubles: every (thorough) or every 7th (quick) biased exponent x mantissa patterns x sign
pub fn double_grid(thorough: bool) -> Vec<u64> {
    let mut out = vec![];
    let step = if thorough { 1 } else { 7 };
    let mut e = 0u64;
    while e < 2047 {
        for m in MANTISSAS {
            for sign in [0u64, 1] {
                out.push((sign << 63) | (e << 52) | m);
            }
        }
        e += step;
    }
    out
}

fn double_class(bits: u64) -> &'static str {
    match (bits >> 52) & 0x7ff {
        0 => "subnormal",
        1..=700 => "tiny",
        701..=1200 => "middle",
        _ => "huge",
    }
}

pub const SIZE_KINDS: [&str; 10] = ["binary", "binary-key", "list<binary>", "optional<binary>", "struct{binary}", "string", "string-key", "list<i32>*n", "map<i32,bool>*n", "list<string>*n"];

/// lengths around every power of two and multiple-of-three block boundary
pub fn size_points(thorough: bool) -> Vec<usize> {
    let mut v: Vec<usize> = (0..=70).collect();
    if thorough {
        v.extend(71..=4200);
        for c in [8192usize, 12288, 16384, 32768, 49152, 65536, 98304, 131072, 196608, 262144, 1 << 20] {
            v.extend(c - 3..=c + 3);
        }
    } else {
        for c in [128usize, 192, 256, 384, 512, 768, 1024, 1536, 2048, 3072, 4096, 6144, 8192, 16384, 65536] {
            v.extend(c - 2..=c + 2);
        }
    }
    v.sort();
    v.dedup();
    v
}

fn size_class(n: usize) -> &'static str {
    match n {
        0..=70 => "n<=70",
        71..=1023 => "n<1024",
        1024..=4200 => "n<=4200",
        _ => "n>4200",
    }
}

fn pattern_bytes(n: usize) -> Vec<u8> {
    (0..n).map(|i| ((i * 7 + 3) % 256) as u8).collect()
}

fn pattern_string(n: usize) -> String {
    // quotes, backslashes, controls and multi-byte characters at rotating offsets
    const CS: [char; 11] = ['a', '"', 'b', '\\', 'c', '\n', '\u{e9}', 'd', '\u{10000}', '\u{7f}', '\u{0}'];
    (0..n).map(|i| CS[i % CS.len()]).collect()
}

pub fn sized_case(kind: &str, n: usize) -> Option<(Shape, Val)> {
    let bin = Shape::Leaf(Leaf::Bytes);
    let i32s = Shape::Leaf(Leaf::I32);
    let string = Shape::Leaf(Leaf::Str);
    Some(match kind {
        "binary" => (bin, Val::Bytes(pattern_bytes(n))),
        "binary-key" => (Shape::Map(Leaf::Bytes, Box::new(i32s)), Val::Map(vec![(Val::Bytes(pattern_bytes(n)), Val::I32(1))])),
        "list<binary>" => (Shape::Seq(Box::new(bin)), Val::Seq(vec![Val::Bytes(pattern_bytes(n)), Val::Bytes(vec![1]), Val::Bytes(pattern_bytes(n / 2))])),
        "optional<binary>" => (Shape::Option(Box::new(bin)), Val::Some(Box::new(Val::Bytes(pattern_bytes(n))))),
        "struct{binary}" => {
            let sh = crate::space::shapes_up_to(1, &[Leaf::Bytes], &[Leaf::Str]).into_iter().find(|s| matches!(s, Shape::Struct(..)))?;
            let mut v = crate::space::default_val(&sh);
            if let Val::Struct(fs) = &mut v {
                fs[0] = Val::Bytes(pattern_bytes(n));
            }
            (sh, v)
        }
        "string" => (string, Val::Str(pattern_string(n))),
        "string-key" => (Shape::Map(Leaf::Str, Box::new(i32s)), Val::Map(vec![(Val::Str(pattern_string(n)), Val::I32(1))])),
        "list<i32>*n" if n <= 70_000 => (Shape::Seq(Box::new(i32s)), Val::Seq((0..n).map(|i| Val::I32(i as i32 * 31 - 1000)).collect())),
        "map<i32,bool>*n" if n <= 70_000 => (Shape::Map(Leaf::I32, Box::new(Shape::Leaf(Leaf::Bool))), Val::Map((0..n).map(|i| (Val::I32(i as i32 - 5), Val::Bool(i % 3 == 0))).collect())),
        "list<string>*n" if n <= 70_000 => (Shape::Seq(Box::new(string)), Val::Seq((0..n).map(|i| Val::Str(pattern_string(i % 5))).collect())),
        _ => return None,
    })
}

pub fn shape_space(args: &Args) -> (Vec<Shape>, usize, serde_json::Value) {
    let keys: Vec<Leaf> = CONJURE_LEAVES.to_vec();
    let mut shapes = vec![];
    let bounds;
    if args.tier.is_thorough() {
        shapes.extend(space::shapes_up_to(3, &CONJURE_LEAVES, &keys));
        // depth 4 with string keys only
        for s in space::shapes_up_to(4, &CONJURE_LEAVES, &[Leaf::Str]) {
            if s.depth() == 4 {
                shapes.push(s);
            }
        }
        bounds = json!({"depth_all_keys": 3, "depth_string_keys": 4, "full_product_depth": 1});
    } else {
        shapes.extend(space::shapes_up_to(2, &CONJURE_LEAVES, &keys));
        for s in space::shapes_up_to(3, &CONJURE_LEAVES, &[Leaf::Str]) {
            if s.depth() == 3 {
                shapes.push(s);
            }
        }
        bounds = json!({"depth_all_keys": 2, "depth_string_keys": 3, "full_product_depth": 1});
    }
    (shapes, 1, bounds)
}

// ---------------------------------------------------------------- types whose serde form depends on is_human_readable

pub mod hr {
    use serde::{Deserialize, Deserializer, Serialize, Serializer};
    use std::collections::BTreeMap;
    use std::net::IpAddr;

    /// writes "hr" to a human-readable format and 7u8 to a binary one; reading asks the
    /// deserializer the same question and remembers the answer
    #[derive(PartialEq, Debug, Clone)]
    pub struct Probe(pub bool);

    impl Serialize for Probe {
        fn serialize<S: Serializer>(&self, s: S) -> Result<S::Ok, S::Error> {
            if s.is_human_readable() {
                s.serialize_str("hr")
            } else {
                s.serialize_u8(7)
            }
        }
    }

    impl<'de> Deserialize<'de> for Probe {
        fn deserialize<D: Deserializer<'de>>(d: D) -> Result<Self, D::Error> {
            if d.is_human_readable() {
                let s = String::deserialize(d)?;
                if s == "hr" {
                    Ok(Probe(true))
                } else {
                    Err(serde::de::Error::custom("expected \"hr\""))
                }
            } else {
                let n = u8::deserialize(d)?;
                if n == 7 {
                    Ok(Probe(false))
                } else {
                    Err(serde::de::Error::custom("expected 7"))
                }
            }
        }
    }

    #[derive(Serialize, Deserialize, PartialEq, Debug, Clone)]
    pub struct Inner {
        pub ip: IpAddr,
        pub probe: Probe,
    }

    #[derive(Serialize, Deserialize, PartialEq, Debug, Clone)]
    pub struct Holder {
        pub ip: IpAddr,
        pub ips: Vec<IpAddr>,
        pub opt: Option<IpAddr>,
        pub by: BTreeMap<String, IpAddr>,
        pub nested: Inner,
        pub inners: Vec<Inner>,
        pub probe: Probe,
        pub probes: Vec<Probe>,
        pub maybe: Option<Probe>,
        pub id: conjure_object::Uuid,
    }

    #[derive(Serialize, Deserialize, PartialEq, Debug, Clone)]
    pub struct Wrapper(pub Holder);

    pub fn holder(hr: bool) -> Holder {
        let v4: IpAddr = "10.1.2.3".parse().unwrap();
        let v6: IpAddr = "2001:db8::1".parse().unwrap();
        Holder {
            ip: v4,
            ips: vec![v6, v4],
            opt: Some(v6),
            by: [("k".to_string(), v4)].into_iter().collect(),
            nested: Inner { ip: v6, probe: Probe(hr) },
            inners: vec![Inner { ip: v4, probe: Probe(hr) }],
            probe: Probe(hr),
            probes: vec![Probe(hr), Probe(hr)],
            maybe: Some(Probe(hr)),
            id: conjure_object::Uuid::from_u128(0x0123_4567_89ab_cdef_fedc_ba98_7654_3210),
        }
    }
}

/// human-readability is one answer per format, at every position and on every path: JSON says
/// yes, Smile says no, for the serializer and for each deserializer alike
fn hr_sensitive(r: &mut Report) {
    use conjure_serde::json as cj;
    use conjure_serde::smile as cs;
    fn judge<T: PartialEq + std::fmt::Debug>(r: &mut Report, path: &str, want: &T, got: Result<T, String>) {
        r.evaluations += 1;
        r.transitions += 1;
        match got {
            Ok(v) if &v == want => r.outcome("hr:round-trips"),
            other => r.violation(
                format!("C01|hr-sensitive|roundtrip|{}", path),
                format!("a value whose serde form depends on is_human_readable (IpAddr, uuid, probe) written by the matching serializer comes back through {} as {:?}, expected {:?}", path, other, want),
                json!({"kind": "hr-sensitive", "path": path}),
            ),
        }
    }
    r.states += 4;
    for (name, root) in [("holder", false), ("newtype(holder)", true)] {
        // JSON: human readable
        let h = hr::holder(true);
        let text = if root { cj::to_string(&hr::Wrapper(h.clone())) } else { cj::to_string(&h) };
        match text {
            Err(e) => r.violation(format!("C01|hr-sensitive|serialize|json:{}", name), format!("JSON serialization failed: {}", e), json!({"kind": "hr-sensitive", "path": "json"})),
            Ok(text) => {
                let b = text.as_bytes();
                macro_rules! de {
                    ($label:expr, $call:expr) => {
                        if root {
                            let got: Result<hr::Wrapper, _> = $call;
                            judge(r, &format!("{}[{}]", $label, name), &h, got.map(|w| w.0).map_err(|e| e.to_string()));
                        } else {
                            let got: Result<hr::Holder, _> = $call;
                            judge(r, &format!("{}[{}]", $label, name), &h, got.map_err(|e| e.to_string()));
                        }
                    };
                }
                de!("json:client_from_str", cj::client_from_str(&text));
                de!("json:server_from_str", cj::server_from_str(&text));
                de!("json:client_from_slice", cj::client_from_slice(b));
                de!("json:server_from_slice", cj::server_from_slice(b));
                de!("json:client_from_reader", cj::client_from_reader(ShortReader { data: b, k: 3 }));
                de!("json:server_from_reader", cj::server_from_reader(ShortReader { data: b, k: 3 }));
            }
        }
        // Smile: binary
        let h = hr::holder(false);
        let bytes = if root { cs::to_vec(&hr::Wrapper(h.clone())) } else { cs::to_vec(&h) };
        match bytes {
            Err(e) => r.violation(format!("C01|hr-sensitive|serialize|smile:{}", name), format!("Smile serialization failed: {}", e), json!({"kind": "hr-sensitive", "path": "smile"})),
            Ok(bytes) => {
                let b = &bytes[..];
                macro_rules! de {
                    ($label:expr, $call:expr) => {
                        if root {
                            let got: Result<hr::Wrapper, _> = $call;
                            judge(r, &format!("{}[{}]", $label, name), &h, got.map(|w| w.0).map_err(|e| e.to_string()));
                        } else {
                            let got: Result<hr::Holder, _> = $call;
                            judge(r, &format!("{}[{}]", $label, name), &h, got.map_err(|e| e.to_string()));
                        }
                    };
                }
                let mut m1 = bytes.clone();
                let mut m2 = bytes.clone();
                de!("smile:client_from_slice", cs::client_from_slice(b));
                de!("smile:server_from_slice", cs::server_from_slice(b));
                de!("smile:client_from_mut_slice", cs::client_from_mut_slice(&mut m1));
                de!("smile:server_from_mut_slice", cs::server_from_mut_slice(&mut m2));
                de!("smile:client_from_reader", cs::client_from_reader(ShortReader { data: b, k: 3 }));
                de!("smile:server_from_reader", cs::server_from_reader(ShortReader { data: b, k: 3 }));
            }
        }
    }
}

pub fn run(args: &Args) -> Report {
    let mut report = Report::new("C01", "model_checking");
    if let Some(path) = &args.replay {
        return replay(path, report);
    }
    let (shapes, full_depth, bounds) = shape_space(args);
    let total = shapes
        .par_iter()
        .fold(
            || Report::new("C01", "model_checking"),
            |mut r, shape| {
                for v in space::values(shape, full_depth) {
                    check_case(shape, &v, &mut r);
                }
                if shape.depth() >= 2 {
                    r.sample(&format!("depth{}", shape.depth()), json!({"shape": shape.text(), "value": format!("{:?}", space::default_val(shape))}));
                }
                r
            },
        )
        .reduce(|| Report::new("C01", "model_checking"), |mut a, b| {
            a.merge(b);
            a
        });
    report.merge(total);

    // the size dimension: long binaries / strings (block and buffer boundaries), many elements
    let sizes = size_points(args.tier.is_thorough());
    let kinds: Vec<&'static str> = SIZE_KINDS.to_vec();
    let jobs: Vec<(&'static str, usize)> = kinds.iter().flat_map(|k| sizes.iter().map(move |n| (*k, *n))).collect();
    let sized = jobs
        .par_iter()
        .fold(
            || Report::new("C01", "model_checking"),
            |mut r, (kind, n)| {
                if let Some((shape, val)) = sized_case(kind, *n) {
                    let tag = json!({"kind": kind, "n": n, "class": size_class(*n)});
                    check_case_tagged(&shape, &val, &mut r, Some(&tag));
                }
                r
            },
        )
        .reduce(|| Report::new("C01", "model_checking"), |mut a, b| {
            a.merge(b);
            a
        });
    report.extra.insert("size_cases".into(), json!(sized.states));
    report.merge(sized);

    // the double dimension: every binary exponent x 16 mantissa patterns x sign, as a value and as
    // a map key + value (the JSON text of a double must parse back to exactly that double)
    let bits = double_grid(args.tier.is_thorough());
    let dbl = bits
        .par_iter()
        .fold(
            || Report::new("C01", "model_checking"),
            |mut r, b| {
                let v = f64::from_bits(*b);
                let tag = json!({"kind": "f64-bits", "n": b, "class": double_class(*b)});
                check_case_tagged(&Shape::Leaf(Leaf::F64), &Val::F64(v), &mut r, Some(&tag));
                check_case_tagged(&Shape::Map(Leaf::F64, Box::new(Shape::Leaf(Leaf::F64))), &Val::Map(vec![(Val::F64(v), Val::F64(v))]), &mut r, Some(&tag));
                r
            },
        )
        .reduce(|| Report::new("C01", "model_checking"), |mut a, b| {
            a.merge(b);
            a
        });
    report.extra.insert("double_grid_cases".into(), json!(dbl.states));
    report.merge(dbl);

    // dense per-leaf sweeps (the shape space multiplies small alphabets; these are wide ones at
    // the two shapes where the text form matters: as a value and as a map key)
    let mut sweep = Report::new("C01", "model_checking");
    for l in CONJURE_LEAVES {
        for (i, v) in leaf_sweep(l).into_iter().enumerate() {
            let tag = json!({"kind": "leaf-sweep", "leaf": format!("{:?}", l), "n": i, "class": format!("{:?}", l).to_lowercase()});
            check_case_tagged(&Shape::Leaf(l), &v, &mut sweep, Some(&tag));
            check_case_tagged(&Shape::Map(l, Box::new(Shape::Leaf(l))), &Val::Map(vec![(v.clone(), v.clone())]), &mut sweep, Some(&tag));
        }
    }
    report.extra.insert("leaf_sweep_cases".into(), json!(sweep.states));
    report.merge(sweep);

    // informational: serde shapes outside the Conjure model (never verdict-bearing)
    let mut info = Report::new("C01", "model_checking");
    for l in [Leaf::F32, Leaf::I128, Leaf::U128, Leaf::Char, Leaf::U64] {
        for v in space::leaf_values(l) {
            check_case(&Shape::Leaf(l), &v, &mut info);
        }
    }
    for s in [
        Shape::Tuple(vec![Shape::Leaf(Leaf::F64), Shape::Leaf(Leaf::Bytes)]),
        Shape::NewtypeStruct("NT", Box::new(Shape::Leaf(Leaf::F64))),
        Shape::TupleStruct("TS", vec![Shape::Leaf(Leaf::F64), Shape::Leaf(Leaf::I32)]),
        Shape::RichEnum(Box::new(Shape::Leaf(Leaf::F64))),
    ] {
        for v in space::values(&s, 0) {
            check_case(&s, &v, &mut info);
        }
    }
    report.extra.insert("informational_cases".into(), json!(info.states));
    report.extra.insert("informational_mismatches".into(), json!(info.outcomes.get("informational-mismatch").copied().unwrap_or(0)));

    // static derive/std twins: verdict-bearing round trips + conformance of the dynamic engine
    crate::twins::run_all("C01", &mut report);
    hr_sensitive(&mut report);

    report.extra.insert("shapes".into(), json!(shapes.len()));
    report.bounds = bounds.as_object().unwrap().clone();
    report.nontrivial = report.states;
    report.rule = "states = (shape, value) pairs: every shape of S ::= leaf | optional<S> | list<S> | map<K,S> | struct{a:S,b:i32} up to the depth bound (11 leaves, 11 key kinds), values = full product (containers 0..2) at depth <= 1, default + every one-position deviation deeper; transitions = executions of a serializer or (deserializer x source) on a state. Every state is distinct and non-trivial (each is serialized 6 ways and deserialized 20+ ways)".into();
    report.assumptions.push("values outside the leaf alphabets and shapes deeper than the bound are not covered; sets share the list wire path and are covered by the static twins".into());
    report.assumptions.push("serde shapes outside the Conjure data model (tuples, enum payload variants, f32, 128-bit ints) are informational only".into());
    report
}

fn replay(path: &str, mut report: Report) -> Report {
    // the case is identified by its shape text; re-run every value of that shape
    let v = vcommon::load_replay(path);
    if let Some(t) = v["case"].get("size_case") {
        if t["kind"] == "leaf-sweep" {
            for l in CONJURE_LEAVES {
                if format!("{:?}", l) == t["leaf"].as_str().unwrap_or("") {
                    if let Some(x) = leaf_sweep(l).into_iter().nth(t["n"].as_u64().unwrap_or(0) as usize) {
                        check_case_tagged(&Shape::Leaf(l), &x, &mut report, Some(t));
                        check_case_tagged(&Shape::Map(l, Box::new(Shape::Leaf(l))), &Val::Map(vec![(x.clone(), x.clone())]), &mut report, Some(t));
                    }
                }
            }
            report.exhaustive = false;
            return report;
        }
        if t["kind"] == "f64-bits" {
            let x = f64::from_bits(t["n"].as_u64().unwrap_or(0));
            check_case_tagged(&Shape::Leaf(Leaf::F64), &Val::F64(x), &mut report, Some(t));
            check_case_tagged(&Shape::Map(Leaf::F64, Box::new(Shape::Leaf(Leaf::F64))), &Val::Map(vec![(Val::F64(x), Val::F64(x))]), &mut report, Some(t));
            report.exhaustive = false;
            return report;
        }
        if let Some((shape, val)) = sized_case(t["kind"].as_str().unwrap_or(""), t["n"].as_u64().unwrap_or(0) as usize) {
            check_case_tagged(&shape, &val, &mut report, Some(t));
        }
        report.exhaustive = false;
        return report;
    }
    if v["case"]["kind"] == "hr-sensitive" {
        hr_sensitive(&mut report);
        report.exhaustive = false;
        return report;
    }
    let want = v["case"]["shape"].as_str().unwrap_or("").to_string();
    if want.is_empty() || v["case"].get("twin").is_some() {
        // a derive/std twin case: re-run the (small) twin catalogue
        crate::twins::run_all("C01", &mut report);
        report.exhaustive = false;
        return report;
    }
    let args = Args { property: "C01".into(), tier: vcommon::Tier::Thorough, out: String::new(), replay: None, extra: vec![] };
    let (shapes, full_depth, _) = shape_space(&args);
    for s in shapes.iter().filter(|s| s.text() == want) {
        for val in space::values(s, full_depth) {
            check_case(s, &val, &mut report);
        }
    }
    report.exhaustive = false;
    report
}
