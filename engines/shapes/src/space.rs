//! Shape grammar enumeration and per-shape value sets.

use crate::dynamic::{Leaf, Shape, Val};

pub fn leaf_values(l: Leaf) -> Vec<Val> {
    match l {
        Leaf::Bool => vec![Val::Bool(false), Val::Bool(true)],
        Leaf::I32 => vec![Val::I32(0), Val::I32(-1), Val::I32(i32::MAX), Val::I32(i32::MIN)],
        Leaf::I64 => vec![Val::I64(0), Val::I64((1 << 53) - 1), Val::I64(-((1 << 53) - 1)), Val::I64(1 << 40)],
        Leaf::F64 => vec![
            Val::F64(0.5),
            Val::F64(-0.0),
            Val::F64(1e300),
            Val::F64(f64::NAN),
            Val::F64(f64::INFINITY),
            Val::F64(f64::NEG_INFINITY),
            Val::F64(1.0),
            Val::F64(5e-324),
            Val::F64(f64::from_bits(0xfff8_0000_0000_0000)),
            Val::F64(0.1),
        ],
        Leaf::Str => vec![
            Val::Str("s".into()),
            Val::Str("".into()),
            Val::Str("NaN".into()),
            Val::Str("a\"\\\n\u{e9}\u{10000}".into()),
            Val::Str("true".into()),
            Val::Str("1".into()),
        ],
        Leaf::Bytes => vec![Val::Bytes(vec![0xff]), Val::Bytes(vec![]), Val::Bytes(vec![0, 1]), Val::Bytes(b"foo".to_vec()), Val::Bytes(vec![0xfb, 0xff, 0xbe, 0x3e])],
        Leaf::Uuid => vec![Val::Uuid(0x0123_4567_89ab_cdef_fedc_ba98_7654_3210), Val::Uuid(0), Val::Uuid(u128::MAX)],
        Leaf::Rid => vec![Val::Rid("ri.a..b.c".into()), Val::Rid("ri.svc.inst-1.type.Loc_1.-".into())],
        Leaf::Token => vec![Val::Token("a".into()), Val::Token("AbC-._~+/9==".into())],
        Leaf::DateTime => vec![
            Val::DateTime(951782400, 500_000_000),
            Val::DateTime(0, 0),
            Val::DateTime(253402300799, 999_999_999),
            Val::DateTime(-62167219200, 0),
            Val::DateTime(1, 1000),
        ],
        Leaf::Enum => vec![Val::Enum(0), Val::Enum(1)],
        Leaf::I8 => vec![Val::I64(0), Val::I64(i8::MIN as i64), Val::I64(i8::MAX as i64)],
        Leaf::I16 => vec![Val::I64(0), Val::I64(i16::MIN as i64), Val::I64(i16::MAX as i64)],
        Leaf::RawI64 => vec![Val::I64(0), Val::I64(i64::MIN), Val::I64(i64::MAX), Val::I64(-1)],
        Leaf::I128 => vec![Val::I128(0), Val::I128(i128::MIN), Val::I128(i128::MAX), Val::I128(5)],
        Leaf::U8 => vec![Val::U64(0), Val::U64(u8::MAX as u64)],
        Leaf::U16 => vec![Val::U64(0), Val::U64(u16::MAX as u64)],
        Leaf::U32 => vec![Val::U64(0), Val::U64(u32::MAX as u64)],
        Leaf::U64 => vec![Val::U64(0), Val::U64(u64::MAX), Val::U64(i64::MAX as u64 + 1)],
        Leaf::U128 => vec![Val::U128(0), Val::U128(u128::MAX), Val::U128(5)],
        Leaf::F32 => vec![Val::F32(0.5), Val::F32(f32::NAN), Val::F32(f32::INFINITY), Val::F32(f32::NEG_INFINITY), Val::F32(-0.0), Val::F32(f32::MAX)],
        Leaf::Char => vec![Val::Char('a'), Val::Char('\u{e9}'), Val::Char('\u{10000}'), Val::Char('"')],
        Leaf::Unit => vec![Val::Unit],
    }
}

/// S ::= leaf | option<S> | seq<S> | map<K,S> | struct{a:S, b:i32}; no option directly
/// inside option (not a Conjure type, and not representable in JSON).
pub fn shapes_up_to(depth: usize, leaves: &[Leaf], keys: &[Leaf]) -> Vec<Shape> {
    let mut by_depth: Vec<Vec<Shape>> = vec![leaves.iter().map(|l| Shape::Leaf(*l)).collect()];
    for _ in 0..depth {
        // extend every shape of maximal depth so far (and all shallower ones are kept)
        let prev: Vec<Shape> = by_depth.last().unwrap().clone();
        let mut next = vec![];
        for s in &prev {
            if !matches!(s, Shape::Option(_) | Shape::Leaf(Leaf::Unit)) {
                next.push(Shape::opt(s.clone()));
            }
            next.push(Shape::seq(s.clone()));
            for k in keys {
                next.push(Shape::map(*k, s.clone()));
            }
            next.push(Shape::Struct("S", vec![("a", s.clone()), ("b", Shape::Leaf(Leaf::I32))]));
        }
        by_depth.push(next);
    }
    by_depth.into_iter().flatten().collect()
}

pub fn default_val(s: &Shape) -> Val {
    match s {
        Shape::Leaf(l) => leaf_values(*l)[0].clone(),
        Shape::Option(i) => Val::Some(Box::new(default_val(i))),
        Shape::Seq(i) => Val::Seq(vec![default_val(i)]),
        Shape::Map(k, i) => Val::Map(vec![(leaf_values(*k)[0].clone(), default_val(i))]),
        Shape::Struct(_, fs) => Val::Struct(fs.iter().map(|f| default_val(&f.1)).collect()),
        Shape::Tuple(fs) | Shape::TupleStruct(_, fs) => Val::Seq(fs.iter().map(default_val).collect()),
        Shape::NewtypeStruct(_, i) => default_val(i),
        Shape::RichEnum(i) => Val::Variant(1, vec![default_val(i)]),
    }
}

/// every value differing from the default at exactly one position
pub fn one_hot(s: &Shape) -> Vec<Val> {
    match s {
        Shape::Leaf(l) => leaf_values(*l).into_iter().skip(1).collect(),
        Shape::Option(i) => {
            let mut out = vec![Val::None];
            out.extend(one_hot(i).into_iter().map(|v| Val::Some(Box::new(v))));
            out
        }
        Shape::Seq(i) => {
            let d = default_val(i);
            let mut out = vec![Val::Seq(vec![])];
            let second = one_hot(i).into_iter().next().unwrap_or_else(|| d.clone());
            out.push(Val::Seq(vec![d.clone(), second]));
            out.extend(one_hot(i).into_iter().map(|v| Val::Seq(vec![v])));
            out
        }
        Shape::Map(k, i) => {
            let d = default_val(i);
            let ks = leaf_values(*k);
            let mut out = vec![Val::Map(vec![])];
            out.push(Val::Map(vec![(ks[0].clone(), d.clone()), (ks[1].clone(), d.clone())]));
            for kv in ks.iter().skip(1) {
                out.push(Val::Map(vec![(kv.clone(), d.clone())]));
            }
            out.extend(one_hot(i).into_iter().map(|v| Val::Map(vec![(ks[0].clone(), v)])));
            out
        }
        Shape::Struct(_, fs) => {
            let base: Vec<Val> = fs.iter().map(|f| default_val(&f.1)).collect();
            let mut out = vec![];
            for (idx, f) in fs.iter().enumerate() {
                for v in one_hot(&f.1) {
                    let mut b = base.clone();
                    b[idx] = v;
                    out.push(Val::Struct(b));
                }
            }
            out
        }
        Shape::Tuple(fs) | Shape::TupleStruct(_, fs) => {
            let base: Vec<Val> = fs.iter().map(default_val).collect();
            let mut out = vec![];
            for (idx, f) in fs.iter().enumerate() {
                for v in one_hot(f) {
                    let mut b = base.clone();
                    b[idx] = v;
                    out.push(Val::Seq(b));
                }
            }
            out
        }
        Shape::NewtypeStruct(_, i) => one_hot(i),
        Shape::RichEnum(i) => {
            let d = default_val(i);
            let mut out = vec![
                Val::Variant(0, vec![]),
                Val::Variant(2, vec![d.clone(), Val::I32(7)]),
                Val::Variant(3, vec![d.clone()]),
            ];
            out.extend(one_hot(i).into_iter().map(|v| Val::Variant(1, vec![v])));
            out
        }
    }
}

/// two keys a real map cannot hold at once (equal as `DoubleKey`s / same document key)
pub fn keys_collide(a: &Val, b: &Val) -> bool {
    match (a, b) {
        (Val::F64(x), Val::F64(y)) => (x.is_nan() && y.is_nan()) || x == y,
        (Val::F32(x), Val::F32(y)) => (x.is_nan() && y.is_nan()) || x == y,
        _ => crate::dynamic::val_eq(a, b),
    }
}

/// the complete product (containers of size 0..2) — only called for shallow shapes
pub fn all_values(s: &Shape) -> Vec<Val> {
    match s {
        Shape::Leaf(l) => leaf_values(*l),
        Shape::Option(i) => {
            let mut out = vec![Val::None];
            out.extend(all_values(i).into_iter().map(|v| Val::Some(Box::new(v))));
            out
        }
        Shape::Seq(i) => {
            let vs = all_values(i);
            let mut out = vec![Val::Seq(vec![])];
            for a in &vs {
                out.push(Val::Seq(vec![a.clone()]));
            }
            for a in &vs {
                for b in &vs {
                    out.push(Val::Seq(vec![a.clone(), b.clone()]));
                }
            }
            out
        }
        Shape::Map(k, i) => {
            let ks = leaf_values(*k);
            let vs = all_values(i);
            let mut out = vec![Val::Map(vec![])];
            for a in &ks {
                for v in &vs {
                    out.push(Val::Map(vec![(a.clone(), v.clone())]));
                }
            }
            for (x, a) in ks.iter().enumerate() {
                for (y, b) in ks.iter().enumerate() {
                    if x != y && !keys_collide(a, b) {
                        for v in &vs {
                            out.push(Val::Map(vec![(a.clone(), v.clone()), (b.clone(), vs[0].clone())]));
                        }
                    }
                }
            }
            out
        }
        Shape::Struct(_, fs) => {
            let mut out: Vec<Vec<Val>> = vec![vec![]];
            for f in fs {
                let vs = if matches!(f.1, Shape::Leaf(Leaf::I32)) && fs.len() > 1 { vec![Val::I32(0), Val::I32(-1)] } else { all_values(&f.1) };
                let mut next = vec![];
                for prefix in &out {
                    for v in &vs {
                        let mut p = prefix.clone();
                        p.push(v.clone());
                        next.push(p);
                    }
                }
                out = next;
            }
            out.into_iter().map(Val::Struct).collect()
        }
        _ => {
            let mut out = vec![default_val(s)];
            out.extend(one_hot(s));
            out
        }
    }
}

/// value set of a shape: complete product when shallow, default + one-hot when deeper
pub fn values(s: &Shape, full_depth: usize) -> Vec<Val> {
    if s.depth() <= full_depth {
        all_values(s)
    } else {
        let mut out = vec![default_val(s)];
        out.extend(one_hot(s));
        out
    }
}
