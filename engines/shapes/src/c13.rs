//! C13 — the dynamic `any` value is a lossless carrier of serializable data and of JSON.
//!
//! A: value -> Any -> value, and json(Any(value)) == json(value)
//! B: JSON document -> Any -> JSON is an equivalent document
//! C: whenever a document parses directly as a static type, the same document parsed into
//!    Any and viewed as that type gives the same value.

use crate::dynamic::{with_shape, DynOut, Leaf, Seed, Shape, Typed, Val, CONJURE_LEAVES};
use crate::space;
use conjure_object::Any;
use rayon::prelude::*;
use serde::de::DeserializeSeed;
use serde_json::{json, Value as J};
use vcommon::{Args, Report};

/// equality with maps compared as unordered collections (Any keeps maps sorted by key)
pub fn val_eq_unordered(a: &Val, b: &Val) -> bool {
    use Val::*;
    match (a, b) {
        (Some(x), Some(y)) => val_eq_unordered(x, y),
        (Seq(x), Seq(y)) | (Struct(x), Struct(y)) => x.len() == y.len() && x.iter().zip(y).all(|(p, q)| val_eq_unordered(p, q)),
        (Variant(i, x), Variant(j, y)) => i == j && x.len() == y.len() && x.iter().zip(y).all(|(p, q)| val_eq_unordered(p, q)),
        (Map(x), Map(y)) => {
            if x.len() != y.len() {
                return false;
            }
            let mut used = vec![false; y.len()];
            for (k, v) in x {
                let mut found = false;
                for (i, (k2, v2)) in y.iter().enumerate() {
                    if !used[i] && val_eq_unordered(k, k2) && val_eq_unordered(v, v2) {
                        used[i] = true;
                        found = true;
                        break;
                    }
                }
                if !found {
                    return false;
                }
            }
            true
        }
        _ => crate::dynamic::val_eq(a, b),
    }
}

const EXT_LEAVES: [Leaf; 12] = [Leaf::I8, Leaf::I16, Leaf::RawI64, Leaf::I128, Leaf::U8, Leaf::U16, Leaf::U32, Leaf::U64, Leaf::U128, Leaf::F32, Leaf::Char, Leaf::Unit];

fn has_dup_keys(v: &Val) -> bool {
    // Any stores maps in a BTreeMap: two keys that are equal *as Any* (e.g. NaN payloads,
    // or -0.0 / 0.0) would collapse; the value sets never contain such pairs, this is a guard
    match v {
        Val::Map(es) => {
            for i in 0..es.len() {
                for j in 0..i {
                    if val_eq_unordered(&es[i].0, &es[j].0) {
                        return true;
                    }
                }
            }
            es.iter().any(|e| has_dup_keys(&e.1))
        }
        Val::Some(x) => has_dup_keys(x),
        Val::Seq(x) | Val::Struct(x) | Val::Variant(_, x) => x.iter().any(has_dup_keys),
        _ => false,
    }
}

fn has_wide_int(v: &Val) -> bool {
    match v {
        Val::I128(x) => *x < i64::MIN as i128 || *x > u64::MAX as i128,
        Val::U128(x) => *x > u64::MAX as u128,
        Val::Some(x) => has_wide_int(x),
        Val::Seq(x) | Val::Struct(x) | Val::Variant(_, x) => x.iter().any(has_wide_int),
        Val::Map(es) => es.iter().any(|e| has_wide_int(&e.0) || has_wide_int(&e.1)),
        _ => false,
    }
}

fn space_a(args: &Args) -> Vec<Shape> {
    let mut all_leaves: Vec<Leaf> = CONJURE_LEAVES.to_vec();
    all_leaves.extend(EXT_LEAVES);
    let mut keys: Vec<Leaf> = CONJURE_LEAVES.to_vec();
    keys.extend([Leaf::I8, Leaf::I16, Leaf::RawI64, Leaf::I128, Leaf::U8, Leaf::U16, Leaf::U32, Leaf::U64, Leaf::U128, Leaf::F32, Leaf::Char]);
    let mut shapes = space::shapes_up_to(1, &all_leaves, &keys);
    // depth 2 (thorough 3) over the Conjure leaves + two wide integers
    let deep_leaves: Vec<Leaf> = CONJURE_LEAVES.iter().cloned().chain([Leaf::I128, Leaf::U64]).collect();
    let deep_keys = [Leaf::Str, Leaf::F64, Leaf::Bool, Leaf::I32, Leaf::Uuid, Leaf::Bytes, Leaf::Enum, Leaf::U128];
    let d = args.tier.pick(2, 3);
    shapes.extend(space::shapes_up_to(d, &deep_leaves, &deep_keys).into_iter().filter(|s| s.depth() >= 2));
    // serde shapes: tuples, newtype / tuple structs, enums with every variant kind
    for l in [Leaf::F64, Leaf::I128, Leaf::Bytes, Leaf::Str, Leaf::Unit] {
        let s = Shape::Leaf(l);
        shapes.push(Shape::Tuple(vec![s.clone(), Shape::Leaf(Leaf::I32)]));
        shapes.push(Shape::NewtypeStruct("NT", Box::new(s.clone())));
        shapes.push(Shape::TupleStruct("TS", vec![s.clone(), Shape::Leaf(Leaf::Bool)]));
        shapes.push(Shape::RichEnum(Box::new(s.clone())));
        shapes.push(Shape::seq(Shape::RichEnum(Box::new(s.clone()))));
        shapes.push(Shape::map(Leaf::I32, Shape::NewtypeStruct("NT", Box::new(s.clone()))));
        if l != Leaf::Unit {
            shapes.push(Shape::Struct("W", vec![("x", Shape::NewtypeStruct("NT", Box::new(Shape::opt(s.clone())))), ("y", Shape::RichEnum(Box::new(s.clone())))]));
        }
        shapes.push(Shape::opt(Shape::Tuple(vec![Shape::seq(s.clone()), Shape::NewtypeStruct("NT", Box::new(s))])));
    }
    shapes
}

fn parse_json(b: &[u8]) -> Option<J> {
    serde_json::from_slice(b).ok()
}

fn check_a(shape: &Shape, val: &Val, r: &mut Report) {
    if has_dup_keys(val) {
        return;
    }
    r.states += 1;
    let st = shape.text();
    let typed = Typed(shape, val);
    let case = json!({"space": "A", "shape": st, "value": format!("{:?}", val)});
    r.evaluations += 1;
    let any = match Any::new(&typed) {
        Ok(a) => a,
        Err(e) => {
            r.violation(format!("C13|A|to-any-failed|{}", st), format!("Any::new failed for {} value {:?}: {}", st, val, e), case);
            return;
        }
    };
    // A1: back to the static shape
    r.evaluations += 1;
    r.transitions += 1;
    match Seed(shape).deserialize(any.clone()) {
        Ok(v) if val_eq_unordered(&v, val) => r.outcome("A:value-roundtrip-ok"),
        Ok(v) => r.violation(format!("C13|A|value-altered|{}", st), format!("{} value {:?} came back from Any as {:?}", st, val, v), case.clone()),
        Err(e) => r.violation(format!("C13|A|value-rejected|{}", st), format!("{} value {:?} stored in Any cannot be read back: {}", st, val, e), case.clone()),
    }
    // A2: same JSON document
    r.transitions += 1;
    let direct = conjure_serde::json::to_vec(&typed);
    let via = conjure_serde::json::to_vec(&any);
    match (direct, via) {
        (Ok(d), Ok(v)) => {
            r.evaluations += 1;
            if d == v || (parse_json(&d).is_some() && parse_json(&d) == parse_json(&v)) {
                r.outcome("A:json-equal");
            } else {
                r.violation(
                    format!("C13|A|json-differs|{}", st),
                    format!("{} value {:?}: direct JSON {} but via Any {}", st, val, String::from_utf8_lossy(&d), String::from_utf8_lossy(&v)),
                    case.clone(),
                );
            }
            // C (same-shape view): the value's own document, parsed into Any, viewed as the shape
            // (documents with integers beyond the 64-bit range are outside the statement)
            if has_wide_int(val) {
                r.outcome("C:document-has-integer-beyond-64-bits (not judged)");
            } else if let Ok(a2) = conjure_serde::json::client_from_slice::<Any>(&d) {
                let directly = with_shape(shape, || conjure_serde::json::client_from_slice::<DynOut>(&d)).map(|x| x.0);
                if let Ok(dv) = directly {
                    r.evaluations += 1;
                    r.transitions += 1;
                    match Seed(shape).deserialize(a2) {
                        Ok(v2) if val_eq_unordered(&v2, &dv) => r.outcome("C:view-agrees"),
                        other => r.violation(
                            format!("C13|C|view-differs|{}", st),
                            format!("document {} parses directly as {} = {:?} but via Any gives {:?}", String::from_utf8_lossy(&d), st, dv, other.map_err(|e| e.to_string())),
                            json!({"space": "C", "shape": st, "doc": String::from_utf8_lossy(&d)}),
                        ),
                    }
                }
            }
        }
        (Err(_), _) => r.outcome("A:direct-json-unsupported"),
        (Ok(d), Err(e)) => r.violation(format!("C13|A|any-json-failed|{}", st), format!("{} value {:?}: direct JSON {} but serializing the Any failed: {}", st, val, String::from_utf8_lossy(&d), e), case.clone()),
    }
}

// ------------------------------------------------------------------ space B: documents

fn atoms() -> Vec<&'static str> {
    vec!["null", "true", "false", "0", "-1", "-9223372036854775808", "18446744073709551615", "1.5", "-0.0", "1e2", "\"\"", "\"a\"", "\"NaN\"", "\"Infinity\"", "\"-Infinity\"", "\"aGk=\"", "\"true\"", "\"1\"", "\"01234567-89ab-cdef-fedc-ba9876543210\""]
}

/// near misses of the coercible spellings (doubles, booleans, integers, Base64, uuid)
const LOOK_ALIKES: [&str; 30] = [
    "inf", "Inf", "infinity", "INFINITY", "-inf", "+Infinity", "+inf", "nan", "NAN", "-NaN", "+NaN", "1e999", "-1e999", "1e39", "1.5", "0x10", " 1", "1 ", "1_0", "+1", "True", "TRUE", "yes", "aGk", "aGk=\n", "a-_=",
    "01234567-89AB-CDEF-FEDC-BA9876543210", "0123456789abcdeffedcba9876543210", "{01234567-89ab-cdef-fedc-ba9876543210}", "Infinity ",
];

const KEYS: [&str; 6] = ["a", "b", "1", "true", "NaN", "01234567-89ab-cdef-fedc-ba9876543210"];

fn containers(elems: &[String]) -> Vec<String> {
    let mut out = vec!["[]".to_string(), "{}".to_string()];
    for a in elems {
        out.push(format!("[{}]", a));
    }
    for a in elems {
        for b in elems {
            out.push(format!("[{},{}]", a, b));
        }
    }
    for k in KEYS {
        for a in elems {
            out.push(format!("{{\"{}\":{}}}", k, a));
        }
    }
    for (i, k1) in KEYS.iter().enumerate() {
        for k2 in KEYS.iter().skip(i + 1) {
            for a in elems {
                for b in elems {
                    out.push(format!("{{\"{}\":{},\"{}\":{}}}", k1, a, k2, b));
                }
            }
        }
    }
    out
}

fn documents(thorough: bool) -> (Vec<String>, usize) {
    let d0: Vec<String> = atoms().into_iter().map(String::from).collect();
    let d1 = containers(&d0);
    let mut r1: Vec<String> = ["null", "1", "1.5", "\"NaN\"", "\"aGk=\"", "18446744073709551615"].iter().map(|s| s.to_string()).collect();
    r1.extend(["[]", "{}", "[null]", "[1,\"a\"]", "{\"a\":1}", "{\"1\":1.5,\"true\":null}", "[\"NaN\",-0.0]", "{\"NaN\":\"NaN\"}"].iter().map(|s| s.to_string()));
    let d2 = containers(&r1);
    let mut r2: Vec<String> = ["null", "1", "\"Infinity\""].iter().map(|s| s.to_string()).collect();
    r2.extend(["[[1,\"a\"]]", "{\"a\":{\"b\":[null]}}", "[{\"1\":1.5,\"true\":null},[]]", "{\"NaN\":[\"NaN\",-0.0]}", "[[],{}]"].iter().map(|s| s.to_string()));
    let d3 = containers(&r2);
    let shallow = d0.len() + d1.len();
    let mut all = d0;
    all.extend(d1);
    all.extend(d2);
    all.extend(d3);
    if thorough {
        let r3: Vec<String> = ["[[[1]]]", "{\"a\":{\"a\":{\"a\":\"NaN\"}}}", "[{\"b\":[{\"1\":null}]},-1]"].iter().map(|s| s.to_string()).collect();
        all.extend(containers(&r3));
    }
    (all, shallow)
}

fn check_b(doc: &str, r: &mut Report) {
    r.states += 1;
    r.evaluations += 1;
    r.transitions += 1;
    let case = json!({"space": "B", "doc": doc});
    let want: J = serde_json::from_str(doc).expect("grammar emits valid JSON");
    for (name, parsed) in [
        ("client", conjure_serde::json::client_from_str::<Any>(doc).map_err(|e| e.to_string())),
        ("server", conjure_serde::json::server_from_str::<Any>(doc).map_err(|e| e.to_string())),
    ] {
        match parsed {
            Err(e) => r.violation(format!("C13|B|document-rejected|{}", name), format!("JSON document {} cannot be parsed into Any ({}): {}", doc, name, e), case.clone()),
            Ok(any) => match conjure_serde::json::to_string(&any) {
                Err(e) => r.violation(format!("C13|B|reserialize-failed|{}", name), format!("Any parsed from {} fails to serialize: {}", doc, e), case.clone()),
                Ok(text) => {
                    let got: Option<J> = serde_json::from_str(&text).ok();
                    if got.as_ref() == Some(&want) {
                        r.outcome("B:document-preserved");
                    } else {
                        r.violation(format!("C13|B|document-altered|{}", name), format!("JSON document {} re-serializes from Any as {}", doc, text), case.clone());
                    }
                }
            },
        }
    }
}

fn check_c(doc: &str, shape: &Shape, r: &mut Report) {
    let direct = with_shape(shape, || conjure_serde::json::client_from_str::<DynOut>(doc)).map(|d| d.0);
    r.evaluations += 1;
    let dv = match direct {
        Ok(v) => v,
        Err(_) => {
            // the property is a capability: what direct parsing takes, the view takes with the
            // same value. Where direct parsing rejects nothing is demanded (the view is more
            // lenient already on the pinned tree: Rust's number spellings such as "+1" or "inf"
            // in key position, raw string bytes for a `bytes` visitor); only counted
            match conjure_serde::json::client_from_str::<Any>(doc).ok().map(|any| vcommon::catch(|| Seed(shape).deserialize(any).is_ok())) {
                Some(Ok(true)) => r.outcome("C:direct-parse-rejects,view-accepts (no demand)"),
                Some(Err(p)) => r.violation(format!("C13|C|panic|{}", shape.text()), format!("viewing {} as {} through Any panicked: {}", doc, shape.text(), p), json!({"space": "C", "doc": doc, "shape": shape.text()})),
                _ => r.outcome("C:direct-parse-and-view-reject (no demand)"),
            }
            return;
        }
    };
    r.states += 1;
    r.transitions += 1;
    let st = shape.text();
    let case = json!({"space": "C", "doc": doc, "shape": st});
    match conjure_serde::json::client_from_str::<Any>(doc) {
        Err(e) => r.violation("C13|C|document-rejected".to_string(), format!("{} cannot be parsed into Any: {}", doc, e), case),
        Ok(any) => match Seed(shape).deserialize(any) {
            Ok(v) if val_eq_unordered(&v, &dv) => r.outcome("C:view-agrees"),
            other => r.violation(
                format!("C13|C|view-differs|{}", st),
                format!("document {} parses directly as {} = {:?} but via Any gives {:?}", doc, st, dv, other.map_err(|e| e.to_string())),
                case,
            ),
        },
    }
}

// ------------------------------------------------------------------ static part: derive types as map keys

mod keys {
    use conjure_object::DoubleKey;
    use serde::{Deserialize, Serialize};
    macro_rules! nt {
        ($n:ident, $t:ty) => {
            /// a serde-derived (non-transparent) newtype struct
            #[derive(Serialize, Deserialize, PartialEq, Eq, PartialOrd, Ord, Debug, Clone)]
            pub struct $n(pub $t);
        };
    }
    nt!(KU32, u32);
    nt!(KI64, i64);
    nt!(KI8, i8);
    nt!(KU64, u64);
    nt!(KI128, i128);
    nt!(KU128, u128);
    nt!(KBool, bool);
    nt!(KStr, String);
    nt!(KChar, char);
    nt!(KDbl, DoubleKey);
    nt!(KNested, KU32);
    #[derive(Serialize, Deserialize, PartialEq, Eq, PartialOrd, Ord, Debug, Clone)]
    #[serde(transparent)]
    pub struct KTransparent(pub i32);
    #[derive(Serialize, Deserialize, PartialEq, Eq, PartialOrd, Ord, Debug, Clone)]
    pub enum KEnum {
        First,
        #[serde(rename = "SECOND_ONE")]
        Second,
    }
    #[derive(Serialize, Deserialize, PartialEq, Debug, Clone)]
    pub struct Holder<M> {
        pub m: M,
        pub n: Option<M>,
        pub l: Vec<M>,
    }
}

fn key_case<K>(name: &'static str, keys: Vec<K>, r: &mut Report)
where
    K: serde::Serialize + serde::de::DeserializeOwned + Ord + Clone + std::fmt::Debug,
{
    use std::collections::{BTreeMap, BTreeSet};
    let mut maps: Vec<BTreeMap<K, i32>> = vec![BTreeMap::new()];
    for (i, k) in keys.iter().enumerate() {
        maps.push([(k.clone(), i as i32)].into_iter().collect());
    }
    maps.push(keys.iter().cloned().enumerate().map(|(i, k)| (k, -(i as i32))).collect());
    for m in maps {
        r.states += 1;
        let holder = keys::Holder { m: m.clone(), n: Some(m.clone()), l: vec![m.clone(), BTreeMap::new()] };
        let nested: BTreeMap<K, BTreeMap<K, BTreeSet<K>>> = m.keys().map(|k| (k.clone(), [(k.clone(), m.keys().cloned().collect())].into_iter().collect())).collect();
        key_check(name, "map<K,i32>", &m, r);
        key_check(name, "struct{map,optional<map>,list<map>}", &holder, r);
        key_check(name, "map<K,map<K,set<K>>>", &nested, r);
    }
}

fn key_check<T>(name: &'static str, form: &'static str, v: &T, r: &mut Report)
where
    T: serde::Serialize + serde::de::DeserializeOwned + PartialEq + std::fmt::Debug,
{
    r.evaluations += 3;
    r.transitions += 3;
    let case = json!({"space": "K", "key": name, "form": form, "value": format!("{:?}", v).chars().take(300).collect::<String>()});
    let sig = |k: &str| format!("C13|K|{}|{}|{}", k, name, form);
    let text = match conjure_serde::json::to_string(v) {
        Ok(t) => t,
        Err(_) => return,
    };
    // A: value -> Any -> value, and the same JSON
    match vcommon::catch(|| Any::new(v).map_err(|e| e.to_string()).and_then(|a| Ok((conjure_serde::json::to_string(&a).map_err(|e| e.to_string())?, a.deserialize_into::<T>().map_err(|e| e.to_string())?)))) {
        Err(p) => r.violation(sig("panic"), format!("{} as {}: Any::new / deserialize_into panicked: {}", name, form, p), case.clone()),
        Ok(Err(e)) => r.violation(sig("value-rejected"), format!("{} as {}: value {} does not survive Any: {}", name, form, text, e), case.clone()),
        Ok(Ok((t2, back))) => {
            if &back != v {
                r.violation(sig("value-changed"), format!("{} as {}: {} came back from Any as {:?}", name, form, text, back), case.clone());
            } else if parse_json(t2.as_bytes()) != parse_json(text.as_bytes()) {
                r.violation(sig("json-differs"), format!("{} as {}: serializes as {} directly and as {} through Any", name, form, text, t2), case.clone());
            } else {
                r.outcome("K:value-survives-any");
            }
        }
    }
    // C: document -> Any -> view == document -> value. JSON number literals beyond 64 bits
    // are carried as doubles by a JSON document (as in space C): 128-bit keys are strings and
    // are judged, 128-bit *values* in the document are not
    if form.contains("set<K>") && name.contains("128") {
        return;
    }
    let direct = conjure_serde::json::client_from_str::<T>(&text);
    let via = vcommon::catch(|| conjure_serde::json::client_from_str::<Any>(&text).map_err(|e| e.to_string()).and_then(|a| a.deserialize_into::<T>().map_err(|e| e.to_string())));
    match (direct, via) {
        (_, Err(p)) => r.violation(sig("panic"), format!("{} as {}: viewing {} through Any panicked: {}", name, form, text, p), case),
        (Ok(d), Ok(Ok(x))) if d == x => r.outcome("K:view-agrees"),
        (Ok(d), Ok(other)) => r.violation(sig("view-differs"), format!("{} as {}: document {} parses directly as {:?} but through Any as {:?}", name, form, text, d, other), case),
        (Err(_), _) => r.outcome("K:document-not-parsable-directly"),
    }
}

mod buffered {
    //! derive types whose Deserialize buffers the input through `deserialize_any`
    use serde::{Deserialize, Serialize};
    #[derive(Serialize, Deserialize, PartialEq, Debug, Clone)]
    #[serde(untagged)]
    pub enum Untagged {
        Num(f64),
        Flag(bool),
        Label(String),
        Many(Vec<f64>),
    }
    #[derive(Serialize, Deserialize, PartialEq, Debug, Clone)]
    #[serde(tag = "kind")]
    pub enum Tagged {
        Point { x: f64, y: Option<f64> },
        Count { n: u64, neg: i64 },
        Named { name: String },
    }
    #[derive(Serialize, Deserialize, PartialEq, Debug, Clone)]
    pub struct Inner {
        pub ratio: f64,
        pub big: u64,
    }
    #[derive(Serialize, Deserialize, PartialEq, Debug, Clone)]
    pub struct Flat {
        pub id: i32,
        #[serde(flatten)]
        pub inner: Inner,
        pub tail: Vec<f64>,
    }
    #[derive(Serialize, Deserialize, PartialEq, Debug, Clone)]
    #[serde(tag = "t", content = "c")]
    pub enum Adjacent {
        D(f64),
        L(Vec<Option<f64>>),
    }
}

/// value -> Any -> value for types that read themselves through `deserialize_any` (serde's
/// untagged / internally tagged / adjacently tagged enums, flattened structs): what `Any`
/// hands to a visitor must be the value's own kind (a double stays a double, NaN included)
fn buffered_case<T>(name: &'static str, v: &T, r: &mut Report)
where
    T: serde::Serialize + serde::de::DeserializeOwned + PartialEq + std::fmt::Debug,
{
    r.states += 1;
    r.evaluations += 1;
    r.transitions += 1;
    let shown = format!("{:?}", v);
    let case = json!({"space": "K", "buffered": name, "value": shown});
    let same = |a: &T, b: &T| a == b || format!("{:?}", a) == format!("{:?}", b);
    // ... also when the carrier overwrites another one in place (clone_from) and is cloned on
    match vcommon::catch(|| {
        Any::new(v).map_err(|e| e.to_string()).and_then(|a| {
            let mut x = Any::new(&[("other", vec![1u8, 2])].into_iter().collect::<std::collections::BTreeMap<_, _>>()).map_err(|e| e.to_string())?;
            x.clone_from(&a);
            if x != a || x.clone() != a {
                return Err("a clone of the carrier differs from it".to_string());
            }
            x.deserialize_into::<T>().map_err(|e| e.to_string())
        })
    }) {
        Ok(Ok(back)) if same(&back, v) => {}
        other => r.violation(format!("C13|K|overwritten-carrier|buffered:{}", name), format!("{} {}: a carrier overwritten in place with this value's carrier gives {:?}", name, shown, other.map(|x| x.map(|b| format!("{:?}", b)))), case.clone()),
    }
    match vcommon::catch(|| Any::new(v).map_err(|e| e.to_string()).and_then(|a| a.deserialize_into::<T>().map_err(|e| e.to_string()))) {
        Err(p) => r.violation(format!("C13|K|panic|buffered:{}", name), format!("{} {}: Any::new / deserialize_into panicked: {}", name, shown, p), case),
        Ok(Err(e)) => r.violation(format!("C13|K|value-rejected|buffered:{}", name), format!("{} {} does not survive Any: {}", name, shown, e), case),
        Ok(Ok(back)) if same(&back, v) => r.outcome("K:buffered-value-survives-any"),
        Ok(Ok(back)) => r.violation(format!("C13|K|value-changed|buffered:{}", name), format!("{} {} came back from Any as {:?}", name, shown, back), case),
    }
}

fn static_buffered(r: &mut Report) {
    use buffered::*;
    let doubles = [0.0, -0.0, 1.5, -1e300, 5e-324, f64::NAN, f64::INFINITY, f64::NEG_INFINITY];
    for d in doubles {
        buffered_case("untagged", &Untagged::Num(d), r);
        buffered_case("untagged", &Untagged::Many(vec![d, 1.0, d]), r);
        buffered_case("internally-tagged", &Tagged::Point { x: d, y: Some(d) }, r);
        buffered_case("internally-tagged", &Tagged::Point { x: 1.0, y: None }, r);
        buffered_case("flatten", &Flat { id: -1, inner: Inner { ratio: d, big: u64::MAX }, tail: vec![d] }, r);
        buffered_case("adjacently-tagged", &Adjacent::D(d), r);
        buffered_case("adjacently-tagged", &Adjacent::L(vec![Some(d), None]), r);
    }
    for (n, neg) in [(0u64, 0i64), (u64::MAX, i64::MIN), (1 << 53, -1), (i64::MAX as u64 + 1, i64::MAX)] {
        buffered_case("internally-tagged", &Tagged::Count { n, neg }, r);
        buffered_case("flatten", &Flat { id: i32::MIN, inner: Inner { ratio: 0.5, big: n }, tail: vec![] }, r);
    }
    for s in ["", "NaN", "Infinity", "1.5", "true", "null", "aGk="] {
        buffered_case("untagged", &Untagged::Label(s.to_string()), r);
        buffered_case("internally-tagged", &Tagged::Named { name: s.to_string() }, r);
    }
    buffered_case("untagged", &Untagged::Flag(true), r);
}

/// value -> Smile -> Any -> value: the dynamic value filled by a binary deserializer (native
/// small integers, 32-bit floats, raw binary) still hands back the value
fn smile_case<T>(name: &'static str, v: &T, r: &mut Report)
where
    T: serde::Serialize + serde::de::DeserializeOwned + PartialEq + std::fmt::Debug,
{
    r.states += 1;
    r.evaluations += 2;
    r.transitions += 2;
    let shown: String = format!("{:?}", v).chars().take(200).collect();
    let case = json!({"space": "K", "smile": name, "value": shown});
    let same = |a: &T, b: &T| a == b || format!("{:?}", a) == format!("{:?}", b);
    for (enc, bytes) in [("plain-smile", serde_smile::to_vec(v).ok()), ("conjure-smile", conjure_serde::smile::to_vec(v).ok())] {
        let bytes = match bytes {
            Some(b) => b,
            None => continue,
        };
        let got = vcommon::catch(|| conjure_serde::smile::client_from_slice::<Any>(&bytes).map_err(|e| e.to_string()).and_then(|a| a.deserialize_into::<T>().map_err(|e| e.to_string())));
        match got {
            Err(p) => r.violation(format!("C13|K|panic|smile:{}", name), format!("{} {} via {}: panicked: {}", name, shown, enc, p), case.clone()),
            Ok(Err(e)) => r.violation(format!("C13|K|value-rejected|smile:{}", name), format!("{} {} does not survive {} -> Any: {}", name, shown, enc, e), case.clone()),
            Ok(Ok(back)) if same(&back, v) => r.outcome("K:smile-value-survives-any"),
            Ok(Ok(back)) => r.violation(format!("C13|K|value-changed|smile:{}", name), format!("{} {} came back from {} -> Any as {:?}", name, shown, enc, back), case.clone()),
        }
    }
}

fn static_smile(r: &mut Report) {
    use conjure_object::Bytes;
    for v in [i8::MIN, -1, 0, 15, i8::MAX] {
        smile_case("i8", &v, r);
    }
    for v in [i16::MIN, -17, 0, 16, i16::MAX] {
        smile_case("i16", &v, r);
    }
    for v in [i32::MIN, -1, 0, 31, 32, i32::MAX] {
        smile_case("i32", &v, r);
    }
    for v in [i64::MIN, i32::MIN as i64 - 1, -1, 0, i32::MAX as i64 + 1, i64::MAX] {
        smile_case("i64", &v, r);
    }
    for v in [0u8, 127, 128, 255] {
        smile_case("u8", &v, r);
    }
    for v in [0u32, i32::MAX as u32, i32::MAX as u32 + 1, u32::MAX] {
        smile_case("u32", &v, r);
    }
    for v in [0u64, i64::MAX as u64, i64::MAX as u64 + 1, u64::MAX] {
        smile_case("u64", &v, r);
    }
    for v in [0.5f32, -0.0, f32::MAX, f32::MIN_POSITIVE, f32::NAN, f32::INFINITY, f32::NEG_INFINITY] {
        smile_case("f32", &v, r);
    }
    for v in [0.1f64, -0.0, 5e-324, 1e300, f64::NAN, f64::INFINITY, f64::NEG_INFINITY] {
        smile_case("f64", &v, r);
        smile_case("list<f64>", &vec![v, 1.0], r);
        smile_case("optional<f64>", &Some(v), r);
    }
    for n in [0usize, 1, 2, 3, 7, 8, 255, 256, 1025] {
        let b = Bytes::from((0..n).map(|i| (i * 7 + 3) as u8).collect::<Vec<u8>>());
        smile_case("binary", &b, r);
        smile_case("list<binary>", &vec![b.clone(), Bytes::new()], r);
        smile_case("map<string,binary>", &[("k".to_string(), b.clone())].into_iter().collect::<std::collections::BTreeMap<_, _>>(), r);
    }
    for v in ['a', '\u{e9}', '\u{10000}'] {
        smile_case("char", &v, r);
    }
    for v in ["", "a", "\u{e9}\u{10000}", "a long string of more than sixty-four characters ........................................"] {
        smile_case("string", &v.to_string(), r);
    }
    smile_case("bool", &true, r);
    smile_case("unit", &(), r);
    smile_case("optional<i32>:none", &None::<i32>, r);
    smile_case("tuple", &(1i32, "x".to_string(), 2.5f64), r);
    smile_case("uuid", &conjure_object::Uuid::from_u128(0x0123_4567_89ab_cdef_fedc_ba98_7654_3210), r);
    smile_case("list<uuid>", &vec![conjure_object::Uuid::from_u128(7)], r);
}

mod holders {
    use conjure_object::Any;
    use serde::{Deserialize, Serialize};
    use std::collections::BTreeMap;
    /// static types with `any`-typed parts (what Conjure generates for `any` fields)
    #[derive(Serialize, Deserialize, PartialEq, Debug, Clone)]
    pub struct AnyHolder {
        pub any: Any,
        pub items: BTreeMap<String, Any>,
        pub maybe: Option<Vec<Any>>,
    }
}

/// value -> Any -> value where the value itself carries dynamic parts built from typed data
/// (maps with non-string keys, 128-bit integers, binary, nested options)
fn static_nested_any(r: &mut Report) {
    use conjure_object::DoubleKey;
    use std::collections::{BTreeMap, BTreeSet};
    let parts: Vec<(&'static str, Any)> = vec![
        ("map<i32,_>", Any::new(&[(1i32, "a"), (-2, "b")].into_iter().collect::<BTreeMap<_, _>>()).unwrap()),
        ("map<bool,_>", Any::new(&[(true, 1u8), (false, 2)].into_iter().collect::<BTreeMap<_, _>>()).unwrap()),
        ("map<f64,_>", Any::new(&[(DoubleKey(1.5), 1), (DoubleKey(f64::NAN), 2)].into_iter().collect::<BTreeMap<_, _>>()).unwrap()),
        ("map<u128,_>", Any::new(&[(u128::MAX, vec![1u64]), (0u128, vec![])].into_iter().collect::<BTreeMap<_, _>>()).unwrap()),
        ("map<string,map<i64,_>>", Any::new(&[("k".to_string(), [(i64::MIN, 0.5f64)].into_iter().collect::<BTreeMap<_, _>>())].into_iter().collect::<BTreeMap<_, _>>()).unwrap()),
        ("set<i32>", Any::new(&[3i32, 1, 2].into_iter().collect::<BTreeSet<_>>()).unwrap()),
        ("binary", Any::new(&conjure_object::Bytes::from(vec![0xf8u8, 0xff, 0x00])).unwrap()),
        ("i128", Any::new(&i128::MIN).unwrap()),
        ("optional<none>", Any::new(&None::<i32>).unwrap()),
        ("f32", Any::new(&f32::NAN).unwrap()),
        ("string", Any::new("text").unwrap()),
    ];
    for (name, part) in &parts {
        let h = holders::AnyHolder { any: part.clone(), items: [("x".to_string(), part.clone()), ("y".to_string(), Any::new(&7i8).unwrap())].into_iter().collect(), maybe: Some(vec![part.clone(), part.clone()]) };
        buffered_case(Box::leak(format!("holder-of-any:{}", name).into_boxed_str()), &h, r);
        buffered_case(Box::leak(format!("any:{}", name).into_boxed_str()), part, r);
        buffered_case(Box::leak(format!("list<any>:{}", name).into_boxed_str()), &vec![part.clone()], r);
    }
}

/// values whose serde form depends on is_human_readable (IpAddr, uuid, a probe type): `any` is a
/// JSON-like carrier, so it must give the serializer and the deserializer the answer JSON gives,
/// at every position; the JSON of the carrier is the JSON of the value
fn static_hr(r: &mut Report) {
    let v = crate::c01::hr::holder(true);
    buffered_case("hr-sensitive", &v, r);
    buffered_case("hr-sensitive", &crate::c01::hr::Wrapper(v.clone()), r);
    buffered_case("hr-sensitive", &vec![Some(v.clone())], r);
    r.evaluations += 1;
    let direct = conjure_serde::json::to_string(&v).map_err(|e| e.to_string());
    let via = Any::new(&v).map_err(|e| e.to_string()).and_then(|a| conjure_serde::json::to_string(&a).map_err(|e| e.to_string()));
    let same = match (&direct, &via) {
        (Ok(a), Ok(b)) => serde_json::from_str::<serde_json::Value>(a).ok() == serde_json::from_str::<serde_json::Value>(b).ok(),
        _ => false,
    };
    if same {
        r.outcome("K:json-of-any-is-json-of-value");
    } else {
        r.violation("C13|K|json-differs|buffered:hr-sensitive".to_string(), format!("JSON of the value is {:?}, JSON of its Any is {:?}", direct, via), json!({"space": "K", "buffered": "hr-sensitive"}));
    }
}

/// maps whose keys are not scalars (tuples, sequences, options, structs, unit structs, enums):
/// `any` keys its maps by `any`, so they survive the carrier although JSON could not write them
fn static_compound_keys(r: &mut Report) {
    use std::collections::BTreeMap;
    #[derive(serde::Serialize, serde::Deserialize, PartialEq, Eq, PartialOrd, Ord, Debug, Clone)]
    struct KS {
        a: i32,
        b: String,
    }
    #[derive(serde::Serialize, serde::Deserialize, PartialEq, Eq, PartialOrd, Ord, Debug, Clone)]
    struct KU;
    #[derive(serde::Serialize, serde::Deserialize, PartialEq, Eq, PartialOrd, Ord, Debug, Clone)]
    struct KT(i32, bool);
    #[derive(serde::Serialize, serde::Deserialize, PartialEq, Eq, PartialOrd, Ord, Debug, Clone)]
    enum KE {
        Unit,
        Other,
    }
    buffered_case("key:tuple", &[((1i32, true), "a".to_string()), ((-1, false), "b".to_string())].into_iter().collect::<BTreeMap<_, _>>(), r);
    buffered_case("key:seq", &[(vec![1u8, 2], 1i32), (vec![], 2)].into_iter().collect::<BTreeMap<_, _>>(), r);
    buffered_case("key:option", &[(Some(5i64), 1i32), (None, 2)].into_iter().collect::<BTreeMap<_, _>>(), r);
    buffered_case("key:option<string>", &[(Some("k".to_string()), 1i32), (None, 2)].into_iter().collect::<BTreeMap<_, _>>(), r);
    buffered_case("key:struct", &[(KS { a: 1, b: "x".into() }, vec![1i32]), (KS { a: 1, b: "y".into() }, vec![])].into_iter().collect::<BTreeMap<_, _>>(), r);
    buffered_case("key:unit-struct", &[(KU, 1i32)].into_iter().collect::<BTreeMap<_, _>>(), r);
    buffered_case("key:tuple-struct", &[(KT(1, true), 1i32), (KT(1, false), 2)].into_iter().collect::<BTreeMap<_, _>>(), r);
    // (enum keys with payload variants are refused on the way back, as by serde_json: excluded)
    buffered_case("key:enum", &[(KE::Unit, 1i32), (KE::Other, 2)].into_iter().collect::<BTreeMap<_, _>>(), r);
    buffered_case("key:map", &[([(1i32, 2i32)].into_iter().collect::<BTreeMap<_, _>>(), 1i32)].into_iter().collect::<BTreeMap<_, _>>(), r);
    buffered_case("key:char", &[('a', 1i32), ('\u{e9}', 2)].into_iter().collect::<BTreeMap<_, _>>(), r);
    buffered_case("key:unit", &[((), 1i32)].into_iter().collect::<BTreeMap<_, _>>(), r);
}

fn static_keys(r: &mut Report) {
    static_buffered(r);
    static_hr(r);
    static_compound_keys(r);
    static_smile(r);
    static_nested_any(r);
    use conjure_object::DoubleKey;
    use keys::*;
    key_case("newtype(u32)", vec![KU32(0), KU32(1), KU32(u32::MAX)], r);
    key_case("newtype(i64)", vec![KI64(i64::MIN), KI64(-1), KI64(i64::MAX)], r);
    key_case("newtype(i8)", vec![KI8(-128), KI8(0), KI8(127)], r);
    key_case("newtype(u64)", vec![KU64(0), KU64(u64::MAX)], r);
    key_case("newtype(i128)", vec![KI128(i128::MIN), KI128(-1), KI128(i128::MAX)], r);
    key_case("newtype(u128)", vec![KU128(0), KU128(u128::MAX)], r);
    key_case("newtype(bool)", vec![KBool(false), KBool(true)], r);
    key_case("newtype(string)", vec![KStr("".into()), KStr("1".into()), KStr("true".into()), KStr("a b".into())], r);
    key_case("newtype(char)", vec![KChar('a'), KChar('1'), KChar('\u{e9}')], r);
    key_case("newtype(DoubleKey)", vec![KDbl(DoubleKey(-0.5)), KDbl(DoubleKey(1e21)), KDbl(DoubleKey(f64::INFINITY)), KDbl(DoubleKey(f64::NAN))], r);
    key_case("newtype(newtype(u32))", vec![KNested(KU32(7)), KNested(KU32(0))], r);
    key_case("transparent(i32)", vec![KTransparent(-1), KTransparent(0), KTransparent(i32::MAX)], r);
    key_case("unit-variant enum", vec![KEnum::First, KEnum::Second], r);
    key_case("i32", vec![-1i32, 0, 1], r);
    key_case("DoubleKey", vec![DoubleKey(0.1), DoubleKey(f64::NEG_INFINITY)], r);
    // both zeros and NaNs of different sign / payload offered as keys of one map: whatever the
    // typed map keeps apart, the carrier keeps apart
    key_case("DoubleKey(zeros+nans)", vec![DoubleKey(0.0), DoubleKey(-0.0), DoubleKey(1.0), DoubleKey(f64::NAN), DoubleKey(-f64::NAN), DoubleKey(f64::from_bits(0x7ff8_0000_0000_0001))], r);
    key_case("newtype(DoubleKey)(zeros)", vec![KDbl(DoubleKey(-0.0)), KDbl(DoubleKey(0.0))], r);
    key_case("option-free tuple struct key is a newtype", vec![KI64(5)], r);
}

pub fn run(args: &Args) -> Report {
    let mut report = Report::new("C13", "model_checking");
    let shapes = space_a(args);
    let (docs, shallow) = documents(args.tier.is_thorough());
    let view_shapes: Vec<Shape> = {
        let keys = [Leaf::Str, Leaf::I32, Leaf::I64, Leaf::F64, Leaf::Bool, Leaf::Uuid, Leaf::Bytes];
        let mut leaves = CONJURE_LEAVES.to_vec();
        leaves.extend([Leaf::U64, Leaf::RawI64, Leaf::F32, Leaf::Unit]);
        space::shapes_up_to(args.tier.pick(1, 2), &leaves, &keys)
    };
    if let Some(path) = &args.replay {
        let v = vcommon::load_replay(path);
        let c = &v["case"];
        match c["space"].as_str() {
            Some("A") => {
                let want = c["shape"].as_str().unwrap();
                for s in shapes.iter().filter(|s| s.text() == want) {
                    for val in space::values(s, 1) {
                        check_a(s, &val, &mut report);
                    }
                }
            }
            Some("B") => check_b(c["doc"].as_str().unwrap(), &mut report),
            Some("K") => static_keys(&mut report),
            _ => {
                let want = c["shape"].as_str().unwrap();
                let doc = c["doc"].as_str().unwrap();
                for s in view_shapes.iter().chain(shapes.iter()).filter(|s| s.text() == want).take(1) {
                    check_c(doc, s, &mut report);
                }
            }
        }
        report.exhaustive = false;
        return report;
    }
    let new = || Report::new("C13", "model_checking");
    let merge = |mut a: Report, b: Report| {
        a.merge(b);
        a
    };
    let a = shapes
        .par_iter()
        .fold(new, |mut r, s| {
            for v in space::values(s, 1) {
                check_a(s, &v, &mut r);
            }
            if s.depth() == 2 {
                r.sample("A", json!({"shape": s.text(), "value": format!("{:?}", space::default_val(s))}));
            }
            r
        })
        .reduce(new, merge);
    report.merge(a);
    let b = docs
        .par_iter()
        .fold(new, |mut r, d| {
            check_b(d, &mut r);
            if d.len() > 30 {
                r.sample("B", json!(d));
            }
            r
        })
        .reduce(new, merge);
    report.merge(b);
    let c = docs[..shallow]
        .par_iter()
        .fold(new, |mut r, d| {
            for s in &view_shapes {
                check_c(d, s, &mut r);
            }
            r
        })
        .reduce(new, merge);
    report.merge(c);
    // texts that look like a coercible spelling but are not one (std's float parser takes many
    // of them): bare, in a list, as a member — against every view shape
    let mut alike = vec![];
    for t in LOOK_ALIKES {
        alike.push(format!("\"{}\"", t));
        alike.push(format!("[\"{}\"]", t));
        alike.push(format!("{{\"a\":\"{}\"}}", t));
        alike.push(format!("{{\"{}\":1}}", t));
    }
    let c2 = alike
        .par_iter()
        .fold(new, |mut r, d| {
            for s in &view_shapes {
                check_c(d, s, &mut r);
            }
            r
        })
        .reduce(new, merge);
    report.merge(c2);
    // number literals: every binary exponent x mantissa pattern, as a document and viewed as f64
    let f64_shape = Shape::Leaf(Leaf::F64);
    for b in crate::c01::double_grid(args.tier.is_thorough()) {
        let v = f64::from_bits(b);
        if let Ok(doc) = serde_json::to_string(&v) {
            check_b(&doc, &mut report);
            check_c(&doc, &f64_shape, &mut report);
            check_a(&f64_shape, &Val::F64(v), &mut report);
        }
    }
    static_keys(&mut report);
    report.sample("C", json!({"doc": "{\"NaN\":\"aGk=\"}", "shape": "map<f64,bytes>"}));
    report.extra.insert("space_A_shapes".into(), json!(shapes.len()));
    report.extra.insert("space_B_documents".into(), json!(docs.len()));
    report.extra.insert("space_C_pairs_tried".into(), json!(shallow * view_shapes.len()));
    report.bound("A_depth", args.tier.pick(2, 3));
    report.bound("B_depth", args.tier.pick(3, 4));
    report.bound("C_shape_depth", args.tier.pick(1, 2));
    report.nontrivial = report.states;
    report.rule = "A: every (shape, value) of the C01 grammar extended with all integer widths, f32, char, unit, tuples, newtype/tuple structs and enums with every variant kind; B: every JSON document of the stated grammar up to the depth bound; C: every (document, shape) pair for which direct parsing succeeds. states count A cases + B documents + C pairs that parse directly".into();
    report.assumptions.push("integers beyond 64 bits in JSON documents become doubles in serde_json and are not enumerated".into());
    report
}
