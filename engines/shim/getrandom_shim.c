/* LD_PRELOAD shim: answers getrandom() (and the raw syscall used as a fallback) from a
 * deterministic stream seeded by VERIF_HASH_SEED, so that std's RandomState -- the only
 * nondeterministic input of the code generator -- becomes a harness choice. */
#define _GNU_SOURCE
#include <stdlib.h>
#include <stdint.h>
#include <string.h>
#include <sys/types.h>

static uint64_t state;
static int inited;

static uint64_t next(void) {
    if (!inited) {
        const char *s = getenv("VERIF_HASH_SEED");
        state = s ? strtoull(s, 0, 10) * 0x9E3779B97F4A7C15ull + 0x1234567ull : 42;
        inited = 1;
    }
    uint64_t z = (state += 0x9E3779B97F4A7C15ull);
    z = (z ^ (z >> 30)) * 0xBF58476D1CE4E5B9ull;
    z = (z ^ (z >> 27)) * 0x94D049BB133111EBull;
    return z ^ (z >> 31);
}

ssize_t getrandom(void *buf, size_t len, unsigned int flags) {
    (void)flags;
    unsigned char *p = buf;
    for (size_t i = 0; i < len; i++) {
        p[i] = (unsigned char)(next() >> 24);
    }
    return (ssize_t)len;
}

int getentropy(void *buf, size_t len) {
    getrandom(buf, len, 0);
    return 0;
}
