//! C11 — response encoding honours Accept; request decoding honours Content-Type.
//!
//! Explicit-state: every Accept list of <= n items over a range x q alphabet (also split
//! over two header lines) x every ordered registry of 1..3 encodings; the reference model
//! is the declarative "permitted / no better permitted / tie-break" predicate of the
//! statement, not the sort-and-select algorithm.

use conjure_http::server::{ConjureRuntime, DeserializerState, Encoding, SerializerState};
use http::header::{ACCEPT, CONTENT_TYPE};
use http::{HeaderMap, HeaderValue};
use rayon::prelude::*;
use serde_json::json;
use std::collections::BTreeSet;
use vcommon::{Args, Report};

#[derive(Clone, Copy, Debug, PartialEq, Eq, PartialOrd, Ord)]
enum Enc {
    Json,
    Smile,
    Text,
}

impl Enc {
    fn ty(self) -> (&'static str, &'static str) {
        match self {
            Enc::Json => ("application", "json"),
            Enc::Smile => ("application", "x-jackson-smile"),
            Enc::Text => ("text", "plain"),
        }
    }
    fn content_type(self) -> &'static str {
        match self {
            Enc::Json => "application/json",
            Enc::Smile => "application/x-jackson-smile",
            // the third encoding's own content type carries a parameter (its media type is still
            // text/plain: parameters of the registered type do not take part in matching)
            Enc::Text => "text/plain; charset=utf-8",
        }
    }
}

struct TextEncoding;

impl Encoding for TextEncoding {
    fn content_type(&self) -> HeaderValue {
        HeaderValue::from_static("text/plain; charset=utf-8")
    }
    // a third registered encoding with its own media type; the bytes are JSON
    fn serializer<'a>(&self, w: &'a mut Vec<u8>) -> Box<dyn SerializerState<'a> + 'a> {
        conjure_http::server::JsonEncoding.serializer(w)
    }
    fn deserializer<'a>(&self, buf: &'a [u8]) -> Box<dyn DeserializerState<'a> + 'a> {
        conjure_http::server::JsonEncoding.deserializer(buf)
    }
}

fn runtime(registry: &[Enc]) -> ConjureRuntime {
    let mut b = ConjureRuntime::builder();
    for e in registry {
        b = match e {
            Enc::Json => b.encoding(conjure_http::server::JsonEncoding),
            Enc::Smile => b.encoding(conjure_http::server::SmileEncoding),
            Enc::Text => b.encoding(TextEncoding),
        };
    }
    b.build()
}

#[derive(Clone, Copy, Debug, PartialEq)]
enum Q {
    Absent,
    /// thousandths
    Val(&'static str, u32),
    /// not a q-value of the grammar 0(.ddd)? / 1(.000)?
    Bad(&'static str),
}

#[derive(Clone, Copy, Debug, PartialEq)]
struct Item {
    /// None = an item that is not a media range at all
    range: Option<(&'static str, &'static str)>,
    extra_params: usize,
    q: Q,
}

impl Item {
    fn text(&self) -> String {
        let (t, s) = match self.range {
            Some(r) => r,
            None => return "garbage".to_string(),
        };
        let mut out = format!("{}/{}", t, s);
        if self.extra_params > 0 {
            out.push_str(";charset=utf-8");
        }
        match self.q {
            Q::Absent => {}
            Q::Val(s, _) | Q::Bad(s) => {
                out.push_str(";q=");
                out.push_str(s);
            }
        }
        out
    }
}

fn items() -> Vec<Item> {
    let ranges: [(Option<(&'static str, &'static str)>, usize); 10] = [
        // a wildcard with a parameter is still less specific than a concrete type
        (Some(("application", "*")), 1),
        (Some(("*", "*")), 1),
        // a structured-syntax suffix makes a different media type
        (Some(("application", "json+xml")), 0),
        (Some(("application", "json")), 0),
        (Some(("application", "x-jackson-smile")), 0),
        (Some(("application", "*")), 0),
        (Some(("*", "*")), 0),
        (Some(("text", "plain")), 0),
        (Some(("text", "*")), 0),
        (Some(("application", "json")), 1),
    ];
    let qs = [Q::Absent, Q::Val("0", 0), Q::Val("0.000", 0), Q::Val("0.001", 1), Q::Val("0.5", 500), Q::Val("1", 1000), Q::Val("1.000", 1000), Q::Bad("abc")];
    let mut out = vec![];
    for (r, p) in ranges {
        for q in qs {
            out.push(Item { range: r, extra_params: p, q });
        }
    }
    out.push(Item { range: None, extra_params: 0, q: Q::Absent });
    out
}

/// long lists: n filler ranges (unrelated concrete types, or ranges more specific than any other)
/// with the deciding ranges first, last or in the middle — negotiation has no length limit
fn long_lists(thorough: bool) -> Vec<Vec<Item>> {
    let leak = |s: String| -> &'static str { Box::leak(s.into_boxed_str()) };
    let it = |t: &'static str, s: &'static str, p: usize, q: Q| Item { range: Some((t, s)), extra_params: p, q };
    let tails: Vec<Vec<Item>> = vec![
        vec![it("*", "*", 0, Q::Val("0.8", 800))],
        vec![it("application", "x-jackson-smile", 0, Q::Absent)],
        vec![it("application", "x-jackson-smile", 0, Q::Absent), it("*", "*", 0, Q::Val("0.1", 100))],
        vec![it("application", "json", 0, Q::Val("0", 0)), it("*", "*", 0, Q::Absent)],
        vec![it("application", "*", 0, Q::Val("0.5", 500)), it("application", "json", 0, Q::Val("0", 0))],
        vec![it("text", "*", 0, Q::Val("0.3", 300)), it("application", "*", 1, Q::Val("0.2", 200))],
    ];
    let lens: Vec<usize> = if thorough { vec![8, 15, 16, 17, 18, 31, 32, 33, 63, 64, 65, 100, 128, 255, 256, 257] } else { vec![15, 16, 17, 33, 64] };
    let mut out = vec![];
    for n in lens {
        for kind in 0..2 {
            let filler: Vec<Item> = (0..n).map(|i| if kind == 0 { it("image", leak(format!("t{}", i)), 0, if i % 3 == 0 { Q::Val("0.9", 900) } else { Q::Absent }) } else { it("audio", leak(format!("a{}", i)), 1, Q::Absent) }).collect();
            for tail in &tails {
                let mut last = filler.clone();
                last.extend(tail.iter().cloned());
                out.push(last);
                let mut first = tail.clone();
                first.extend(filler.iter().cloned());
                out.push(first);
                let mut mid = filler[..n / 2].to_vec();
                mid.extend(tail.iter().cloned());
                mid.extend(filler[n / 2..].iter().cloned());
                out.push(mid);
            }
        }
    }
    out
}

/// a reduced alphabet for lists one item longer than the full alphabet affords
fn reduced_items() -> Vec<Item> {
    let ranges: [(Option<(&'static str, &'static str)>, usize); 6] =
        [(Some(("application", "json")), 0), (Some(("application", "x-jackson-smile")), 0), (Some(("application", "*")), 0), (Some(("*", "*")), 0), (Some(("application", "json")), 1), (Some(("application", "*")), 1)];
    let qs = [Q::Absent, Q::Val("0", 0), Q::Val("0.5", 500)];
    let mut out = vec![];
    for (r, p) in ranges {
        for q in qs {
            out.push(Item { range: r, extra_params: p, q });
        }
    }
    out
}

fn matches(range: (&str, &str), e: Enc) -> bool {
    let (t, s) = e.ty();
    if range == ("*", "*") {
        return true;
    }
    if range.1 == "*" {
        return range.0 == t;
    }
    range == (t, s)
}

fn specificity(it: &Item) -> (bool, bool, usize) {
    let r = it.range.unwrap();
    (r.0 != "*", r.1 != "*", it.extra_params)
}

/// Every outcome the statement permits: Some(position in registry) or None (= error).
fn model(list: Option<&[Item]>, registry: &[Enc]) -> (BTreeSet<Option<usize>>, &'static str) {
    let list = match list {
        None => return ([Some(0)].into_iter().collect(), "no-accept-header"),
        Some(l) => l,
    };
    let parsable: Vec<(usize, &Item)> = list.iter().enumerate().filter(|(_, i)| i.range.is_some()).collect();
    if parsable.is_empty() {
        // header present but nothing in it is a media range: the statement is silent
        return ([Some(0), None].into_iter().collect(), "no-parsable-range");
    }
    let bad: Vec<usize> = parsable.iter().filter(|(_, i)| matches!(i.q, Q::Bad(_))).map(|(idx, _)| *idx).collect();
    let mut outcomes = BTreeSet::new();
    let mut ambiguous = false;
    for reading in 0..(1u32 << bad.len()) {
        // a range with a malformed q either counts with the default quality or is dropped
        let mut ranges: Vec<(usize, &Item, u32)> = vec![];
        for (idx, it) in &parsable {
            let q = match it.q {
                Q::Absent => 1000,
                Q::Val(_, v) => v,
                Q::Bad(_) => {
                    let pos = bad.iter().position(|b| b == idx).unwrap();
                    if reading & (1 << pos) != 0 {
                        continue;
                    }
                    1000
                }
            };
            ranges.push((*idx, it, q));
        }
        if ranges.is_empty() {
            outcomes.insert(Some(0));
            outcomes.insert(None);
            continue;
        }
        // per encoding: the (q, idx) of each of its most specific matching ranges
        let mut tops: Vec<Vec<(u32, usize)>> = vec![];
        for e in registry {
            let m: Vec<&(usize, &Item, u32)> = ranges.iter().filter(|(_, it, _)| matches(it.range.unwrap(), *e)).collect();
            let best = m.iter().map(|(_, it, _)| specificity(it)).max();
            let top: Vec<(u32, usize)> = match best {
                None => vec![],
                Some(b) => m.iter().filter(|(_, it, _)| specificity(it) == b).map(|(idx, _, q)| (*q, *idx)).collect(),
            };
            let distinct_q: BTreeSet<u32> = top.iter().map(|t| t.0).collect();
            if distinct_q.len() > 1 {
                ambiguous = true;
            }
            // equally specific ranges of equal quality: the one listed first counts
            // ("among equals the range listed first wins"); only a difference in quality
            // between equally specific ranges leaves the reading open
            let top: Vec<(u32, usize)> = distinct_q.iter().map(|q| (*q, top.iter().filter(|t| t.0 == *q).map(|t| t.1).min().unwrap())).collect();
            tops.push(top);
        }
        // every choice of "the" most specific range per encoding
        let dims: Vec<usize> = tops.iter().map(|t| t.len().max(1)).collect();
        vcommon::enumerate::for_each_product(&dims, |choice| {
            let mut permitted: Vec<(usize, u32, usize)> = vec![]; // (registry pos, q, range idx)
            for (pos, top) in tops.iter().enumerate() {
                if top.is_empty() {
                    continue;
                }
                let (q, idx) = top[choice[pos]];
                if q > 0 {
                    permitted.push((pos, q, idx));
                }
            }
            if permitted.is_empty() {
                outcomes.insert(None);
                return;
            }
            let best_q = permitted.iter().map(|p| p.1).max().unwrap();
            let winner = permitted.iter().filter(|p| p.1 == best_q).min_by_key(|p| (p.2, p.0)).unwrap();
            outcomes.insert(Some(winner.0));
        });
    }
    let class = if !bad.is_empty() {
        "malformed-q-present"
    } else if ambiguous {
        "equal-specificity-different-q"
    } else {
        "determined"
    };
    (outcomes, class)
}

fn registries() -> Vec<Vec<Enc>> {
    let all = [Enc::Json, Enc::Smile, Enc::Text];
    let mut out = vec![];
    for a in all {
        out.push(vec![a]);
        for b in all {
            if b != a {
                out.push(vec![a, b]);
                for c in all {
                    if c != a && c != b {
                        out.push(vec![a, b, c]);
                    }
                }
            }
        }
    }
    out
}

fn run_case(rt: &ConjureRuntime, registry: &[Enc], lines: &[String]) -> Result<Option<usize>, String> {
    let mut headers = HeaderMap::new();
    for l in lines {
        headers.append(ACCEPT, HeaderValue::from_str(l).map_err(|e| e.to_string())?);
    }
    let got = vcommon::catch(|| rt.response_body_encoding(&headers).ok().map(|e| e.content_type().to_str().unwrap().to_string()))?;
    match got {
        None => Ok(None),
        // an encoding nobody registered is reported like a panic: a violation, not a harness crash
        Some(ct) => registry.iter().position(|e| e.content_type() == ct).map(Some).ok_or_else(|| format!("chose {:?}, which is not among the registered encodings", ct)),
    }
}

/// the observation point "Content-Type of responses from StdResponseSerializer": the blocking
/// and async serializers (and the collection serializer on a non-empty value) must produce a
/// response in exactly the encoding negotiation chose - header and bytes - or refuse when it refuses
fn serializers(rt: &ConjureRuntime, registry: &[Enc], lines: &[String], chosen: Option<usize>, r: &mut Report, case: &serde_json::Value) {
    use conjure_http::server::conjure::CollectionResponseSerializer;
    use conjure_http::server::{AsyncResponseBody, AsyncSerializeResponse, ResponseBody, SerializeResponse, StdResponseSerializer};
    let mut headers = HeaderMap::new();
    for l in lines {
        match HeaderValue::from_str(l) {
            Ok(v) => {
                headers.append(ACCEPT, v);
            }
            Err(_) => return,
        }
    }
    let value: Vec<i32> = vec![7, -1];
    // a response whose serialization fails midway precedes every judged one (same thread): what
    // it left behind must not reach the next response
    struct FailsMidway;
    impl serde::Serialize for FailsMidway {
        fn serialize<S: serde::Serializer>(&self, s: S) -> Result<S::Ok, S::Error> {
            use serde::ser::SerializeSeq;
            let mut seq = s.serialize_seq(Some(3))?;
            seq.serialize_element("partial output")?;
            seq.serialize_element(&[1u8, 2, 3][..])?;
            Err(serde::ser::Error::custom("fails midway"))
        }
    }
    // (an Error captures a back-trace: one Accept value in 32 - chosen by its text, so that a
    // replay chooses alike - is preceded by a failing response)
    let h = lines.iter().flat_map(|l| l.bytes()).fold(0xcbf29ce484222325u64, |h, b| (h ^ b as u64).wrapping_mul(0x100000001b3));
    let poison = || {
        if h % 32 != 0 {
            return;
        }
        let _ = vcommon::catch(|| <StdResponseSerializer as SerializeResponse<_, Vec<u8>>>::serialize(rt, &headers, FailsMidway).is_ok());
    };
    let observe = |ct: Option<&HeaderValue>, body: Option<&[u8]>| -> Result<Option<usize>, String> {
        let ct = ct.ok_or("response without Content-Type")?.to_str().map_err(|e| e.to_string())?.to_string();
        let idx = registry.iter().position(|e| e.content_type() == ct).ok_or(format!("Content-Type {} is not registered", ct))?;
        let body = body.ok_or("response body is not a fixed buffer")?;
        let back: Option<Vec<i32>> = match registry[idx] {
            Enc::Smile => serde_smile::from_slice(body).ok(),
            _ => serde_json::from_slice(body).ok(),
        };
        if back.as_ref() != Some(&value) {
            return Err(format!("the body is not the value in {}", ct));
        }
        Ok(Some(idx))
    };
    let runs: Vec<(&str, Result<Result<Option<usize>, String>, String>)> = vec![
        ("StdResponseSerializer", vcommon::catch(|| match {
            poison();
            <StdResponseSerializer as SerializeResponse<_, Vec<u8>>>::serialize(rt, &headers, value.clone())
        } {
            Ok(resp) => observe(resp.headers().get(CONTENT_TYPE), match resp.body() { ResponseBody::Fixed(b) => Some(&b[..]), _ => None }),
            Err(_) => Ok(None),
        })),
        ("StdResponseSerializer(async)", vcommon::catch(|| match {
            poison();
            <StdResponseSerializer as AsyncSerializeResponse<_, Vec<u8>>>::serialize(rt, &headers, value.clone())
        } {
            Ok(resp) => observe(resp.headers().get(CONTENT_TYPE), match resp.body() { AsyncResponseBody::Fixed(b) => Some(&b[..]), _ => None }),
            Err(_) => Ok(None),
        })),
        ("CollectionResponseSerializer", vcommon::catch(|| match {
            poison();
            <CollectionResponseSerializer as SerializeResponse<_, Vec<u8>>>::serialize(rt, &headers, value.clone())
        } {
            Ok(resp) => observe(resp.headers().get(CONTENT_TYPE), match resp.body() { ResponseBody::Fixed(b) => Some(&b[..]), _ => None }),
            Err(_) => Ok(None),
        })),
        ("CollectionResponseSerializer(async)", vcommon::catch(|| match {
            poison();
            <CollectionResponseSerializer as AsyncSerializeResponse<_, Vec<u8>>>::serialize(rt, &headers, value.clone())
        } {
            Ok(resp) => observe(resp.headers().get(CONTENT_TYPE), match resp.body() { AsyncResponseBody::Fixed(b) => Some(&b[..]), _ => None }),
            Err(_) => Ok(None),
        })),
    ];
    for (name, got) in runs {
        r.evaluations += 1;
        match got {
            Ok(Ok(g)) if g == chosen => {}
            other => r.violation(
                format!("C11|response|serializer-departs-from-negotiation|{}", name),
                format!("Accept {:?} with registry {:?}: negotiation chose {:?}, {} produced {:?}", lines, registry.iter().map(|e| e.content_type()).collect::<Vec<_>>(), chosen.map(|i| registry[i].content_type()), name, other),
                case.clone(),
            ),
        }
    }
}

const DANGLING: &str = "text/plain;charset=\"utf-8";

fn check_list(list: &[Item], registry: &[Enc], rt: &ConjureRuntime, r: &mut Report) {
    let (allowed, class) = model(Some(list), registry);
    let text: Vec<String> = list.iter().map(|i| i.text()).collect();
    // renderings: one header line; and split into two lines at every position
    let mut renderings: Vec<Vec<String>> = vec![vec![text.join(", ")]];
    for cut in 1..list.len() {
        renderings.push(vec![text[..cut].join(","), text[cut..].join(" , ")]);
    }
    // an entry that breaks off inside a quoted string ends with its own field line: the ranges
    // of the next line count as before
    let c = list.len() / 2;
    let mut first: Vec<String> = text[..c].to_vec();
    first.push(DANGLING.to_string());
    renderings.push(vec![first.join(","), text[c..].join(",")]);
    for lines in renderings {
        r.states += 1;
        r.transitions += 1;
        r.evaluations += 1;
        r.outcome(class);
        let got = run_case(rt, registry, &lines);
        let case = json!({"accept": lines, "registry": registry.iter().map(|e| e.content_type()).collect::<Vec<_>>()});
        match got {
            Err(p) => r.violation("C11|response|panic".to_string(), format!("response_body_encoding panicked on Accept {:?}: {}", lines, p), case),
            Ok(g) => {
                serializers(rt, registry, &lines, g, r, &case);
                if allowed.contains(&g) {
                    if allowed.len() == 1 {
                        r.nontrivial += 1;
                    }
                } else {
                    let kind = match (g, allowed.iter().next().unwrap()) {
                        (None, _) => "rejected-although-something-is-permitted",
                        (Some(_), None) if allowed.len() == 1 => "chose-an-encoding-although-none-is-permitted",
                        _ => "wrong-encoding-chosen",
                    };
                    r.violation(
                        format!("C11|response|{}|{}|items={}", kind, class, list.len()),
                        format!(
                            "Accept {:?} with registry {:?}: chose {:?}, the statement permits {:?}",
                            lines,
                            registry.iter().map(|e| e.content_type()).collect::<Vec<_>>(),
                            g.map(|i| registry[i].content_type()),
                            allowed.iter().map(|o| o.map(|i| registry[i].content_type())).collect::<Vec<_>>()
                        ),
                        case,
                    );
                }
            }
        }
    }
}

fn request_side(r: &mut Report) {
    let types = [
        ("application", "json"),
        ("application", "x-jackson-smile"),
        ("text", "plain"),
        ("application", "*"),
        ("*", "*"),
        ("application", "octet-stream"),
        ("application", "jsonx"),
        ("applicationx", "json"),
        ("text", "json"),
        ("application", "json+xml"),
        ("application", "x-jackson-smile+json"),
        ("text", "plain+json"),
    ];
    let params = ["", ";charset=utf-8", "; charset=utf-8", ";q=0.5", ";q=0", "; a=b; c=\"d e\""];
    let mut values: Vec<(Option<Vec<u8>>, Option<(&str, &str)>)> = vec![(None, None)];
    for t in types {
        for p in params {
            values.push((Some(format!("{}/{}{}", t.0, t.1, p).into_bytes()), Some(t)));
        }
    }
    // a Content-Type names one media type: list forms (as in Accept) are not one
    for bad in ["", "garbage", "application/", "/json", "application/json/x", " ", "application/json, text/plain", "application/json,", ", application/json", "json, application/json", "application/json , application/json", "text/plain, application/json", "application/x-jackson-smile, text/plain", "application/json,application/x-jackson-smile", "application/json text/plain", "application/json;charset=utf-8, text/plain"] {
        values.push((Some(bad.as_bytes().to_vec()), None));
    }
    values.push((Some(b"application/json\xff".to_vec()), None));
    values.push((Some(b"\xe9/\xe9".to_vec()), None));
    for registry in registries() {
        let rt = runtime(&registry);
        for (raw, ty) in &values {
            r.states += 1;
            r.transitions += 1;
            r.evaluations += 1;
            let mut headers = HeaderMap::new();
            if let Some(raw) = raw {
                match HeaderValue::from_bytes(raw) {
                    Ok(v) => {
                        headers.insert(CONTENT_TYPE, v);
                    }
                    Err(_) => continue,
                }
            }
            let want: Option<usize> = ty.and_then(|t| registry.iter().position(|e| e.ty() == t));
            let got = vcommon::catch(|| rt.request_body_encoding(&headers).ok().map(|e| e.content_type().to_str().unwrap().to_string()));
            let case = json!({"content_type": raw.as_ref().map(|b| String::from_utf8_lossy(b).into_owned()), "registry": registry.iter().map(|e| e.content_type()).collect::<Vec<_>>()});
            match got {
                Err(p) => r.violation("C11|request|panic".to_string(), format!("request_body_encoding panicked: {}", p), case),
                Ok(Some(ct)) if !registry.iter().any(|e| e.content_type() == ct) => r.violation(
                    "C11|request|decoded-with-an-unregistered-encoding".to_string(),
                    format!("Content-Type {:?}, registry {:?}: the body would be decoded as {:?}, which nobody registered", case["content_type"], case["registry"], ct),
                    case,
                ),
                Ok(g) => {
                    let g = g.map(|ct| registry.iter().position(|e| e.content_type() == ct).unwrap());
                    if g == want {
                        r.nontrivial += 1;
                        r.outcome(if g.is_some() { "request:decoded-with-matching-encoding" } else { "request:rejected" });
                    } else {
                        r.violation(
                            format!("C11|request|{}", if want.is_some() { "matching-encoding-not-used" } else { "decoded-with-a-non-matching-encoding" }),
                            format!("Content-Type {:?}, registry {:?}: got {:?}, expected {:?}", case["content_type"], case["registry"], g.map(|i| registry[i].content_type()), want.map(|i| registry[i].content_type())),
                            case,
                        );
                    }
                }
            }
            // the deserializers that sit on top of it: a body is decoded only under a matching
            // registered encoding - also when the body is empty, also through the optional
            // deserializer (absent header = absent value), blocking and async alike
            {
                use conjure_http::server::conjure::OptionalRequestDeserializer;
                use conjure_http::server::{AsyncDeserializeRequest, DeserializeRequest, StdRequestDeserializer};
                use crate::script::{self, ScriptIter, ScriptStream};
                let docs: Vec<Vec<u8>> = vec![vec![], match want.map(|i| registry[i]) {
                    Some(Enc::Smile) => serde_smile::to_vec(&"x").unwrap(),
                    _ => b"\"x\"".to_vec(),
                }];
                for (bi, body) in docs.iter().enumerate() {
                    let s = if body.is_empty() { vec![] } else { script::default_script(body) };
                    let runs: Vec<(&str, Result<Result<Option<String>, String>, String>)> = vec![
                        ("StdRequestDeserializer", vcommon::catch(|| <StdRequestDeserializer as DeserializeRequest<String, _>>::deserialize(&rt, &headers, ScriptIter::new(&s)).map(Some).map_err(|e| e.cause().to_string()))),
                        ("StdRequestDeserializer(async)", vcommon::catch(|| futures::executor::block_on(<StdRequestDeserializer as AsyncDeserializeRequest<String, _>>::deserialize(&rt, &headers, ScriptStream::new(&s))).map(Some).map_err(|e| e.cause().to_string()))),
                        ("OptionalRequestDeserializer", vcommon::catch(|| <OptionalRequestDeserializer as DeserializeRequest<Option<String>, _>>::deserialize(&rt, &headers, ScriptIter::new(&s)).map_err(|e| e.cause().to_string()))),
                        ("OptionalRequestDeserializer(async)", vcommon::catch(|| futures::executor::block_on(<OptionalRequestDeserializer as AsyncDeserializeRequest<Option<String>, _>>::deserialize(&rt, &headers, ScriptStream::new(&s))).map_err(|e| e.cause().to_string()))),
                    ];
                    for (name, got) in runs {
                        r.evaluations += 1;
                        let optional = name.starts_with("Optional");
                        // what the statement allows: no header -> the optional one yields absent, the
                        // required one refuses; a header naming no registered encoding -> refused;
                        // a matching one -> the document (the empty body is no document)
                        let ok = match (&got, raw.is_none(), want, bi) {
                            (Err(_), _, _, _) => false,
                            (Ok(Ok(None)), true, _, _) => optional,
                            (Ok(Err(_)), true, _, _) => !optional,
                            (Ok(Err(_)), false, None, _) => true,
                            (Ok(Ok(_)), false, None, _) => false,
                            (Ok(Err(_)), false, Some(_), 0) => true,
                            (Ok(Ok(Some(v))), false, Some(_), 1) => v == "x",
                            _ => false,
                        };
                        if ok {
                            r.outcome("request:deserializer-honours-content-type");
                        } else {
                            r.violation(
                                format!("C11|request|deserializer|{}|{}", name, if want.is_some() { "registered" } else if raw.is_none() { "no-header" } else { "unregistered" }),
                                format!("Content-Type {:?}, registry {:?}, {} body: {} gave {:?}", case_ct(raw), registry.iter().map(|e| e.content_type()).collect::<Vec<_>>(), if bi == 0 { "empty" } else { "one-document" }, name, got),
                                json!({"content_type": raw.as_ref().map(|b| String::from_utf8_lossy(b).into_owned()), "registry": registry.iter().map(|e| e.content_type()).collect::<Vec<_>>()}),
                            );
                        }
                    }
                }
            }
        }
    }
}

fn case_ct(raw: &Option<Vec<u8>>) -> Option<String> {
    raw.as_ref().map(|b| String::from_utf8_lossy(b).into_owned())
}

pub fn run(args: &Args) -> Report {
    let mut report = Report::new("C11", "model_checking");
    let its = items();
    let n = args.tier.pick(2usize, 3usize);
    let regs = registries();
    if let Some(path) = &args.replay {
        let v = vcommon::load_replay(path);
        let c = &v["case"];
        if c.get("accept").map(|a| a.as_array().map(|x| x.is_empty()).unwrap_or(false)).unwrap_or(false) {
            for reg in &regs {
                let rt = runtime(reg);
                match run_case(&rt, reg, &[]) {
                    Ok(Some(0)) => report.outcome("no-accept-header"),
                    other => report.violation("C11|response|no-accept-header".to_string(), format!("without an Accept header registry {:?} chose {:?}", reg, other), json!({"accept": [], "registry": reg.iter().map(|e| e.content_type()).collect::<Vec<_>>()})),
                }
            }
        } else if c.get("accept").is_some() {
            let reg: Vec<Enc> = c["registry"].as_array().unwrap().iter().map(|x| match x.as_str().unwrap() {
                "application/json" => Enc::Json,
                "application/x-jackson-smile" => Enc::Smile,
                _ => Enc::Text,
            }).collect();
            let rt = runtime(&reg);
            // re-enumerate and match on the rendered header lines
            let want: Vec<String> = c["accept"].as_array().unwrap().iter().map(|x| x.as_str().unwrap().to_string()).collect();
            let total: u64 = (0..=3).map(|k| (its.len() as u64).pow(k)).sum();
            let _ = total;
            let wanted = want.join(",").replace(' ', "").replace(&format!(",{}", DANGLING), "").replace(&format!("{},", DANGLING), "");
            let n_items = wanted.split(',').count();
            let red = reduced_items();
            let mut done = false;
            if n_items > 4 {
                for list in long_lists(true) {
                    if list.iter().map(|i| i.text()).collect::<Vec<_>>().join(",").replace(' ', "") == wanted {
                        check_list(&list, &reg, &rt, &mut report);
                        done = true;
                        break;
                    }
                }
            }
            for (alphabet, max_len) in [(&its, 3usize), (&red, 4usize)] {
                if done || n_items > max_len {
                    continue;
                }
                let len = n_items;
                let count = (alphabet.len() as u64).pow(len as u32);
                let mut w = vec![];
                for idx in 0..count {
                    vcommon::enumerate::nth_word(alphabet.len(), len, idx, &mut w);
                    let list: Vec<Item> = w.iter().map(|i| alphabet[*i]).collect();
                    let joined = list.iter().map(|i| i.text()).collect::<Vec<_>>().join(",").replace(' ', "");
                    if joined == wanted {
                        check_list(&list, &reg, &rt, &mut report);
                        done = true;
                        break;
                    }
                }
            }
        } else {
            request_side(&mut report);
        }
        report.exhaustive = false;
        return report;
    }

    // no Accept header at all
    for reg in &regs {
        let rt = runtime(reg);
        report.states += 1;
        report.transitions += 1;
        report.evaluations += 1;
        match run_case(&rt, reg, &[]) {
            Ok(Some(0)) => report.outcome("no-accept-header"),
            other => report.violation("C11|response|no-accept-header".to_string(), format!("without an Accept header registry {:?} chose {:?}", reg, other), json!({"accept": [], "registry": reg.iter().map(|e| e.content_type()).collect::<Vec<_>>()})),
        }
    }
    // every list of <= n items x every registry
    let red = reduced_items();
    let mut spaces: Vec<(&Vec<Item>, usize)> = (0..=n).map(|len| (&its, len)).collect();
    spaces.push((&red, n + 1));
    for (its, len) in spaces {
        let count = (its.len() as u64).pow(len as u32);
        let part = (0..count)
            .into_par_iter()
            .fold(
                || (Report::new("C11", "model_checking"), regs.iter().map(|r| runtime(r)).collect::<Vec<_>>()),
                |(mut r, rts), idx| {
                    let mut w = vec![];
                    vcommon::enumerate::nth_word(its.len(), len, idx, &mut w);
                    let list: Vec<Item> = w.iter().map(|i| its[*i]).collect();
                    for (reg, rt) in regs.iter().zip(&rts) {
                        check_list(&list, reg, rt, &mut r);
                    }
                    if len == 2 && idx == 1234 {
                        r.sample("accept-list", json!({"accept": list.iter().map(|i| i.text()).collect::<Vec<_>>().join(", ")}));
                    }
                    (r, rts)
                },
            )
            .map(|(r, _)| r)
            .reduce(|| Report::new("C11", "model_checking"), |mut a, b| {
                a.merge(b);
                a
            });
        report.merge(part);
    }
    // long lists
    {
        let lists = long_lists(args.tier.is_thorough());
        report.bound("long_lists", lists.len());
        let part = lists
            .par_iter()
            .fold(
                || Report::new("C11", "model_checking"),
                |mut r, list| {
                    for reg in &regs {
                        let rt = runtime(reg);
                        check_list(list, reg, &rt, &mut r);
                    }
                    r
                },
            )
            .reduce(|| Report::new("C11", "model_checking"), |mut a, b| {
                a.merge(b);
                a
            });
        report.merge(part);
    }
    // every q-value of the grammar (0 .. 1 in thousandths, in its 1-, 2- and 3-decimal spellings):
    // two concrete ranges whose qualities are adjacent, in both listing orders
    {
        let spell = |t: u32| -> Vec<String> {
            let mut v = vec![format!("{}.{:03}", t / 1000, t % 1000)];
            if t % 10 == 0 {
                v.push(format!("{}.{:02}", t / 1000, (t % 1000) / 10));
            }
            if t % 100 == 0 {
                v.push(format!("{}.{}", t / 1000, (t % 1000) / 100));
            }
            if t % 1000 == 0 {
                v.push(format!("{}", t / 1000));
            }
            v
        };
        let leak = |s: String| -> &'static str { Box::leak(s.into_boxed_str()) };
        let reg = vec![Enc::Json, Enc::Smile];
        let rt = runtime(&reg);
        let reg2 = vec![Enc::Smile, Enc::Json];
        let rt2 = runtime(&reg2);
        for t in 0..=1000u32 {
            for a in spell(t) {
                let qa = Q::Val(leak(a), t);
                for d in [0u32, 1] {
                    if t + d > 1000 {
                        continue;
                    }
                    for b in spell(t + d).into_iter().take(1) {
                        let qb = Q::Val(leak(b), t + d);
                        let json = Item { range: Some(("application", "json")), extra_params: 0, q: qa };
                        let smile = Item { range: Some(("application", "x-jackson-smile")), extra_params: 0, q: qb };
                        check_list(&[json, smile], &reg, &rt, &mut report);
                        check_list(&[smile, json], &reg2, &rt2, &mut report);
                        let json2 = Item { range: Some(("application", "json")), extra_params: 0, q: qb };
                        let smile2 = Item { range: Some(("application", "x-jackson-smile")), extra_params: 0, q: qa };
                        check_list(&[json2, smile2], &reg, &rt, &mut report);
                    }
                }
            }
        }
    }
    request_side(&mut report);
    report.sample("registry", json!(regs.iter().map(|r| r.iter().map(|e| e.content_type()).collect::<Vec<_>>()).collect::<Vec<_>>()));
    report.bound("max_accept_items", n);
    report.bound("max_accept_items_reduced_alphabet", n + 1);
    report.bound("reduced_item_alphabet", json!(red.iter().map(|i| i.text()).collect::<Vec<_>>()));
    report.bound("item_alphabet", json!(its.iter().map(|i| i.text()).collect::<Vec<_>>()));
    report.bound("registries", regs.len());
    report.rule = "states = (Accept header rendering, ordered registry) pairs — every list of <= n items over the 81-item alphabet and every list of n+1 items over an 18-item reduced alphabet, as one header line and split over two lines at every position, x all 15 ordered registries of {json, smile, text/plain} — plus every (Content-Type, registry) pair of the request side; non-trivial = states where the statement determines a single outcome".into();
    report.assumptions.push("where the statement is silent the model accepts either reading: an Accept header none of whose items is a media range; a malformed q (default quality or range dropped); several equally specific matching ranges with different q".into());
    report
}
