//! E3a — direct drivers of conjure-http's runtime (no generated code): C11, C07, C06, C18.
mod c06;
mod c07;
mod c11;
mod c15h;
mod c18;
mod plainwire;
mod script;

use vcommon::{Args, Report};

fn main() {
    let args = Args::parse();
    vcommon::quiet_panics();
    let report: Report = match args.property.as_str() {
        "C06" => c06::run(&args),
        "C07" => c07::run(&args),
        "C12" => plainwire::run_c12(&args),
        "C15" => c15h::run(&args),
        "C16" => plainwire::run_c16(&args),
        "C11" => c11::run(&args),
        "C18" => c18::run(&args),
        other => panic!("httpdirect: unknown property {}", other),
    };
    report.write(&args.out);
}
