//! E3a — direct drivers of conjure-http's runtime (no generated code): C11, C07, C06, C18.
mod c07;
mod c11;

use vcommon::{Args, Report};

fn main() {
    let args = Args::parse();
    vcommon::quiet_panics();
    let report: Report = match args.property.as_str() {
        "C07" => c07::run(&args),
        "C11" => c11::run(&args),
        other => panic!("httpdirect: unknown property {}", other),
    };
    report.write(&args.out);
}
