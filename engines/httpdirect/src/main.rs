//! E3a — direct drivers of conjure-http's runtime (no generated code): C11, C07, C06, C18.
mod c11;

use vcommon::{Args, Report};

fn main() {
    let args = Args::parse();
    vcommon::quiet_panics();
    let report: Report = match args.property.as_str() {
        "C11" => c11::run(&args),
        other => panic!("httpdirect: unknown property {}", other),
    };
    report.write(&args.out);
}
