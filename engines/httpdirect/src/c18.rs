//! C18 (direct part) — clients return a value only from a complete, correctly typed
//! response. Drives the `decode_*` functions generated clients call and the
//! `ConjureResponseDeserializer` macro clients use, blocking and async, over scripted
//! response streams.

use crate::c06::{catalogue, uniform, Obj};
use crate::script::{self, Ev, Script, ScriptIter, ScriptStream};
use conjure_error::Error;
use conjure_http::client::{AsyncDeserializeResponse, ConjureResponseDeserializer, DeserializeResponse};
use conjure_http::private as p;
use conjure_object::Any;
use futures::executor::block_on;
use http::header::CONTENT_TYPE;
use http::{HeaderValue, Response, StatusCode};
use rayon::prelude::*;
use serde::de::DeserializeOwned;
use serde_json::json;
use std::collections::{BTreeMap, BTreeSet};
use std::fmt::Debug;
use vcommon::{Args, Report};

#[derive(Clone, Copy, PartialEq, Debug)]
enum Ct {
    Absent,
    Json,
    JsonCharset,
    JsonUpper,
    OctetStream,
    Smile,
    TextPlain,
    Garbage,
    JsonSuffix,
    /// two Content-Type headers, the first one right
    JsonThenText,
    /// two Content-Type headers, the first one wrong
    TextThenJson,
}

const ALL_CT: [Ct; 11] = [Ct::Absent, Ct::Json, Ct::JsonCharset, Ct::JsonUpper, Ct::OctetStream, Ct::Smile, Ct::TextPlain, Ct::Garbage, Ct::JsonSuffix, Ct::JsonThenText, Ct::TextThenJson];

#[derive(Clone, Copy, PartialEq, Debug)]
enum CtClass {
    /// exactly the requested media type
    Exact,
    /// the requested type in another spelling (parameters, case) or ambiguous duplicates:
    /// the statement does not say; a value may be returned only if it is the right one
    Unclear,
    Other,
}

impl Ct {
    fn apply<B>(self, r: &mut Response<B>) {
        let h = r.headers_mut();
        match self {
            Ct::Absent => {}
            Ct::Json => {
                h.insert(CONTENT_TYPE, HeaderValue::from_static("application/json"));
            }
            Ct::JsonCharset => {
                h.insert(CONTENT_TYPE, HeaderValue::from_static("application/json; charset=utf-8"));
            }
            Ct::JsonUpper => {
                h.insert(CONTENT_TYPE, HeaderValue::from_static("Application/JSON"));
            }
            Ct::OctetStream => {
                h.insert(CONTENT_TYPE, HeaderValue::from_static("application/octet-stream"));
            }
            Ct::Smile => {
                h.insert(CONTENT_TYPE, HeaderValue::from_static("application/x-jackson-smile"));
            }
            Ct::TextPlain => {
                h.insert(CONTENT_TYPE, HeaderValue::from_static("text/plain"));
            }
            Ct::Garbage => {
                h.insert(CONTENT_TYPE, HeaderValue::from_static("garbage"));
            }
            Ct::JsonSuffix => {
                h.insert(CONTENT_TYPE, HeaderValue::from_static("application/json+xml"));
            }
            Ct::JsonThenText => {
                h.append(CONTENT_TYPE, HeaderValue::from_static("application/json"));
                h.append(CONTENT_TYPE, HeaderValue::from_static("text/plain"));
            }
            Ct::TextThenJson => {
                h.append(CONTENT_TYPE, HeaderValue::from_static("text/plain"));
                h.append(CONTENT_TYPE, HeaderValue::from_static("application/json"));
            }
        }
    }
    fn class(self, want_json: bool) -> CtClass {
        match (self, want_json) {
            (Ct::Json, true) | (Ct::OctetStream, false) => CtClass::Exact,
            (Ct::JsonCharset, true) | (Ct::JsonUpper, true) | (Ct::JsonThenText, true) | (Ct::TextThenJson, true) => CtClass::Unclear,
            _ => CtClass::Other,
        }
    }
}

thread_local! {
    /// a Content-Length the response claims (truthful or not): only a claim, the verdict must
    /// not depend on it
    static CLAIM: std::cell::RefCell<Option<String>> = std::cell::RefCell::new(None);
}

fn claim() -> Option<String> {
    CLAIM.with(|c| c.borrow().clone())
}

fn response<B>(status: u16, ct: Ct, body: B) -> Response<B> {
    let mut r = Response::new(body);
    *r.status_mut() = StatusCode::from_u16(status).unwrap();
    ct.apply(&mut r);
    if let Some(c) = claim() {
        r.headers_mut().insert(http::header::CONTENT_LENGTH, HeaderValue::from_str(&c).unwrap());
    }
    r
}

/// what the statement allows
enum Expect<T> {
    /// must be Ok with exactly one of these values
    Value(Vec<T>),
    /// may be Ok only with this value, or an error
    ValueOrError(T),
    Error,
}

fn reference<T: DeserializeOwned + Clone + 'static>(s: &Script) -> Option<T> {
    if script::has_err(s) {
        return None;
    }
    let body = script::delivered(s);
    // independent of the client deserializer: exactly one JSON document (plain serde_json as
    // the judge), and for the scalar / collection classes the JSON kinds the type admits
    let mut it = serde_json::Deserializer::from_slice(&body).into_iter::<serde_json::Value>();
    let tree = match (it.next(), it.next()) {
        (Some(Ok(v)), None) => v,
        _ => return None,
    };
    if kind_ok::<T>(&tree) == Some(false) {
        return None;
    }
    // classes whose value is computed here, without the subject's deserializer
    if let Some(v) = independent_value::<T>(&tree) {
        return v;
    }
    conjure_serde::json::client_from_slice(&body).ok()
}

/// strict padded standard Base64
fn b64(s: &str) -> Option<Vec<u8>> {
    const A: &[u8] = b"ABCDEFGHIJKLMNOPQRSTUVWXYZabcdefghijklmnopqrstuvwxyz0123456789+/";
    let b = s.as_bytes();
    if b.len() % 4 != 0 {
        return None;
    }
    let mut out = vec![];
    for (ci, q) in b.chunks(4).enumerate() {
        let last = ci + 1 == b.len() / 4;
        let pad = q.iter().rev().take_while(|c| **c == b'=').count();
        if pad > 2 || (pad > 0 && !last) {
            return None;
        }
        let mut v = 0u32;
        for c in &q[..4 - pad] {
            v = (v << 6) | A.iter().position(|a| a == c)? as u32;
        }
        v <<= 6 * pad as u32;
        let bytes = [(v >> 16) as u8, (v >> 8) as u8, v as u8];
        // canonical: the unused bits of the last group are zero
        if pad == 1 && bytes[2] != 0 || pad == 2 && (bytes[1] != 0 || bytes[2] != 0) {
            return None;
        }
        out.extend_from_slice(&bytes[..3 - pad]);
    }
    Some(out)
}

/// Some(Some(v)) = the document is v; Some(None) = not a document of the class; None = no rule here
fn independent_value<T: 'static + Clone>(v: &serde_json::Value) -> Option<Option<T>> {
    use std::any::Any as StdAny;
    fn cast<A: 'static + Clone, T: 'static + Clone>(a: Option<A>) -> Option<Option<T>> {
        Some(a.and_then(|x| (&x as &dyn StdAny).downcast_ref::<T>().cloned()))
    }
    let double = |x: &serde_json::Value| -> Option<f64> {
        match x {
            serde_json::Value::Number(n) => n.as_f64(),
            serde_json::Value::String(s) if s == "NaN" => Some(f64::NAN),
            serde_json::Value::String(s) if s == "Infinity" => Some(f64::INFINITY),
            serde_json::Value::String(s) if s == "-Infinity" => Some(f64::NEG_INFINITY),
            _ => None,
        }
    };
    let name = std::any::type_name::<T>();
    if name == std::any::type_name::<Option<f64>>() {
        return cast::<Option<f64>, T>(if v.is_null() { Some(None) } else { double(v).map(Some) });
    }
    if name == std::any::type_name::<Option<Vec<conjure_object::Bytes>>>() {
        let val: Option<Option<Vec<conjure_object::Bytes>>> = if v.is_null() {
            Some(None)
        } else {
            v.as_array().and_then(|a| a.iter().map(|x| x.as_str().and_then(b64).map(conjure_object::Bytes::from)).collect::<Option<Vec<_>>>()).map(Some)
        };
        return cast::<Option<Vec<conjure_object::Bytes>>, T>(val);
    }
    if name == std::any::type_name::<Option<BTreeMap<String, conjure_object::Bytes>>>() {
        let val: Option<Option<BTreeMap<String, conjure_object::Bytes>>> = if v.is_null() {
            Some(None)
        } else {
            v.as_object().and_then(|o| o.iter().map(|(k, x)| x.as_str().and_then(b64).map(|b| (k.clone(), conjure_object::Bytes::from(b)))).collect::<Option<BTreeMap<_, _>>>()).map(Some)
        };
        return cast::<Option<BTreeMap<String, conjure_object::Bytes>>, T>(val);
    }
    None
}

/// Some(verdict) for the classes with a simple independent typing rule, None otherwise
fn kind_ok<T>(v: &serde_json::Value) -> Option<bool> {
    use serde_json::Value as J;
    let int32 = |x: &J| x.as_i64().map(|n| x.is_i64() && n >= i32::MIN as i64 && n <= i32::MAX as i64).unwrap_or(false) || x.as_u64().map(|n| n <= i32::MAX as u64).unwrap_or(false);
    let name = std::any::type_name::<T>();
    Some(match name {
        "i32" => int32(v),
        "alloc::string::String" => v.is_string(),
        "f64" => v.is_number() || matches!(v.as_str(), Some("NaN") | Some("Infinity") | Some("-Infinity")),
        "core::option::Option<alloc::string::String>" => v.is_null() || v.is_string(),
        "alloc::vec::Vec<i32>" => v.as_array().map(|a| a.iter().all(int32)).unwrap_or(false),
        n if n.contains("BTreeSet<alloc::string::String>") => v.as_array().map(|a| a.iter().all(|x| x.is_string())).unwrap_or(false),
        n if n.contains("BTreeMap<alloc::string::String, i32>") => v.as_object().map(|o| o.values().all(int32)).unwrap_or(false),
        _ => return None,
    })
}

/// long bodies with multi-byte characters around byte 256 (error paths that quote a prefix of
/// the body): a well-formed string document and the same document cut short
fn long_bodies() -> Vec<Vec<u8>> {
    let mut out = vec![];
    for lead in 250..=258usize {
        for ch in ["\u{e9}", "\u{20ac}", "\u{10000}"] {
            let doc = format!("\"{}{}{}\"", "a".repeat(lead), ch, "b".repeat(12));
            out.push(doc.as_bytes().to_vec());
            out.push(doc.as_bytes()[..doc.len() - 1].to_vec());
            out.push(format!("[{}, 1]", doc).into_bytes());
        }
    }
    out
}

/// well-formed single documents of a neighbouring JSON kind (must be refused for the class)
fn near_misses<T>() -> Vec<&'static str> {
    match std::any::type_name::<T>() {
        "i32" => vec!["1.5", "\"1\"", "2147483648", "-2147483649", "true", "null", "[1]", "1e2"],
        "alloc::string::String" => vec!["1", "null", "[\"a\"]", "true"],
        "f64" => vec!["\"1.5\"", "\"42\"", "\"1e3\"", "\"nan\"", "\"inf\"", "\"infinity\"", "\"-inf\"", "\" NaN\"", "true", "null", "[1.5]"],
        "core::option::Option<alloc::string::String>" => vec!["1", "[\"x\"]", "false"],
        // (`null` is not a collection: only a 204 stands for the empty one)
        "alloc::vec::Vec<i32>" => vec!["[\"1\"]", "[1.5]", "[null]", "{}", "1", "[[1]]", "[2147483648]", "null", " null ", "\"\"", "false", "0"],
        n if n.contains("BTreeSet<alloc::string::String>") => vec!["[1]", "[null]", "{}", "\"a\"", "null", "\"\"", "false"],
        n if n == std::any::type_name::<Option<f64>>() => vec!["\"inf\"", "\"1.5\"", "true", "[1.5]", "\"nan\""],
        n if n == std::any::type_name::<Option<Vec<conjure_object::Bytes>>>() => vec!["[\"not base64!\"]", "[[104,105]]", "[\"aGk\"]", "[\"aGl=\"]", "\"aGk=\"", "[null]", "[1]"],
        n if n == std::any::type_name::<Option<BTreeMap<String, conjure_object::Bytes>>>() => vec!["{\"k\":\"not base64!\"}", "{\"k\":[104]}", "[]", "{\"k\":null}"],
        n if n.contains("BTreeMap<alloc::string::String, i32>") => vec!["{\"a\":\"1\"}", "{\"a\":1.5}", "[]", "{\"a\":null}", "null", "\"\"", "false", "0"],
        _ => vec![],
    }
}

fn expect_json<T: DeserializeOwned + Clone + 'static>(status: u16, ct: Ct, s: &Script, empty: Option<T>) -> Expect<T> {
    let doc = reference::<T>(s);
    let mut allowed = vec![];
    if status == 204 {
        if let Some(e) = &empty {
            allowed.push(e.clone());
        }
    }
    match (ct.class(true), doc) {
        (CtClass::Exact, Some(v)) => allowed.push(v),
        (CtClass::Unclear, Some(v)) => {
            if allowed.is_empty() {
                return Expect::ValueOrError(v);
            }
            allowed.push(v);
        }
        _ => {}
    }
    if allowed.is_empty() {
        Expect::Error
    } else {
        Expect::Value(allowed)
    }
}

struct Case<'a> {
    class: &'static str,
    func: &'static str,
    status: u16,
    ct: Ct,
    script: &'a Script,
}

fn same<T: PartialEq + Debug>(a: &T, b: &T) -> bool {
    a == b || format!("{:?}", a) == format!("{:?}", b)
}

fn judge<T: PartialEq + Debug>(r: &mut Report, case: &Case, flavour: &str, want: &Expect<T>, got: Result<Result<T, Error>, String>) -> Option<bool> {
    r.evaluations += 1;
    r.transitions += 1;
    let cj = json!({"class": case.class, "function": case.func, "status": case.status, "content_type": format!("{:?}", case.ct), "flavour": flavour, "content_length": claim(),
        "script": case.script.iter().map(|e| match e { Ev::Chunk(b) => json!({"chunk": b}), Ev::Empty => json!("empty"), Ev::Pending => json!("pending"), Ev::Err => json!("err") }).collect::<Vec<_>>()});
    let chunks = case.script.iter().filter(|e| matches!(e, Ev::Chunk(_))).count();
    let input = format!("status={},ct={:?},{}{}", case.status, case.ct, if script::has_err(case.script) { "stream-error," } else { "" }, if chunks >= 3 { "chunks=3+".to_string() } else { format!("chunks={}", chunks) });
    let sig = |k: &str| format!("C18|{}|{}|{}|{}", case.func, flavour, k, input);
    let desc = format!("{} [{}] on status {} Content-Type {:?} body {}", case.func, case.class, case.status, case.ct, script::text(case.script));
    // whatever an un-fused body yields after its end is not part of the response
    if script::take_after_end() > 0 && got.is_ok() {
        r.violation(sig("body-advanced-after-its-end"), format!("{}: the body was asked for more after it had reported its end", desc), cj);
        return None;
    }
    match (want, got) {
        (_, Err(p)) => {
            r.violation(sig("panic"), format!("{} panicked: {}", desc, p), cj);
            None
        }
        (Expect::Value(vs), Ok(Ok(g))) => {
            if vs.iter().any(|v| same(v, &g)) {
                r.outcome("value-returned");
            } else {
                r.violation(sig("wrong-value"), format!("{} returned {:?}, expected one of {:?}", desc, g, vs), cj);
            }
            Some(true)
        }
        (Expect::Value(vs), Ok(Err(e))) => {
            r.violation(sig("valid-response-rejected"), format!("{} failed with {:?}, expected {:?}", desc, e.cause().to_string(), vs), cj);
            Some(false)
        }
        (Expect::ValueOrError(v), Ok(Ok(g))) => {
            if same(v, &g) {
                r.outcome("unclear-content-type:value-returned");
            } else {
                r.violation(sig("wrong-value"), format!("{} returned {:?}, the body is {:?}", desc, g, v), cj);
            }
            Some(true)
        }
        (Expect::ValueOrError(_), Ok(Err(_))) => {
            r.outcome("unclear-content-type:error");
            Some(false)
        }
        (Expect::Error, Ok(Ok(g))) => {
            r.violation(sig("value-from-bad-response"), format!("{} returned {:?}; the response is not a complete, correctly typed document", desc, g), cj);
            Some(true)
        }
        (Expect::Error, Ok(Err(_))) => {
            r.outcome("error-returned");
            Some(false)
        }
    }
}

fn agree(r: &mut Report, case: &Case, a: Option<bool>, b: Option<bool>) {
    if let (Some(x), Some(y)) = (a, b) {
        if x != y {
            r.violation(
                format!("C18|{}|blocking-async-disagree|status={},ct={:?}", case.func, case.status, case.ct),
                format!("{} [{}]: blocking returned {} but async returned {} on {}", case.func, case.class, if x { "a value" } else { "an error" }, if y { "a value" } else { "an error" }, script::text(case.script)),
                json!({"class": case.class, "function": case.func, "status": case.status, "content_type": format!("{:?}", case.ct), "flavour": "both", "content_length": claim(),
                    "script": case.script.iter().map(|e| match e { Ev::Chunk(b) => json!({"chunk": b}), Ev::Empty => json!("empty"), Ev::Pending => json!("pending"), Ev::Err => json!("err") }).collect::<Vec<_>>()}),
            );
        }
    }
}

fn run_value<T>(r: &mut Report, class: &'static str, status: u16, ct: Ct, s: &Script)
where
    T: DeserializeOwned + PartialEq + Debug + Clone + Send + 'static,
{
    let want = expect_json::<T>(status, ct, s, None);
    for func in ["decode_serializable_response", "ConjureResponseDeserializer"] {
        let case = Case { class, func, status, ct, script: s };
        let mut a = None;
        if !s.contains(&Ev::Pending) {
            let got = vcommon::catch(|| {
                let resp = response(status, ct, ScriptIter::new(s));
                if func == "decode_serializable_response" {
                    p::decode_serializable_response::<T, _>(resp)
                } else {
                    <ConjureResponseDeserializer as DeserializeResponse<T, _>>::deserialize(resp)
                }
            });
            a = judge(r, &case, "blocking", &want, got);
        }
        let got = vcommon::catch(|| {
            let resp = response(status, ct, ScriptStream::new(s));
            if func == "decode_serializable_response" {
                block_on(p::async_decode_serializable_response::<T, _>(resp))
            } else {
                block_on(<ConjureResponseDeserializer as AsyncDeserializeResponse<T, _>>::deserialize(resp))
            }
        });
        let b = judge(r, &case, "async", &want, got);
        if a.is_some() {
            agree(r, &case, a, b);
        }
    }
}

fn run_default<T>(r: &mut Report, class: &'static str, status: u16, ct: Ct, s: &Script)
where
    T: DeserializeOwned + PartialEq + Debug + Clone + Default + Send + 'static,
{
    let want = expect_json::<T>(status, ct, s, Some(T::default()));
    let case = Case { class, func: "decode_default_serializable_response", status, ct, script: s };
    let mut a = None;
    if !s.contains(&Ev::Pending) {
        let got = vcommon::catch(|| p::decode_default_serializable_response::<T, _>(response(status, ct, ScriptIter::new(s))));
        a = judge(r, &case, "blocking", &want, got);
    }
    let got = vcommon::catch(|| block_on(p::async_decode_default_serializable_response::<T, _>(response(status, ct, ScriptStream::new(s)))));
    let b = judge(r, &case, "async", &want, got);
    if a.is_some() {
        agree(r, &case, a, b);
    }
}

/// no return value: any well-formed JSON body is tolerated (and 204)
fn run_unit(r: &mut Report, status: u16, ct: Ct, s: &Script) {
    let want: Expect<()> = match expect_json::<serde::de::IgnoredAny>(status, ct, s, Some(serde::de::IgnoredAny)) {
        Expect::Value(_) => Expect::Value(vec![()]),
        Expect::ValueOrError(_) => Expect::ValueOrError(()),
        Expect::Error => Expect::Error,
    };
    let case = Case { class: "unit", func: "decode_empty_response", status, ct, script: s };
    let mut a = None;
    if !s.contains(&Ev::Pending) {
        let got = vcommon::catch(|| p::decode_empty_response(response(status, ct, ScriptIter::new(s))));
        a = judge(r, &case, "blocking", &want, got);
    }
    let got = vcommon::catch(|| block_on(p::async_decode_empty_response(response(status, ct, ScriptStream::new(s)))));
    let b = judge(r, &case, "async", &want, got);
    if a.is_some() {
        agree(r, &case, a, b);
    }
}

/// binary returns hand the stream over unchanged; accepted iff the Content-Type is
/// application/octet-stream (or, optional binary, 204 -> None)
fn run_binary(r: &mut Report, status: u16, ct: Ct, s: &Script) {
    let events: Vec<Ev> = ScriptIter::new(s).0.into_iter().collect();
    let ok = ct.class(false) == CtClass::Exact;
    let case = Case { class: "binary", func: "decode_binary_response", status, ct, script: s };
    let want: Expect<Vec<Ev>> = if ok { Expect::Value(vec![events.clone()]) } else { Expect::Error };
    let got = vcommon::catch(|| p::decode_binary_response(response(status, ct, ScriptIter::new(s))).map(|it| it.0.into_iter().collect::<Vec<_>>()));
    judge(r, &case, "blocking", &want, got);
    let case = Case { class: "optional<binary>", func: "decode_optional_binary_response", status, ct, script: s };
    let mut allowed: Vec<Option<Vec<Ev>>> = vec![];
    if status == 204 {
        allowed.push(None);
    }
    if ok {
        allowed.push(Some(events));
    }
    let want = if allowed.is_empty() { Expect::Error } else { Expect::Value(allowed) };
    let got = vcommon::catch(|| p::decode_optional_binary_response(response(status, ct, ScriptIter::new(s))).map(|o| o.map(|it| it.0.into_iter().collect::<Vec<_>>())));
    judge(r, &case, "blocking", &want, got);
}

macro_rules! for_classes {
    ($value:ident, $default:ident, $($args:expr),*) => {
        $value::<i32>("value:integer", &["42", "-1"], $($args),*);
        $value::<String>("value:string", &["\"\"", "\"a b\""], $($args),*);
        $value::<f64>("value:double", &["1.5", "\"NaN\""], $($args),*);
        $value::<Obj>("value:object", &["{\"a\":1}", "{\"a\":1,\"b\":\"x\",\"unknown\":[1,{\"c\":null}]}"], $($args),*);
        $value::<Any>("value:any", &["null", "[1,{\"a\":\"b\"}]"], $($args),*);
        $default::<Option<String>>("optional<string>", &["null", "\"x\""], $($args),*);
        $default::<Vec<i32>>("list<integer>", &["[]", "[1,2]"], $($args),*);
        $default::<BTreeSet<String>>("set<string>", &["[]", "[\"a\",\"b\"]"], $($args),*);
        $default::<BTreeMap<String, i32>>("map<string,integer>", &["{}", "{\"a\":1}"], $($args),*);
        $default::<Option<Obj>>("optional<object>", &["null", "{\"a\":1,\"extra\":true}"], $($args),*);
        // optionals at the document root over types with a Conjure spelling of their own
        $default::<Option<f64>>("optional<double>", &["null", "1.5", "\"Infinity\"", "\"NaN\""], $($args),*);
        $default::<Option<Vec<conjure_object::Bytes>>>("optional<list<binary>>", &["null", "[\"aGk=\"]", "[\"\",\"+/+/\"]"], $($args),*);
        $default::<Option<BTreeMap<String, conjure_object::Bytes>>>("optional<map<string,binary>>", &["null", "{\"k\":\"aGk=\"}"], $($args),*);
    };
}

fn sweep_value<T>(class: &'static str, valid: &[&str], r: &mut Report, k: usize, thorough: bool)
where
    T: DeserializeOwned + PartialEq + Debug + Clone + Send + 'static,
{
    sweep(class, valid, r, k, thorough, &|r, status, ct, s| run_value::<T>(r, class, status, ct, s));
    for body in near_misses::<T>() {
        r.states += 1;
        for s in [script::default_script(body.as_bytes()), uniform(body.as_bytes(), 1)] {
            run_value::<T>(r, class, 200, Ct::Json, &s);
        }
    }
    for (i, body) in long_bodies().into_iter().enumerate() {
        r.states += 1;
        run_value::<T>(r, class, 200, Ct::Json, &script::default_script(&body));
        // the error paths of a wrong / missing Content-Type see the same bodies (also raw
        // bytes that are not UTF-8 around the same offset)
        if i % 3 == 0 {
            let mut raw = body.clone();
            raw[255] = 0xff;
            for ct in ALL_CT {
                for b in [&body, &raw] {
                    r.states += 1;
                    run_value::<T>(r, class, 200, ct, &script::default_script(b));
                    run_value::<T>(r, class, 200, ct, &uniform(b, 100));
                }
            }
        }
    }
}

fn sweep_default<T>(class: &'static str, valid: &[&str], r: &mut Report, k: usize, thorough: bool)
where
    T: DeserializeOwned + PartialEq + Debug + Clone + Default + Send + 'static,
{
    sweep(class, valid, r, k, thorough, &|r, status, ct, s| run_default::<T>(r, class, status, ct, s));
    for body in near_misses::<T>() {
        r.states += 1;
        for s in [script::default_script(body.as_bytes()), uniform(body.as_bytes(), 1)] {
            run_default::<T>(r, class, 200, Ct::Json, &s);
        }
    }
    for (i, body) in long_bodies().into_iter().enumerate() {
        r.states += 1;
        run_default::<T>(r, class, 200, Ct::Json, &script::default_script(&body));
        if i % 3 == 0 {
            let mut raw = body.clone();
            raw[255] = 0xff;
            for ct in ALL_CT {
                for b in [&body, &raw] {
                    r.states += 1;
                    run_default::<T>(r, class, 200, ct, &script::default_script(b));
                }
            }
        }
    }
}

fn sweep(_class: &'static str, valid: &[&str], r: &mut Report, k: usize, thorough: bool, run: &dyn Fn(&mut Report, u16, Ct, &Script)) {
    // (1) every catalogue body x {200, 204} x exact Content-Type, default script + uniform chunks
    for body in catalogue(valid) {
        r.states += 1;
        let mut scripts = vec![script::default_script(&body), uniform(&body, 1)];
        if thorough {
            scripts.push(uniform(&body, 2));
        }
        for s in scripts {
            for status in [200u16, 204] {
                run(r, status, Ct::Json, &s);
            }
        }
    }
    // (2) every status x Content-Type on valid and broken bodies
    let mut bodies: Vec<Vec<u8>> = valid.iter().map(|v| v.as_bytes().to_vec()).collect();
    bodies.push(format!("{} x", valid[0]).into_bytes());
    bodies.push(vec![]);
    for body in &bodies {
        for status in [200u16, 201, 204] {
            for ct in ALL_CT {
                r.states += 1;
                run(r, status, ct, &script::default_script(body));
            }
        }
    }
    // (3) every stream history within the deviation bound
    for body in &bodies {
        for (s, _) in script::explore(body, k, true, body.len() <= 8) {
            r.states += 1;
            run(r, 200, Ct::Json, &s);
            if script::has_err(&s) || s.len() > 2 {
                run(r, 204, Ct::Json, &s);
                run(r, 200, Ct::JsonCharset, &s);
            }
        }
    }
}

pub fn run(args: &Args) -> Report {
    let mut report = Report::new("C18", "fault_enumeration");
    let thorough = args.tier.is_thorough();
    let k = args.tier.pick(2usize, 5usize);
    if let Some(path) = &args.replay {
        return replay(path, report);
    }
    let jobs: Vec<Box<dyn Fn(&mut Report) + Sync + Send>> = vec![
        Box::new(move |r| {
            for_classes!(sweep_value, sweep_default, r, k, thorough);
        }),
        Box::new(move |r| {
            // unit and binary classes
            let bodies: Vec<Vec<u8>> = catalogue(&["null", "{\"a\":[1,2]}", "\"x\""]);
            for body in &bodies {
                for status in [200u16, 201, 204] {
                    for ct in ALL_CT {
                        r.states += 1;
                        let s = script::default_script(body);
                        run_unit(r, status, ct, &s);
                        run_binary(r, status, ct, &s);
                    }
                }
            }
            for body in [&b"{\"a\":1}"[..], b"1 2", b"", b"nul"] {
                for (s, _) in script::explore(body, k, true, true) {
                    for status in [200u16, 204] {
                        r.states += 1;
                        run_unit(r, status, Ct::Json, &s);
                        run_binary(r, status, Ct::OctetStream, &s);
                        run_binary(r, status, Ct::Json, &s);
                    }
                }
            }
            for body in long_bodies().into_iter().step_by(3) {
                for ct in ALL_CT {
                    r.states += 1;
                    run_unit(r, 200, ct, &script::default_script(&body));
                    run_binary(r, 200, ct, &script::default_script(&body));
                }
            }
        }),
    ];
    // the same sweeps (one deviation) under Content-Length claims: zero, small, beyond 32 bits,
    // the largest u64, junk
    let mut jobs = jobs;
    for cl in ["0", "3", "4294967296", "18446744073709551615", "1x"] {
        jobs.push(Box::new(move |r| {
            CLAIM.with(|x| *x.borrow_mut() = Some(cl.to_string()));
            for_classes!(sweep_value, sweep_default, r, 1, false);
            for body in [&b"{\"a\":1}"[..], b"1 2", b"", b"nul"] {
                for (s, _) in script::explore(body, 1, true, true) {
                    for status in [200u16, 204] {
                        r.states += 1;
                        run_unit(r, status, Ct::Json, &s);
                        run_binary(r, status, Ct::OctetStream, &s);
                    }
                }
            }
            CLAIM.with(|x| *x.borrow_mut() = None);
        }));
    }
    let parts: Vec<Report> = jobs
        .par_iter()
        .map(|job| {
            let mut r = Report::new("C18", "fault_enumeration");
            job(&mut r);
            r
        })
        .collect();
    for p in parts {
        report.merge(p);
    }
    report.sample("history", json!({"class": "list<integer>", "status": 200, "content_type": "Json", "script": "chunk(\"[1,2\") chunk(\",3]\") ERR", "expect": "error"}));
    report.sample("204", json!({"class": "optional<string>", "status": 204, "content_type": "Absent", "script": "", "expect": "None"}));
    report.sample("unit", json!({"class": "unit", "status": 200, "content_type": "Json", "script": "chunk(\"{\\\"a\\\":[1,2]}\")", "expect": "()"}));
    report.bound("deviations", k);
    report.bound("statuses", json!([200, 201, 204]));
    report.bound("content_length_claims", json!(["absent", "0", "3", "4294967296", "18446744073709551615", "1x"]));
    report.bound("content_types", json!(ALL_CT.iter().map(|c| format!("{:?}", c)).collect::<Vec<_>>()));
    report.nontrivial = report.states;
    report.rule = "states = (return class, status, Content-Type, body, script): per class its valid documents, every truncation, 16 trailers, doubled documents; statuses 200/201/204; 11 Content-Type situations; every stream history within the deviation bound plus uniform chunkings; each through decode_*_response and ConjureResponseDeserializer, blocking and async, whose verdicts must agree".into();
    report.assumptions.push("a Content-Type that is the requested type in another spelling (charset parameter, upper case) or one of two conflicting headers is 'unclear': an error or the correct value are both accepted, a wrong value is not".into());
    report.assumptions.push("UnitResponseDeserializer (no Accept requested, no value carried) is outside the statement".into());
    report
}

fn replay(path: &str, mut report: Report) -> Report {
    let v = vcommon::load_replay(path);
    let c = &v["case"];
    let script: Script = c["script"]
        .as_array()
        .unwrap()
        .iter()
        .map(|e| match e {
            serde_json::Value::String(s) if s == "empty" => Ev::Empty,
            serde_json::Value::String(s) if s == "pending" => Ev::Pending,
            serde_json::Value::String(_) => Ev::Err,
            o => Ev::Chunk(o["chunk"].as_array().unwrap().iter().map(|b| b.as_u64().unwrap() as u8).collect()),
        })
        .collect();
    let ct = ALL_CT.iter().cloned().find(|x| format!("{:?}", x) == c["content_type"].as_str().unwrap()).unwrap();
    let status = c["status"].as_u64().unwrap() as u16;
    let class = c["class"].as_str().unwrap().to_string();
    report.exhaustive = false;
    if let Some(cl) = c["content_length"].as_str() {
        CLAIM.with(|x| *x.borrow_mut() = Some(cl.to_string()));
    }
    match class.as_str() {
        "unit" => run_unit(&mut report, status, ct, &script),
        "binary" | "optional<binary>" => run_binary(&mut report, status, ct, &script),
        _ => {
            fn v1<T: DeserializeOwned + PartialEq + Debug + Clone + Send + 'static>(name: &'static str, _v: &[&str], want: &str, r: &mut Report, status: u16, ct: Ct, s: &Script) {
                if name == want {
                    run_value::<T>(r, name, status, ct, s);
                }
            }
            fn d1<T: DeserializeOwned + PartialEq + Debug + Clone + Default + Send + 'static>(name: &'static str, _v: &[&str], want: &str, r: &mut Report, status: u16, ct: Ct, s: &Script) {
                if name == want {
                    run_default::<T>(r, name, status, ct, s);
                }
            }
            for_classes!(v1, d1, &class, &mut report, status, ct, &script);
        }
    }
    report
}
