//! C07 — parameter values cannot alter the request URI structure and decode back exactly.
//! Direct part: UriBuilder on the client side, path_param / parse_query_params /
//! query_param on the server side, judged by an independent RFC 3986 tokenizer/decoder.

use conjure_error::Error;
use conjure_http::client::{Client, DisplaySeqEncoder, Service as _};
use conjure_http::private::{parse_query_params, path_param, query_param, UriBuilder};
use conjure_http::{conjure_client, endpoint};
use std::sync::Mutex;
use conjure_http::server::conjure::{FromPlainDecoder, FromPlainOptionDecoder, FromPlainSeqDecoder};
use conjure_http::server::ConjureRuntime;
use conjure_http::PathParams;
use http::Request;
use rayon::prelude::*;
use serde_json::json;
use vcommon::{Args, Report};

#[derive(Clone, Debug)]
enum Seg {
    Lit(&'static str),
    Param,
}

#[derive(Clone, Debug)]
struct Template {
    name: &'static str,
    segs: Vec<Seg>,
    /// query keys in emission order; a repeated key = list parameter
    keys: Vec<&'static str>,
    /// None: UriBuilder driven the way generated clients drive it; Some: a
    /// `#[conjure_client]` method whose request URI is captured
    producer: Option<fn(&[String]) -> Result<http::Uri, String>>,
    /// Some: the query part is pushed through the optional / list / set helpers of
    /// UriBuilder (the way generated clients push collection-typed query arguments);
    /// `keys` then lists the pairs that must come out, in order
    pushes: Option<Vec<Push>>,
}

#[derive(Clone, Copy, Debug, PartialEq)]
enum Push {
    Single,
    OptNone,
    OptSome,
    List(usize),
    Set(usize),
}

impl Push {
    fn emitted(self) -> usize {
        match self {
            Push::Single | Push::OptSome => 1,
            Push::OptNone => 0,
            Push::List(n) | Push::Set(n) => n,
        }
    }
    fn text(self) -> String {
        match self {
            Push::Single => "single".into(),
            Push::OptNone => "optional:none".into(),
            Push::OptSome => "optional:some".into(),
            Push::List(n) => format!("list*{}", n),
            Push::Set(n) => format!("set*{}", n),
        }
    }
}

const PUSH_KINDS: [Push; 8] = [Push::Single, Push::OptNone, Push::OptSome, Push::List(0), Push::List(1), Push::List(2), Push::Set(0), Push::Set(2)];
const PUSH_KEYS: [&str; 3] = ["k0", "k1", "k2"];

/// `/lit/{p}` followed by every sequence of 1..=3 collection-aware query pushes
fn collection_templates() -> Vec<Template> {
    let mut out = vec![];
    for n in 1..=3usize {
        vcommon::enumerate::for_each_word(PUSH_KINDS.len(), n, |w| {
            if w.len() != n {
                return;
            }
            let pushes: Vec<Push> = w.iter().map(|i| PUSH_KINDS[*i]).collect();
            let mut keys = vec![];
            for (i, p) in pushes.iter().enumerate() {
                for _ in 0..p.emitted() {
                    keys.push(PUSH_KEYS[i]);
                }
            }
            let name = format!("/lit/{{p}}?{}", pushes.iter().enumerate().map(|(i, p)| format!("{}:{}", PUSH_KEYS[i], p.text())).collect::<Vec<_>>().join("&"));
            out.push(Template { name: Box::leak(name.into_boxed_str()), segs: vec![Seg::Lit("lit"), Seg::Param], keys, producer: None, pushes: Some(pushes) });
        });
    }
    out
}

fn templates() -> Vec<Template> {
    use Seg::*;
    vec![
        Template { name: "/lit/{p}", segs: vec![Lit("lit"), Param], keys: vec![], producer: None, pushes: None },
        Template { name: "/{p}/{p}", segs: vec![Param, Param], keys: vec![], producer: None, pushes: None },
        Template { name: "/lit/{p}/mid/{p}/{p}", segs: vec![Lit("lit"), Param, Lit("mid"), Param, Param], keys: vec![], producer: None, pushes: None },
        Template { name: "/lit?k0", segs: vec![Lit("lit")], keys: vec!["k0"], producer: None, pushes: None },
        Template { name: "/lit/{p}?k0&k1", segs: vec![Lit("lit"), Param], keys: vec!["k0", "k1"], producer: None, pushes: None },
        Template { name: "/a/b?list*3", segs: vec![Lit("a"), Lit("b")], keys: vec!["list", "list", "list"], producer: None, pushes: None },
        Template { name: "/{p}?k0&list*2&k1", segs: vec![Param], keys: vec!["k0", "list", "list", "k1"], producer: None, pushes: None },
        // more pairs than a small-sort threshold: 2 scalars around a 40-element list, keys not in
        // ascending order (values of one key must keep their order on the server side)
        Template { name: "/lit?zz&list*40&aa", segs: vec![Lit("lit")], keys: { let mut k = vec!["zz"]; k.extend(std::iter::repeat("list").take(40)); k.push("aa"); k }, producer: None, pushes: None },
        // macro-derived clients: literals and query keys with characters of every encode-set level
        Template {
            name: "macro:/w/a b/{p}/x%y/{r}/q?z/h#i/{s}/end&=+,;?k&=y&p q#r+s%t?u/v&plain",
            segs: vec![Lit("w"), Lit("a b"), Param, Lit("x%y"), Param, Lit("q?z"), Lit("h#i"), Param, Lit("end&=+,;")],
            keys: vec!["k&=y", "p q#r+s%t?u/v", "plain"],
            producer: Some(|v| capture(|c| WeirdApiClient::new(c).weird(&v[0], &v[1], &v[2], &v[3], &v[4], &v[5]))),
            pushes: None,
        },
        Template {
            name: "macro:/m/{p}/é/{r}?list*2&k é&opt",
            segs: vec![Lit("m"), Param, Lit("\u{e9}"), Param],
            keys: vec!["list", "list", "k \u{e9}", "opt"],
            producer: Some(|v| capture(|c| WeirdApiClient::new(c).listy(&v[0], &v[1], &v[2..4], &v[4], Some(&v[5])))),
            pushes: None,
        },
        Template { name: "macro:/{p}", segs: vec![Param], keys: vec![], producer: Some(|v| capture(|c| WeirdApiClient::new(c).bare(&v[0]))), pushes: None },
    ]
}

/// literals and query keys containing characters of every encode-set level
#[conjure_client(name = "Weird")]
trait WeirdApi {
    #[endpoint(method = GET, path = "/w/a b/{p}/x%y/{r}/q?z/h#i/{s}/end&=+,;")]
    fn weird(&self, #[path] p: &str, #[path] r: &str, #[path] s: &str, #[query(name = "k&=y")] a: &str, #[query(name = "p q#r+s%t?u/v")] b: &str, #[query(name = "plain")] c: &str) -> Result<(), Error>;

    #[endpoint(method = GET, path = "/m/{p}/\u{e9}/{r}")]
    fn listy(&self, #[path] p: &str, #[path] r: &str, #[query(name = "list", encoder = DisplaySeqEncoder)] list: &[String], #[query(name = "k \u{e9}")] k: &str, #[query(name = "opt", encoder = DisplaySeqEncoder)] opt: Option<&String>) -> Result<(), Error>;

    #[endpoint(method = GET, path = "/{p}")]
    fn bare(&self, #[path] p: &str) -> Result<(), Error>;
}

struct Capture(Mutex<Option<http::Uri>>);

impl Client for &Capture {
    type BodyWriter = Vec<u8>;
    type ResponseBody = std::iter::Empty<Result<bytes::Bytes, Error>>;
    fn send(&self, req: Request<conjure_http::client::RequestBody<'_, Vec<u8>>>) -> Result<http::Response<Self::ResponseBody>, Error> {
        *self.0.lock().unwrap() = Some(req.uri().clone());
        let mut resp = http::Response::new(std::iter::empty());
        *resp.status_mut() = http::StatusCode::NO_CONTENT;
        Ok(resp)
    }
}

fn capture(f: impl FnOnce(&Capture) -> Result<(), Error>) -> Result<http::Uri, String> {
    let cap = Capture(Mutex::new(None));
    vcommon::catch(|| f(&cap)).and_then(|x| x.map_err(|e| format!("client error: {}", e.cause())))?;
    let got = cap.0.lock().unwrap().take();
    got.ok_or_else(|| "no request sent".to_string())
}

impl Template {
    fn positions(&self) -> usize {
        self.segs.iter().filter(|s| matches!(s, Seg::Param)).count() + self.keys.len()
    }
}

// ---------------------------------------------------------------- reference URI model

fn hexval(b: u8) -> Option<u8> {
    match b {
        b'0'..=b'9' => Some(b - b'0'),
        b'a'..=b'f' => Some(b - b'a' + 10),
        b'A'..=b'F' => Some(b - b'A' + 10),
        _ => None,
    }
}

fn pct_decode(s: &str, plus_is_space: bool) -> Option<Vec<u8>> {
    let b = s.as_bytes();
    let mut out = vec![];
    let mut i = 0;
    while i < b.len() {
        match b[i] {
            b'%' => {
                let h = hexval(*b.get(i + 1)?)?;
                let l = hexval(*b.get(i + 2)?)?;
                out.push(h * 16 + l);
                i += 3;
            }
            b'+' if plus_is_space => {
                out.push(b' ');
                i += 1;
            }
            c => {
                out.push(c);
                i += 1;
            }
        }
    }
    Some(out)
}

/// RFC 3986 character classes for an origin-form request target
fn valid_uri_char(c: u8) -> bool {
    c.is_ascii_alphanumeric() || b"-._~:/?#[]@!$&'()*+,;=%".contains(&c)
}

struct Parsed<'a> {
    segments: Vec<&'a str>,
    query: Option<&'a str>,
}

fn tokenize(uri: &str) -> Result<Parsed<'_>, String> {
    if let Some(bad) = uri.bytes().find(|c| !valid_uri_char(*c)) {
        return Err(format!("character {:?} is not allowed in a URI", bad as char));
    }
    if uri.contains('#') {
        return Err("URI has a fragment".into());
    }
    let (path, query) = match uri.find('?') {
        Some(i) => (&uri[..i], Some(&uri[i + 1..])),
        None => (uri, None),
    };
    if !path.starts_with('/') {
        return Err("path does not start with '/'".into());
    }
    Ok(Parsed { segments: path[1..].split('/').collect(), query })
}

// ---------------------------------------------------------------- one case

fn build(t: &Template, vals: &[String]) -> Result<http::Uri, String> {
    build_from(t, vals, false)
}

/// `via_default`: start from the builder's `Default` value rather than `UriBuilder::new()`
fn build_from(t: &Template, vals: &[String], via_default: bool) -> Result<http::Uri, String> {
    if let Some(p) = t.producer {
        return p(vals);
    }
    vcommon::catch(|| {
        let mut b = if via_default { UriBuilder::default() } else { UriBuilder::new() };
        let mut vi = 0;
        // literals are pushed the way generated code pushes them: consecutive literal
        // segments as one "/a/b" string
        let mut lit = String::new();
        for s in &t.segs {
            match s {
                Seg::Lit(l) => {
                    lit.push('/');
                    lit.push_str(l);
                }
                Seg::Param => {
                    if !lit.is_empty() {
                        b.push_literal(&lit);
                        lit.clear();
                    }
                    b.push_path_parameter(&vals[vi]);
                    vi += 1;
                }
            }
        }
        if !lit.is_empty() {
            b.push_literal(&lit);
        }
        match &t.pushes {
            None => {
                for k in &t.keys {
                    b.push_query_parameter(k, &vals[vi]);
                    vi += 1;
                }
            }
            Some(pushes) => {
                for (i, p) in pushes.iter().enumerate() {
                    let k = PUSH_KEYS[i];
                    let mine: Vec<String> = vals[vi..vi + p.emitted()].to_vec();
                    vi += p.emitted();
                    match p {
                        Push::Single => b.push_query_parameter(k, &mine[0]),
                        Push::OptNone => b.push_optional_query_parameter::<String>(k, &None),
                        Push::OptSome => b.push_optional_query_parameter(k, &Some(mine[0].clone())),
                        Push::List(_) => b.push_list_query_parameter(k, &mine),
                        Push::Set(_) => b.push_set_query_parameter(k, &mine.iter().cloned().collect::<std::collections::BTreeSet<String>>()),
                    }
                }
            }
        }
        b.build()
    })
}

fn value_class(vals: &[String], defaults: &str) -> String {
    let mut cls: Vec<String> = vec![];
    for v in vals {
        if v == defaults {
            continue;
        }
        for c in v.chars() {
            let k = if c.is_ascii_alphanumeric() { "alnum".to_string() } else if (c as u32) < 0x20 || c as u32 == 0x7f { "control".to_string() } else if c.is_ascii() { format!("{:?}", c) } else { "non-ascii".to_string() };
            if !cls.contains(&k) {
                cls.push(k);
            }
        }
        if v.is_empty() {
            cls.push("empty".into());
        }
    }
    cls.sort();
    cls.join("")
}

fn check(t: &Template, vals: &[String], rt: &ConjureRuntime, r: &mut Report) {
    check_len(t, vals, rt, r, None)
}

/// `expected_len`: the exact length the URI must have (known for the length sweep only)
fn check_len(t: &Template, vals: &[String], rt: &ConjureRuntime, r: &mut Report, expected_len: Option<usize>) {
    r.states += 1;
    r.evaluations += 1;
    r.transitions += 1;
    let case = json!({"template": t.name, "values": vals});
    let cls = value_class(vals, "d");
    let mut fail = |r: &mut Report, kind: &str, msg: String| {
        r.violation(format!("C07|{}|{}|chars={}", kind, t.name, cls), msg, case.clone());
    };
    let uri = match build(t, vals) {
        Ok(u) => u,
        Err(p) => {
            if expected_len.map(|l| l > 65_534).unwrap_or(false) {
                r.violation("C07|build-panics|uri-longer-than-65534".to_string(), format!("UriBuilder::build panicked for a URI of {} bytes: {}", expected_len.unwrap(), p), json!({"template": t.name, "uri_len": expected_len, "value_lens": vals.iter().map(|v| v.len()).collect::<Vec<_>>(), "fill": vals.iter().map(|v| v.chars().next().map(|c| c.to_string())).collect::<Vec<_>>() }));
            } else {
                fail(r, "build-panics", format!("UriBuilder::build panicked for {:?}: {}", vals, p));
            }
            return;
        }
    };
    let text = uri.to_string();
    // the builder's other constructor produces the same request target
    if t.producer.is_none() {
        let other = build_from(t, vals, true).map(|u| u.to_string());
        if other.as_deref() != Ok(text.as_str()) {
            fail(r, "default-constructed-builder-differs", format!("UriBuilder::default() built {:?}, UriBuilder::new() built {:?} for {:?}", other, text, vals));
            return;
        }
    }
    if let Some(l) = expected_len {
        if text.len() != l {
            fail(r, "unexpected-length", format!("URI has {} bytes, expected {}", text.len(), l));
        }
    }
    // (1) syntactically valid and re-parsable
    if text.parse::<http::Uri>().is_err() {
        fail(r, "not-reparsable", format!("built URI {:?} does not re-parse", text));
    }
    let parsed = match tokenize(&text) {
        Ok(p) => p,
        Err(e) => {
            fail(r, "invalid-uri", format!("built URI {:?} from {:?}: {}", text, vals, e));
            return;
        }
    };
    // (2) structure: segment count, literals intact, params decode to the originals
    if parsed.segments.len() != t.segs.len() {
        fail(r, "segment-count", format!("URI {:?} has {} path segments, template {} prescribes {}", text, parsed.segments.len(), t.name, t.segs.len()));
        return;
    }
    let mut vi = 0;
    let mut path_params = PathParams::new();
    let mut names = vec![];
    for (i, (s, raw)) in t.segs.iter().zip(&parsed.segments).enumerate() {
        match s {
            Seg::Lit(l) => {
                let same = if t.producer.is_some() { pct_decode(raw, false).as_deref() == Some(l.as_bytes()) } else { raw == l };
                if !same {
                    fail(r, "literal-altered", format!("URI {:?}: literal segment {:?} is {:?}", text, l, raw));
                }
            }
            Seg::Param => {
                match pct_decode(raw, false) {
                    Some(b) if b == vals[vi].as_bytes() => {}
                    other => fail(r, "path-decode-model", format!("URI {:?}: segment {} {:?} decodes to {:?}, expected {:?}", text, i, raw, other.map(|b| String::from_utf8_lossy(&b).into_owned()), vals[vi])),
                }
                let name = format!("p{}", vi);
                path_params.insert(name.clone(), raw.to_string());
                names.push((name, vals[vi].clone()));
                vi += 1;
            }
        }
    }
    let n_path = vi;
    // (3) query: exactly one key=value pair per supplied value, in order
    let pairs: Vec<&str> = match parsed.query {
        Some(q) => q.split('&').collect(),
        None => vec![],
    };
    if pairs.len() != t.keys.len() || (parsed.query.is_some() && t.keys.is_empty()) {
        fail(r, "pair-count", format!("URI {:?} has {} query pairs, {} values were supplied", text, pairs.len(), t.keys.len()));
        return;
    }
    for (j, (k, pair)) in t.keys.iter().zip(&pairs).enumerate() {
        let (pk, pv) = match pair.find('=') {
            Some(i) => (&pair[..i], &pair[i + 1..]),
            None => {
                fail(r, "pair-without-equals", format!("URI {:?}: pair {:?}", text, pair));
                continue;
            }
        };
        let same_key = if t.producer.is_some() { pct_decode(pk, true).as_deref() == Some(k.as_bytes()) } else { pk == *k };
        if !same_key {
            fail(r, "key-altered", format!("URI {:?}: pair {} has key {:?}, declared {:?}", text, j, pk, k));
        }
        if pv.contains('=') {
            // a raw '=' inside a value is legal for form decoding but the statement asks for
            // exactly one key=value per value: make sure it decodes right below
        }
        match pct_decode(pv, true) {
            Some(b) if b == vals[n_path + j].as_bytes() => {}
            other => fail(r, "query-decode-model", format!("URI {:?}: value of pair {} {:?} decodes to {:?}, expected {:?}", text, j, pv, other.map(|b| String::from_utf8_lossy(&b).into_owned()), vals[n_path + j])),
        }
    }
    // (4) the real server-side decoders give the originals back
    let mut req = Request::new(());
    *req.uri_mut() = uri.clone();
    req.extensions_mut().insert(path_params);
    let (parts, _) = req.into_parts();
    for (name, want) in &names {
        r.evaluations += 1;
        match vcommon::catch(|| path_param::<String, FromPlainDecoder>(rt, &parts, name, name)) {
            Ok(Ok(v)) if &v == want => r.outcome("server:path-param-ok"),
            Ok(other) => fail(r, "server-path-decode", format!("URI {:?}: path_param({}) = {:?}, expected {:?}", text, name, other.map_err(|e| format!("{:?}", e.cause().to_string())), want)),
            Err(p) => fail(r, "server-path-panic", format!("path_param panicked: {}", p)),
        }
    }
    let qp = parse_query_params(&parts);
    let mut distinct: Vec<&'static str> = vec![];
    for k in &t.keys {
        if !distinct.contains(k) {
            distinct.push(k);
        }
    }
    for k in distinct {
        let want: Vec<String> = t.keys.iter().enumerate().filter(|(_, kk)| **kk == k).map(|(j, _)| vals[n_path + j].clone()).collect();
        r.evaluations += 1;
        match vcommon::catch(|| query_param::<Vec<String>, FromPlainSeqDecoder<String>>(rt, &qp, k, k)) {
            Ok(Ok(v)) if v == want => r.outcome("server:query-param-ok"),
            Ok(other) => fail(r, "server-query-decode", format!("URI {:?}: query_param({}) = {:?}, expected {:?}", text, k, other.map_err(|e| e.cause().to_string()), want)),
            Err(p) => fail(r, "server-query-panic", format!("query_param panicked: {}", p)),
        }
        if want.len() == 1 {
            // the decoder generated servers use for optional<T> arguments: a present value is
            // Some(value), the empty string included
            match vcommon::catch(|| query_param::<Option<String>, FromPlainOptionDecoder>(rt, &qp, k, k)) {
                Ok(Ok(Some(v))) if v == want[0] => {}
                Ok(other) => fail(r, "server-query-decode-optional", format!("URI {:?}: optional query_param({}) = {:?}, expected Some({:?})", text, k, other.map_err(|e| e.cause().to_string()), want[0])),
                Err(p) => fail(r, "server-query-panic", format!("query_param panicked: {}", p)),
            }
            match vcommon::catch(|| query_param::<Option<String>, conjure_http::server::FromStrOptionDecoder>(rt, &qp, k, k)) {
                Ok(Ok(Some(v))) if v == want[0] => {}
                Ok(other) => fail(r, "server-query-decode-optional-fromstr", format!("URI {:?}: optional (FromStr) query_param({}) = {:?}, expected Some({:?})", text, k, other.map_err(|e| e.cause().to_string()), want[0])),
                Err(p) => fail(r, "server-query-panic", format!("query_param panicked: {}", p)),
            }
            match vcommon::catch(|| query_param::<String, FromPlainDecoder>(rt, &qp, k, k)) {
                Ok(Ok(v)) if v == want[0] => {}
                Ok(other) => fail(r, "server-query-decode-single", format!("URI {:?}: single query_param({}) = {:?}, expected {:?}", text, k, other.map_err(|e| e.cause().to_string()), want[0])),
                Err(p) => fail(r, "server-query-panic", format!("query_param panicked: {}", p)),
            }
        }
    }
    if qp.len() != t.keys.iter().collect::<std::collections::BTreeSet<_>>().len() {
        fail(r, "server-extra-query-keys", format!("URI {:?}: server sees query keys {:?}", text, qp.keys().collect::<Vec<_>>()));
    }
}

// ---------------------------------------------------------------- spaces

const RESERVED: &str = "%+/?#&= .~:;@!$'()*,[]\\\"<>{}|^`";

fn single_values() -> Vec<String> {
    let mut v: Vec<String> = (0u8..128).map(|c| (c as char).to_string()).collect();
    for c in ['\u{80}', '\u{7ff}', '\u{800}', '\u{ffff}', '\u{10000}', '\u{10ffff}', '\u{e9}'] {
        v.push(c.to_string());
    }
    for s in ["", "%2F", "%", "%zz", "%2", "a/b", "a+b c", "a=b&c=d#f?x", ".", "..", "/", "//", "?", "&k0=x", "k1=y", "%25", "+", "%2B", "a%20b", "\u{e9}/\u{10000}?", "NaN"] {
        v.push(s.to_string());
    }
    v
}

fn pair_values(alphabet: &str) -> Vec<String> {
    let cs: Vec<char> = alphabet.chars().collect();
    let mut v = vec![];
    for a in &cs {
        for b in &cs {
            v.push(format!("{}{}", a, b));
            v.push(format!("x{}y{}z", a, b));
        }
    }
    v
}

pub fn run(args: &Args) -> Report {
    let mut report = Report::new("C07", "exploration");
    let rt = ConjureRuntime::new();
    let ts = templates();
    if let Some(path) = &args.replay {
        let mut ts = templates();
        ts.extend(collection_templates());
        let v = vcommon::load_replay(path);
        let c = &v["case"];
        let name = c["template"].as_str().unwrap();
        if let Some(l) = c.get("uri_len").and_then(|x| x.as_u64()) {
            let lens: Vec<usize> = c["value_lens"].as_array().unwrap().iter().map(|x| x.as_u64().unwrap() as usize).collect();
            let fills: Vec<String> = c["fill"].as_array().unwrap().iter().map(|x| x.as_str().unwrap_or("d").to_string()).collect();
            let vals: Vec<String> = lens.iter().zip(&fills).map(|(n, f)| f.repeat(*n)).collect();
            for t in ts.iter().filter(|t| t.name == name) {
                check_len(t, &vals, &rt, &mut report, Some(l as usize));
            }
            report.exhaustive = false;
            return report;
        }
        let vals: Vec<String> = c["values"].as_array().unwrap().iter().map(|x| x.as_str().unwrap().to_string()).collect();
        for t in ts.iter().filter(|t| t.name == name) {
            check(t, &vals, &rt, &mut report);
        }
        report.exhaustive = false;
        return report;
    }
    let thorough = args.tier.is_thorough();
    let singles = single_values();
    let pairs = pair_values(if thorough { RESERVED } else { "%+/?#&= ." });
    let mut one_position: Vec<String> = singles.clone();
    one_position.extend(pairs);
    if thorough {
        // triples over six characters
        let six: Vec<char> = "%+/&=#".chars().collect();
        for a in &six {
            for b in &six {
                for c in &six {
                    one_position.push(format!("{}{}{}", a, b, c));
                }
            }
        }
    }
    let reduced: Vec<String> = if thorough { singles.iter().filter(|s| s.len() <= 1 && !s.chars().all(|c| c.is_ascii_alphanumeric())).cloned().chain(["%2F", "a/b", "", "&k0=x", "\u{e9}"].iter().map(|s| s.to_string())).collect() } else { ["%", "+", "/", "?", "#", "&", "=", " ", "", "\u{e9}", "%2F", "a=b&c"].iter().map(|s| s.to_string()).collect() };

    let new = || Report::new("C07", "exploration");
    let merge = |mut a: Report, b: Report| {
        a.merge(b);
        a
    };
    // every value in every single position, others default
    let mut jobs: Vec<(usize, Vec<String>)> = vec![];
    for (ti, t) in ts.iter().enumerate() {
        let n = t.positions();
        if n > 12 {
            // the long-list template: distinct values everywhere (a permutation must show), one
            // position at a time over the reduced alphabet
            let defaults: Vec<String> = (0..n).map(|i| format!("v{} /&=", i)).collect();
            jobs.push((ti, defaults.clone()));
            for pos in 0..n {
                for v in &reduced {
                    let mut vals = defaults.clone();
                    vals[pos] = v.clone();
                    jobs.push((ti, vals));
                }
            }
            continue;
        }
        for pos in 0..n {
            for v in &one_position {
                let mut vals = vec!["d".to_string(); n];
                vals[pos] = v.clone();
                jobs.push((ti, vals));
            }
        }
        // every pair of positions over the reduced alphabet
        for p1 in 0..n {
            for p2 in (p1 + 1)..n {
                for a in &reduced {
                    for b in &reduced {
                        let mut vals = vec!["d".to_string(); n];
                        vals[p1] = a.clone();
                        vals[p2] = b.clone();
                        jobs.push((ti, vals));
                    }
                }
            }
        }
        // all positions at once
        for a in &reduced {
            jobs.push((ti, vec![a.clone(); n]));
        }
    }
    // collection-aware query pushes (optional / list / set, empty and non-empty, in every order)
    let first_col = ts.len();
    let mut ts = ts;
    let empties = [Push::OptNone, Push::List(0), Push::Set(0)];
    for t in collection_templates() {
        let p = t.pushes.as_ref().unwrap();
        if thorough || p.len() <= 2 || (empties.contains(&p[0]) && empties.contains(&p[1])) {
            ts.push(t);
        }
    }
    for (ti, t) in ts.iter().enumerate().skip(first_col) {
        let n = t.positions();
        let defaults: Vec<String> = (0..n).map(|i| format!("d{}", i)).collect();
        let mut push_vals = |mut vals: Vec<String>| {
            // a set parameter emits its values in order, once each
            let mut at = 1;
            for p in t.pushes.as_ref().unwrap() {
                if let Push::Set(k) = p {
                    vals[at..at + k].sort();
                    if vals[at..at + k].windows(2).any(|w| w[0] == w[1]) {
                        return;
                    }
                }
                at += p.emitted();
            }
            jobs.push((ti, vals));
        };
        push_vals(defaults.clone());
        for pos in 0..n {
            for v in &reduced {
                let mut vals = defaults.clone();
                vals[pos] = v.clone();
                push_vals(vals);
            }
        }
        for p1 in 0..n {
            for p2 in (p1 + 1)..n {
                for a in ["&k9=x", "%", "", "?"] {
                    for b in ["=", "#", " ", "&"] {
                        let mut vals = defaults.clone();
                        vals[p1] = a.to_string();
                        vals[p2] = b.to_string();
                        push_vals(vals);
                    }
                }
            }
        }
    }
    let ts = ts;
    let part = jobs
        .par_iter()
        .fold(
            || (new(), ConjureRuntime::new()),
            |(mut r, rt), (ti, vals)| {
                check(&ts[*ti], vals, &rt, &mut r);
                (r, rt)
            },
        )
        .map(|x| x.0)
        .reduce(new, merge);
    report.merge(part);

    // length dimension: every total URI length around the http::Uri limit (65534), for a
    // value in a path position and in a query position, plain and all-escaped characters
    let t = &ts[4]; // /lit/{p}?k0&k1
    for pos in [0usize, 1, 2] {
        for fill in ["a", "%"] {
            let per = if fill == "a" { 1 } else { 3 };
            for target in 65_520..=65_545usize {
                // "/lit/" + p + "?k0=" + v + "&k1=" + v
                let overhead = "/lit/".len() + "?k0=".len() + "&k1=".len() + 2;
                let n = (target - overhead) / per;
                let mut vals = vec!["d".to_string(); 3];
                vals[pos] = fill.repeat(n);
                check_len(t, &vals, &rt, &mut report, Some(overhead + n * per));
            }
        }
    }
    for len in [1usize << 10, 1 << 12, 1 << 14, (1 << 16) - 64] {
        let mut vals = vec!["d".to_string(); 3];
        vals[1] = "&".repeat(len / 3);
        check_len(t, &vals, &rt, &mut report, Some("/lit/d?k0=&k1=d".len() + (len / 3) * 3));
    }
    report.sample("single", json!({"template": ts[2].name, "values": ["d", "a/b", "d"]}));
    report.sample("pair", json!({"template": ts[4].name, "values": ["%2F", "&k1=x", "#"]}));
    report.bound("templates", json!(ts.iter().take(first_col).map(|t| t.name).collect::<Vec<_>>()));
    report.bound("collection_push_templates", ts.len() - first_col);
    report.bound("values_per_position", one_position.len());
    report.bound("pair_alphabet", reduced.len());
    report.bound("uri_lengths", "65520..=65545 in 3 positions x {plain, escaped}");
    report.nontrivial = report.states;
    report.rule = "states = (template, values): every single ASCII code point, UTF-8 length boundary, look-alike string and every pair over the reserved alphabet in every parameter position of 7 templates (others default), every pair of positions over a reduced alphabet, all positions at once, every sequence of up to three optional / list / set / single query pushes (empty and non-empty) after a path parameter over a reduced alphabet, and URI lengths around the 65534 limit; each URI is tokenized by an independent RFC 3986 model and decoded by the real server functions".into();
    report.assumptions.push("dot-segment normalisation by intermediaries is outside the repository; '.' and '..' are literal segments".into());
    report
}
