//! C06 (direct part) — a server accepts a request body only if it is exactly one complete
//! valid document. Drives `StdRequestDeserializer<N>`, `OptionalRequestDeserializer`,
//! `FromRequestDeserializer` and `BinaryRequestDeserializer`, blocking and async, over
//! scripted body streams.

use crate::script::{self, Ev, Script, ScriptIter, ScriptStream};
use conjure_error::{Error, ErrorKind};
use conjure_http::server::conjure::{BinaryRequestDeserializer, OptionalRequestDeserializer};
use conjure_http::server::{AsyncDeserializeRequest, ConjureRuntime, DeserializeRequest, FromRequestDeserializer, StdRequestDeserializer};
use conjure_object::Any;
use futures::executor::block_on;
use http::header::CONTENT_TYPE;
use http::{HeaderMap, HeaderValue};
use rayon::prelude::*;
use serde::de::DeserializeOwned;
use serde::{Deserialize, Serialize};
use serde_json::json;
use std::collections::BTreeMap;
use std::fmt::Debug;
use vcommon::{Args, Report};

#[derive(Serialize, Deserialize, Debug, PartialEq, Clone)]
pub struct Obj {
    a: i32,
    b: Option<String>,
}

/// an object without fields (marker objects): every member it is sent is undeclared
#[derive(Serialize, Deserialize, Debug, PartialEq, Clone)]
pub struct Empty {}

/// an object holding a field-less object below a collection
#[derive(Serialize, Deserialize, Debug, PartialEq, Clone)]
pub struct HoldsEmpty {
    marker: Empty,
    markers: Vec<Empty>,
    id: i32,
}

/// hand-written serde newtype structs around Conjure-shaped values (user types in request bodies):
/// the server rules must keep applying beneath them
#[derive(Serialize, Deserialize, Debug, PartialEq, Clone)]
pub struct Wrapped(Obj);
#[derive(Serialize, Deserialize, Debug, PartialEq, Clone)]
pub struct WrappedDouble(f64);
#[derive(Serialize, Deserialize, Debug, PartialEq, Clone)]
pub struct HoldsWrapped {
    w: Wrapped,
    ds: Vec<WrappedDouble>,
    o: Option<Wrapped>,
}

/// newtype around an optional, standing for an alias of optional<T> (`From<Option<T>>`)
#[derive(Debug, PartialEq, Clone)]
pub struct OptAlias(Option<String>);
impl From<Option<String>> for OptAlias {
    fn from(v: Option<String>) -> Self {
        OptAlias(v)
    }
}

#[derive(Clone, Copy, PartialEq, Debug)]
enum Ct {
    Absent,
    Json,
    JsonCharset,
    Smile,
    SmileParam,
    AppStar,
    TextPlain,
    JsonSuffix,
    Garbage,
    NonAscii,
    OctetStream,
    /// list forms: a Content-Type names one media type
    JsonThenText,
    JsonTrailingComma,
    CommaThenJson,
    SmileThenText,
}

impl Ct {
    fn header(self) -> Option<HeaderValue> {
        Some(match self {
            Ct::Absent => return None,
            Ct::Json => HeaderValue::from_static("application/json"),
            Ct::JsonCharset => HeaderValue::from_static("application/json; charset=utf-8"),
            Ct::Smile => HeaderValue::from_static("application/x-jackson-smile"),
            Ct::SmileParam => HeaderValue::from_static("application/x-jackson-smile;v=1"),
            Ct::AppStar => HeaderValue::from_static("application/*"),
            Ct::TextPlain => HeaderValue::from_static("text/plain"),
            Ct::JsonSuffix => HeaderValue::from_static("application/json+xml"),
            Ct::Garbage => HeaderValue::from_static("garbage"),
            Ct::NonAscii => HeaderValue::from_bytes(b"application/json\xe9").unwrap(),
            Ct::OctetStream => HeaderValue::from_static("application/octet-stream"),
            Ct::JsonThenText => HeaderValue::from_static("application/json, text/plain"),
            Ct::JsonTrailingComma => HeaderValue::from_static("application/json,"),
            Ct::CommaThenJson => HeaderValue::from_static(", application/json"),
            Ct::SmileThenText => HeaderValue::from_static("application/x-jackson-smile, text/plain"),
        })
    }
    /// which registered encoding the header names (default runtime: json, smile)
    fn encoding(self) -> Option<&'static str> {
        match self {
            Ct::Json | Ct::JsonCharset => Some("json"),
            Ct::Smile | Ct::SmileParam => Some("smile"),
            _ => None,
        }
    }
}

const ALL_CT: [Ct; 15] = [Ct::Absent, Ct::Json, Ct::JsonCharset, Ct::Smile, Ct::SmileParam, Ct::AppStar, Ct::TextPlain, Ct::JsonSuffix, Ct::Garbage, Ct::NonAscii, Ct::OctetStream, Ct::JsonThenText, Ct::JsonTrailingComma, Ct::CommaThenJson, Ct::SmileThenText];

fn headers(ct: Ct) -> HeaderMap {
    let mut h = HeaderMap::new();
    if let Some(v) = ct.header() {
        h.insert(CONTENT_TYPE, v);
    }
    h
}

// ---------------------------------------------------------------- reference model

/// exactly one well-formed document of the encoding (decided by the plain libraries)
fn one_document(encoding: &str, c: &[u8]) -> bool {
    match encoding {
        "json" => {
            let mut it = serde_json::Deserializer::from_slice(c).into_iter::<serde_json::Value>();
            matches!(it.next(), Some(Ok(_))) && it.next().is_none()
        }
        _ => {
            let mut de = serde_smile::Deserializer::from_slice(c);
            serde::de::IgnoredAny::deserialize(&mut de).is_ok() && de.end().is_ok()
        }
    }
}

fn reference_value<T: DeserializeOwned>(encoding: &str, c: &[u8]) -> Option<T> {
    match encoding {
        "json" => conjure_serde::json::server_from_slice(c).ok(),
        _ => conjure_serde::smile::server_from_slice(c).ok(),
    }
}

enum Expect<T> {
    Accept(T),
    Reject,
}

fn expect<T: DeserializeOwned>(ct: Ct, s: &Script, limit: usize) -> Expect<T> {
    let c = script::delivered(s);
    let enc = match ct.encoding() {
        Some(e) => e,
        None => return Expect::Reject,
    };
    if script::has_err(s) || c.len() > limit || !one_document(enc, &c) {
        return Expect::Reject;
    }
    // independent of the reference deserializer: the marker member is declared by no type of
    // the catalogue, so a document carrying it anywhere is acceptable only for `any`
    if std::any::type_name::<T>() != std::any::type_name::<Any>() && carries_undeclared_member(enc, &c) {
        return Expect::Reject;
    }
    // for the scalar / collection classes: the JSON kinds the type admits, judged without the
    // subject's deserializer
    if enc == "json" {
        if let Ok(tree) = serde_json::from_slice::<serde_json::Value>(&c) {
            if kind_ok::<T>(&tree) == Some(false) {
                return Expect::Reject;
            }
        }
    }
    match reference_value::<T>(enc, &c) {
        Some(v) => Expect::Accept(v),
        None => Expect::Reject,
    }
}

fn kind_ok<T>(v: &serde_json::Value) -> Option<bool> {
    use serde_json::Value as J;
    let int32 = |x: &J| x.as_i64().map(|n| x.is_i64() && n >= i32::MIN as i64 && n <= i32::MAX as i64).unwrap_or(false) || x.as_u64().map(|n| n <= i32::MAX as u64).unwrap_or(false);
    Some(match std::any::type_name::<T>() {
        "i32" => int32(v),
        "bool" => v.is_boolean(),
        "alloc::string::String" => v.is_string(),
        n if n == "f64" || n.ends_with("::WrappedDouble") => v.is_number() || matches!(v.as_str(), Some("NaN") | Some("Infinity") | Some("-Infinity")),
        "core::option::Option<i32>" => v.is_null() || int32(v),
        "alloc::vec::Vec<i32>" => v.as_array().map(|a| a.iter().all(int32)).unwrap_or(false),
        n if n.contains("BTreeMap<alloc::string::String, i32>") => v.as_object().map(|o| o.values().all(int32)).unwrap_or(false),
        _ => return None,
    })
}

fn near_misses<T>() -> Vec<&'static str> {
    match std::any::type_name::<T>() {
        "i32" => vec!["1.5", "\"1\"", "2147483648", "-2147483649", "true", "null", "[1]"],
        "bool" => vec!["\"true\"", "1", "0", "null", "\"false\""],
        "alloc::string::String" => vec!["1", "null", "[\"a\"]", "true"],
        n if n == "f64" || n.ends_with("::WrappedDouble") => vec!["\"1.5\"", "\"42\"", "\"1e3\"", "\"nan\"", "\"inf\"", "\"infinity\"", "\"-inf\"", "true", "null", "[1.5]"],
        "core::option::Option<i32>" => vec!["\"7\"", "7.5", "[7]", "false"],
        "alloc::vec::Vec<i32>" => vec!["[\"1\"]", "[1.5]", "[null]", "{}", "1", "[[1]]", "[2147483648]"],
        n if n.contains("BTreeMap<alloc::string::String, i32>") => vec!["{\"a\":\"1\"}", "{\"a\":1.5}", "[]", "{\"a\":null}"],
        _ => vec![],
    }
}

fn carries_undeclared_member(enc: &str, c: &[u8]) -> bool {
    fn walk(v: &serde_json::Value) -> bool {
        match v {
            serde_json::Value::Object(m) => m.contains_key("zzUndeclared") || m.values().any(walk),
            serde_json::Value::Array(a) => a.iter().any(walk),
            _ => false,
        }
    }
    let tree: Option<serde_json::Value> = if enc == "json" { serde_json::from_slice(c).ok() } else { serde_smile::from_slice(c).ok() };
    tree.map(|t| walk(&t)).unwrap_or(false)
}

fn error_ok(e: &Error, s: &Script) -> Result<(), String> {
    if script::has_err(s) && script::is_injected(e) {
        return Ok(());
    }
    match e.kind() {
        ErrorKind::Service(se) if se.error_code().as_str() == "INVALID_ARGUMENT" => Ok(()),
        ErrorKind::Service(se) => Err(format!("service error with code {}", se.error_code().as_str())),
        _ => Err("not a service error".into()),
    }
}

struct Case<'a> {
    ty: &'static str,
    de: &'static str,
    ct: Ct,
    limit: usize,
    script: &'a Script,
    cost: usize,
}

fn judge<T: PartialEq + Debug>(r: &mut Report, case: &Case, flavour: &str, want: &Expect<T>, got: Result<Result<T, Error>, String>) {
    r.evaluations += 1;
    r.transitions += 1;
    let body = script::delivered(case.script);
    let cj = json!({"type": case.ty, "deserializer": case.de, "content_type": format!("{:?}", case.ct), "limit": case.limit, "flavour": flavour,
        "script": case.script.iter().map(|e| match e { Ev::Chunk(b) => json!({"chunk": b}), Ev::Empty => json!("empty"), Ev::Pending => json!("pending"), Ev::Err => json!("err") }).collect::<Vec<_>>()});
    let class = body_class(case, &body);
    // whatever an un-fused body yields after its end is not part of the request
    if script::take_after_end() > 0 && got.is_ok() {
        r.violation(format!("C06|{}|{}|body-advanced-after-its-end|{}", case.de, flavour, class), format!("{}: the body {} was asked for more after it had reported its end", case.de, script::text(case.script)), cj);
        return;
    }
    match (want, got) {
        (_, Err(p)) => r.violation(format!("C06|{}|{}|panic|{}", case.de, flavour, class), format!("{} panicked on {} [{}]: {}", case.de, script::text(case.script), case.ty, p), cj),
        (Expect::Accept(v), Ok(Ok(g))) => {
            if &g == v || format!("{:?}", g) == format!("{:?}", v) {
                r.outcome("accepted-with-the-document's-value");
            } else {
                r.violation(format!("C06|{}|{}|wrong-value|{}", case.de, flavour, class), format!("{} [{}] on {}: handler would receive {:?}, the document is {:?}", case.de, case.ty, script::text(case.script), g, v), cj);
            }
        }
        (Expect::Accept(v), Ok(Err(e))) => r.violation(
            format!("C06|{}|{}|valid-body-rejected|{}", case.de, flavour, class),
            format!("{} [{}] rejected {} (Content-Type {:?}, limit {}), a complete valid document {:?}: {}", case.de, case.ty, script::text(case.script), case.ct, case.limit, v, e.cause()),
            cj,
        ),
        (Expect::Reject, Ok(Ok(g))) => r.violation(
            format!("C06|{}|{}|invalid-body-accepted|{}", case.de, flavour, class),
            format!("{} [{}] accepted {} (Content-Type {:?}, limit {}) as {:?}; body {:?} is not exactly one valid document within the limit", case.de, case.ty, script::text(case.script), case.ct, case.limit, g, String::from_utf8_lossy(&body)),
            cj,
        ),
        (Expect::Reject, Ok(Err(e))) => match error_ok(&e, case.script) {
            Ok(()) => r.outcome(if script::is_injected(&e) { "rejected:stream-error" } else { "rejected:INVALID_ARGUMENT" }),
            Err(m) => r.violation(format!("C06|{}|{}|wrong-error|{}", case.de, flavour, class), format!("{} [{}] on {}: {}", case.de, case.ty, script::text(case.script), m), cj),
        },
    }
}

/// input class for signatures: what is wrong with the body (by the model), and how it arrives
fn body_class(case: &Case, body: &[u8]) -> String {
    let mut parts = vec![];
    match case.ct.encoding() {
        None => parts.push(format!("ct={:?}", case.ct)),
        Some(enc) => {
            if body.len() > case.limit {
                parts.push("oversize".to_string());
            }
            if !one_document(enc, body) {
                // trailing data after a complete document?
                let trailing = match enc {
                    "json" => {
                        let mut it = serde_json::Deserializer::from_slice(body).into_iter::<serde_json::Value>();
                        matches!(it.next(), Some(Ok(_)))
                    }
                    _ => {
                        let mut de = serde_smile::Deserializer::from_slice(body);
                        serde::de::IgnoredAny::deserialize(&mut de).is_ok()
                    }
                };
                parts.push(if trailing { format!("trailing-data-after-{}-document", enc) } else { "malformed".to_string() });
            }
        }
    }
    if script::has_err(case.script) {
        parts.push("stream-error".into());
    }
    let chunks = case.script.iter().filter(|e| matches!(e, Ev::Chunk(_))).count();
    parts.push(format!("chunks={}", if chunks >= 4 { "4+".to_string() } else { chunks.to_string() }));
    if parts.len() == 1 {
        parts.insert(0, "ok-body".into());
    }
    parts.join(",")
}

fn run_std<T, const N: usize>(r: &mut Report, ty: &'static str, ct: Ct, s: &Script, cost: usize, rt: &ConjureRuntime)
where
    T: DeserializeOwned + PartialEq + Debug + Send,
{
    let want = expect::<T>(ct, s, N);
    // a Content-Length header is only a claim: truthful, understated, zero or junk, the body that
    // actually arrives is what the limit applies to (varied on the small-limit sweep)
    let actual = script::delivered(s).len().to_string();
    let claims: Vec<(&'static str, Option<String>)> = if N <= 16 {
        vec![("StdRequestDeserializer", None), ("StdRequestDeserializer+Content-Length:true", Some(actual)), ("StdRequestDeserializer+Content-Length:0", Some("0".into())), ("StdRequestDeserializer+Content-Length:3", Some("3".into())), ("StdRequestDeserializer+Content-Length:junk", Some("1x".into()))]
    } else {
        vec![("StdRequestDeserializer", None)]
    };
    for (de, claim) in claims {
        let case = Case { ty, de, ct, limit: N, script: s, cost };
        let mut h = headers(ct);
        if let Some(c) = &claim {
            h.insert(http::header::CONTENT_LENGTH, http::HeaderValue::from_str(c).unwrap());
        }
        if !s.contains(&Ev::Pending) {
            let got = vcommon::catch(|| <StdRequestDeserializer<N> as DeserializeRequest<T, _>>::deserialize(rt, &h, ScriptIter::new(s)));
            judge(r, &case, "blocking", &want, got);
        }
        let got = vcommon::catch(|| block_on(<StdRequestDeserializer<N> as AsyncDeserializeRequest<T, _>>::deserialize(rt, &h, ScriptStream::new(s))));
        judge(r, &case, "async", &want, got);
        let _ = case.cost;
    }
}

fn run_optional<T>(r: &mut Report, ty: &'static str, ct: Ct, s: &Script, rt: &ConjureRuntime)
where
    T: DeserializeOwned + PartialEq + Debug + Send,
{
    let case = Case { ty, de: "OptionalRequestDeserializer", ct, limit: 50 * 1024 * 1024, script: s, cost: 0 };
    // no Content-Type: absent, and the body is not consulted
    let want: Expect<Option<T>> = if ct == Ct::Absent { Expect::Accept(None) } else { expect::<Option<T>>(ct, s, case.limit) };
    let h = headers(ct);
    if !s.contains(&Ev::Pending) {
        let got = vcommon::catch(|| <OptionalRequestDeserializer as DeserializeRequest<Option<T>, _>>::deserialize(rt, &h, ScriptIter::new(s)));
        judge(r, &case, "blocking", &want, got);
    }
    let got = vcommon::catch(|| block_on(<OptionalRequestDeserializer as AsyncDeserializeRequest<Option<T>, _>>::deserialize(rt, &h, ScriptStream::new(s))));
    judge(r, &case, "async", &want, got);
}

fn run_from_request(r: &mut Report, ct: Ct, s: &Script, rt: &ConjureRuntime) {
    type D = FromRequestDeserializer<OptionalRequestDeserializer, Option<String>>;
    let case = Case { ty: "alias<optional<string>>", de: "FromRequestDeserializer<Optional>", ct, limit: 50 * 1024 * 1024, script: s, cost: 0 };
    let want: Expect<OptAlias> = if ct == Ct::Absent {
        Expect::Accept(OptAlias(None))
    } else {
        match expect::<Option<String>>(ct, s, case.limit) {
            Expect::Accept(v) => Expect::Accept(OptAlias(v)),
            Expect::Reject => Expect::Reject,
        }
    };
    let h = headers(ct);
    if !s.contains(&Ev::Pending) {
        let got = vcommon::catch(|| <D as DeserializeRequest<OptAlias, _>>::deserialize(rt, &h, ScriptIter::new(s)));
        judge(r, &case, "blocking", &want, got);
    }
    let got = vcommon::catch(|| block_on(<D as AsyncDeserializeRequest<OptAlias, _>>::deserialize(rt, &h, ScriptStream::new(s))));
    judge(r, &case, "async", &want, got);
}

/// binary bodies: accepted iff Content-Type is exactly application/octet-stream; the stream
/// itself (chunks and errors) is handed over unchanged
fn run_binary(r: &mut Report, ct: Ct, s: &Script, rt: &ConjureRuntime) {
    let case = Case { ty: "binary", de: "BinaryRequestDeserializer", ct, limit: usize::MAX, script: s, cost: 0 };
    let h = headers(ct);
    let got = vcommon::catch(|| <BinaryRequestDeserializer as DeserializeRequest<ScriptIter, ScriptIter>>::deserialize(rt, &h, ScriptIter::new(s)).map(|it| it.0.into_iter().collect::<Vec<Ev>>()));
    let original: Vec<Ev> = ScriptIter::new(s).0.into_iter().collect();
    let want = if ct == Ct::OctetStream { Expect::Accept(original) } else { Expect::Reject };
    judge(r, &case, "blocking", &want, got);
}

// ---------------------------------------------------------------- bodies

// (form feed, vertical tab and NEL are white space to many libraries but not to JSON)
const TRAILERS: [&[u8]; 20] = [b" ", b"\n", b"0", b"x", b",", b"]", b"}", b"\"", b"\0", b"\xff", b" x", b" 1", b"\n\n", b" null", b"[]", b"\t\r\n ", b"\x0c", b" \x0c\n", b"\x0b", b"\xc2\x85"];

pub fn catalogue(valid: &[&str]) -> Vec<Vec<u8>> {
    let mut out: Vec<Vec<u8>> = vec![];
    for v in valid {
        let b = v.as_bytes();
        out.push(b.to_vec());
        for cut in 0..b.len() {
            out.push(b[..cut].to_vec());
        }
        for t in TRAILERS {
            let mut x = b.to_vec();
            x.extend_from_slice(t);
            out.push(x);
        }
        for v2 in valid.iter().take(2) {
            out.push(format!("{} {}", v, v2).into_bytes());
            out.push(format!("{}{}", v, v2).into_bytes());
        }
        out.push(format!(" \n{}", v).into_bytes());
        out.push(format!("\u{feff}{}", v).into_bytes());
        out.push(format!("\u{c}{}", v).into_bytes());
        out.push(format!(" \u{b}{}", v).into_bytes());
        // the same object with a member the type may not declare
        if let Some(x) = with_extra_member(v) {
            out.push(serde_json::to_vec(&x).unwrap());
        }
    }
    out.sort();
    out.dedup();
    out
}

fn with_extra_member(v: &str) -> Option<serde_json::Value> {
    match serde_json::from_str::<serde_json::Value>(v) {
        Ok(serde_json::Value::Object(mut m)) => {
            // into the first nested object if there is one (an undeclared member at depth 1),
            // else into the root
            let nested = m.values_mut().find_map(|x| match x {
                serde_json::Value::Object(o) => Some(o),
                serde_json::Value::Array(a) => a.iter_mut().find_map(|y| y.as_object_mut()),
                _ => None,
            });
            match nested {
                Some(o) => {
                    o.insert("zzUndeclared".into(), serde_json::Value::Bool(true));
                }
                None => {
                    m.insert("zzUndeclared".into(), serde_json::Value::Bool(true));
                }
            }
            Some(serde_json::Value::Object(m))
        }
        _ => None,
    }
}

const JSON_SYMBOLS: [&str; 12] = ["1", "-", "\"", "a", "[", "]", "{", "}", ",", ":", " ", "null"];

macro_rules! for_types {
    ($f:ident, $($args:expr),*) => {
        $f::<i32>("integer", &["42", "-1", "0"], $($args),*);
        $f::<String>("string", &["\"\"", "\"a b\"", "\"\\u00e9\\n\""], $($args),*);
        $f::<f64>("double", &["1.5", "\"NaN\"", "1e2", "-0.0"], $($args),*);
        $f::<bool>("boolean", &["true", "false"], $($args),*);
        $f::<Vec<i32>>("list<integer>", &["[]", "[1,2]", "[ 1 ]"], $($args),*);
        $f::<BTreeMap<String, i32>>("map<string,integer>", &["{}", "{\"a\":1}", "{\"a\":1,\"b\":2}"], $($args),*);
        $f::<Obj>("object", &["{\"a\":1}", "{\"a\":1,\"b\":\"x\"}", "{\"b\":null,\"a\":-5}"], $($args),*);
        $f::<Empty>("empty-object", &["{}", "{ }"], $($args),*);
        $f::<HoldsEmpty>("object-holding-empty-objects", &["{\"marker\":{},\"markers\":[{},{}],\"id\":1}"], $($args),*);
        $f::<Wrapped>("newtype(object)", &["{\"a\":1}", "{\"a\":1,\"b\":\"x\"}"], $($args),*);
        $f::<WrappedDouble>("newtype(double)", &["1.5", "\"NaN\"", "\"-Infinity\""], $($args),*);
        $f::<HoldsWrapped>("object-holding-newtypes", &["{\"w\":{\"a\":1},\"ds\":[1.5,\"NaN\"],\"o\":{\"a\":2}}", "{\"w\":{\"a\":1},\"ds\":[]}"], $($args),*);
        $f::<Any>("any", &["null", "[1,{\"a\":\"b\"}]", "\"s\"", "1"], $($args),*);
        $f::<Option<i32>>("optional<integer>", &["null", "7"], $($args),*);
        $f::<conjure_object::Uuid>("uuid", &["\"01234567-89ab-cdef-fedc-ba9876543210\""], $($args),*);
        $f::<conjure_object::SafeLong>("safelong", &["9007199254740991", "-9007199254740991"], $($args),*);
        $f::<conjure_object::Bytes>("binary-as-json", &["\"aGk=\"", "\"\""], $($args),*);
    };
}

pub fn uniform(body: &[u8], c: usize) -> Script {
    body.chunks(c).map(|x| Ev::Chunk(x.to_vec())).collect()
}

fn part_a<T>(ty: &'static str, valid: &[&str], r: &mut Report, rt: &ConjureRuntime, thorough: bool)
where
    T: DeserializeOwned + PartialEq + Debug + Send,
{
    // the catalogue's valid documents are valid by construction (written from the Conjure wire
    // format, not computed by the subject): each must be accepted
    for v in valid {
        r.states += 1;
        if reference_value::<T>("json", v.as_bytes()).is_none() {
            r.violation(
                format!("C06|direct|declared-valid-document-rejected|{}", ty),
                format!("the server deserializer rejects {} for {}", v, ty),
                json!({"kind": "declared-valid", "type": ty, "body": v}),
            );
        }
    }
    // well-formed documents of a neighbouring JSON kind
    for body in near_misses::<T>() {
        r.states += 1;
        for s in [script::default_script(body.as_bytes()), uniform(body.as_bytes(), 1)] {
            run_std::<T, { 50 * 1024 * 1024 }>(r, ty, Ct::Json, &s, 0, rt);
        }
    }
    // long bodies with multi-byte characters around byte 256 (error paths that quote the body)
    for lead in 250..=258usize {
        for ch in ["\u{e9}", "\u{20ac}", "\u{10000}"] {
            let doc = format!("\"{}{}{}\"", "a".repeat(lead), ch, "b".repeat(12));
            for body in [doc.as_bytes().to_vec(), doc.as_bytes()[..doc.len() - 1].to_vec(), format!("[{}, 1]", doc).into_bytes()] {
                r.states += 1;
                run_std::<T, { 50 * 1024 * 1024 }>(r, ty, Ct::Json, &script::default_script(&body), 0, rt);
            }
        }
    }
    // every catalogue body, default script and uniform chunkings, JSON, default limit
    for body in catalogue(valid) {
        r.states += 1;
        let mut scripts = vec![script::default_script(&body), uniform(&body, 1)];
        if thorough {
            scripts.push(uniform(&body, 2));
            scripts.push(uniform(&body, 3));
        }
        for s in scripts {
            run_std::<T, { 50 * 1024 * 1024 }>(r, ty, Ct::Json, &s, 0, rt);
        }
    }
    // every Content-Type value on the valid documents and one invalid one
    for v in valid.iter().take(2) {
        for ct in ALL_CT {
            r.states += 1;
            let s = script::default_script(v.as_bytes());
            run_std::<T, { 50 * 1024 * 1024 }>(r, ty, ct, &s, 0, rt);
            run_optional::<T>(r, ty, ct, &s, rt);
            let bad = script::default_script(format!("{} x", v).as_bytes());
            run_optional::<T>(r, ty, ct, &bad, rt);
        }
    }
}

fn part_b<T>(ty: &'static str, valid: &[&str], r: &mut Report, rt: &ConjureRuntime, k: usize)
where
    T: DeserializeOwned + PartialEq + Debug + Send,
{
    // deviation-bounded scripts on the valid documents and on two broken ones
    let mut bodies: Vec<Vec<u8>> = valid.iter().take(2).map(|v| v.as_bytes().to_vec()).collect();
    bodies.push(format!("{} x", valid[0]).into_bytes());
    bodies.push(valid[valid.len() - 1].as_bytes()[..valid[valid.len() - 1].len() - 1].to_vec());
    for body in bodies {
        for (s, cost) in script::explore(&body, k, true, body.len() <= 8) {
            r.states += 1;
            run_std::<T, { 50 * 1024 * 1024 }>(r, ty, Ct::Json, &s, cost, rt);
        }
    }
}

fn part_smile<T>(ty: &'static str, valid: &[&str], r: &mut Report, rt: &ConjureRuntime, _k: usize)
where
    T: DeserializeOwned + Serialize + PartialEq + Debug + Send,
{
    for v in valid {
        let value: T = match conjure_serde::json::server_from_str(v) {
            Ok(x) => x,
            Err(_) => continue,
        };
        let smile = conjure_serde::smile::to_vec(&value).unwrap();
        let mut bodies = vec![smile.clone()];
        for cut in 0..smile.len() {
            bodies.push(smile[..cut].to_vec());
        }
        for t in [&b"\xff"[..], b"\x21", b"\xff\xff", b"\xffx", b" ", b"\0", b":)\n\x05\x21"] {
            let mut x = smile.clone();
            x.extend_from_slice(t);
            bodies.push(x);
        }
        if let Some(x) = with_extra_member(v) {
            bodies.push(serde_smile::to_vec(&x).unwrap());
        }
        let mut twice = smile.clone();
        twice.extend_from_slice(&smile[4..]);
        bodies.push(twice);
        for body in bodies {
            r.states += 1;
            for s in [script::default_script(&body), uniform(&body, 1)] {
                run_std::<T, { 50 * 1024 * 1024 }>(r, ty, Ct::Smile, &s, 0, rt);
            }
            // a smile body announced as JSON and vice versa
            run_std::<T, { 50 * 1024 * 1024 }>(r, ty, Ct::Json, &script::default_script(&body), 0, rt);
        }
        run_std::<T, { 50 * 1024 * 1024 }>(r, ty, Ct::Smile, &script::default_script(v.as_bytes()), 0, rt);
    }
}

fn limits(r: &mut Report, rt: &ConjureRuntime, k: usize) {
    // JSON strings whose total length is n: "aaa…"
    fn body(n: usize) -> Vec<u8> {
        if n < 2 {
            return b"1"[..n].to_vec();
        }
        format!("\"{}\"", "a".repeat(n - 2)).into_bytes()
    }
    macro_rules! at {
        ($n:expr) => {
            for len in [($n as usize).saturating_sub(1), $n, $n + 1, $n + 2, $n + 7] {
                let b = body(len);
                let mut scripts: Vec<(Script, usize)> = script::explore(&b, k, true, true);
                for c in [1usize, 2, 3] {
                    scripts.push((uniform(&b, c), 99));
                }
                // grow past the limit only in late chunks
                if len >= 6 {
                    scripts.push((vec![Ev::Chunk(b[..2].to_vec()), Ev::Chunk(b[2..4].to_vec()), Ev::Chunk(b[4..5].to_vec()), Ev::Chunk(b[5..].to_vec())], 99));
                    scripts.push((vec![Ev::Chunk(b[..1].to_vec()), Ev::Empty, Ev::Chunk(b[1..2].to_vec()), Ev::Empty, Ev::Chunk(b[2..3].to_vec()), Ev::Chunk(b[3..4].to_vec()), Ev::Chunk(b[4..].to_vec())], 99));
                }
                for (s, cost) in scripts {
                    r.states += 1;
                    run_std::<String, { $n }>(r, "string", Ct::Json, &s, cost, rt);
                }
                // a number: every prefix of the document is a document too, so a body cut at
                // the limit would still decode
                if len >= 1 {
                    let b = "1".repeat(len).into_bytes();
                    let mut scripts: Vec<(Script, usize)> = script::explore(&b, k.min(1), true, true);
                    for c in [1usize, 2, 3] {
                        scripts.push((uniform(&b, c), 99));
                    }
                    if len >= 6 {
                        scripts.push((vec![Ev::Chunk(b[..2].to_vec()), Ev::Chunk(b[2..4].to_vec()), Ev::Chunk(b[4..5].to_vec()), Ev::Chunk(b[5..].to_vec())], 99));
                    }
                    for (s, cost) in scripts {
                        r.states += 1;
                        run_std::<i32, { $n }>(r, "integer", Ct::Json, &s, cost, rt);
                    }
                }
            }
        };
    }
    at!(0);
    at!(1);
    at!(4);
    at!(8);
    at!(16);
}

/// bodies whose members have different spellings in a human-readable and a binary encoding
/// (uuid: text vs 16 bytes; IpAddr: text vs an enum of byte arrays): the JSON and the Smile
/// rendering written by the matching conjure-serde serializer are valid by construction and
/// must arrive as the value; the *text* spelling inside a Smile document is not the Smile wire
/// form of a uuid and must be refused
#[derive(Serialize, Deserialize, Debug, PartialEq, Clone)]
pub struct HrInner {
    ip: std::net::IpAddr,
    id: conjure_object::Uuid,
}

#[derive(Serialize, Deserialize, Debug, PartialEq, Clone)]
pub struct HrBody {
    id: conjure_object::Uuid,
    ip: std::net::IpAddr,
    ids: Vec<conjure_object::Uuid>,
    inner: HrInner,
    inners: Vec<HrInner>,
}

fn hr_bodies(r: &mut Report, rt: &ConjureRuntime) {
    let id = conjure_object::Uuid::from_u128(0x0123_4567_89ab_cdef_fedc_ba98_7654_3210);
    let inner = HrInner { ip: "2001:db8::1".parse().unwrap(), id };
    let v = HrBody { id, ip: "10.1.2.3".parse().unwrap(), ids: vec![id], inner: inner.clone(), inners: vec![inner] };
    let json = conjure_serde::json::to_vec(&v).unwrap();
    let smile = conjure_serde::smile::to_vec(&v).unwrap();
    // the JSON tree (uuids and addresses as text) rendered as Smile by the plain library
    let text_in_smile = serde_smile::to_vec(&serde_json::from_slice::<serde_json::Value>(&json).unwrap()).unwrap();
    for (what, ct, body, valid) in [("json", Ct::Json, &json, true), ("smile", Ct::Smile, &smile, true), ("smile-with-text-uuids", Ct::Smile, &text_in_smile, false)] {
        for s in [script::default_script(body), uniform(body, 1), uniform(body, 7)] {
            r.states += 1;
            let h = headers(ct);
            let runs: Vec<(&str, Result<Result<HrBody, Error>, String>)> = vec![
                ("blocking", vcommon::catch(|| <StdRequestDeserializer<{ 50 * 1024 * 1024 }> as DeserializeRequest<HrBody, _>>::deserialize(rt, &h, ScriptIter::new(&s)))),
                ("async", vcommon::catch(|| block_on(<StdRequestDeserializer<{ 50 * 1024 * 1024 }> as AsyncDeserializeRequest<HrBody, _>>::deserialize(rt, &h, ScriptStream::new(&s))))),
            ];
            for (flavour, got) in runs {
                r.evaluations += 1;
                r.transitions += 1;
                let case = json!({"kind": "hr-body", "body": what, "flavour": flavour});
                match (valid, got) {
                    (_, Err(p)) => r.violation(format!("C06|direct|hr-body|panic|{}|{}", what, flavour), format!("panicked: {}", p), case),
                    (true, Ok(Ok(g))) if g == v => r.outcome("accepted-with-the-document's-value"),
                    (true, Ok(other)) => r.violation(format!("C06|direct|hr-body|valid-body-rejected|{}|{}", what, flavour), format!("the {} rendering of {:?} written by conjure-serde arrives as {:?}", what, v, other.map_err(|e| e.cause().to_string())), case),
                    (false, Ok(Ok(g))) => r.violation(format!("C06|direct|hr-body|invalid-body-accepted|{}|{}", what, flavour), format!("a Smile document spelling its uuids as text is accepted as {:?}", g), case),
                    (false, Ok(Err(_))) => r.outcome("rejected:INVALID_ARGUMENT"),
                }
            }
        }
    }
}

/// long texts that are not a spelling of the member's type, with a multi-byte character at
/// every offset around 64 / 128 / 256 (error paths like to quote a prefix of what they refuse):
/// as a value and as a map key, JSON and Smile; refused with INVALID_ARGUMENT, never a panic
fn long_invalid_texts(r: &mut Report, rt: &ConjureRuntime) {
    use conjure_object::{Bytes, DoubleKey, SafeLong, Uuid};
    fn one<T: DeserializeOwned + Debug + Send>(r: &mut Report, rt: &ConjureRuntime, ty: &'static str, doc: &serde_json::Value) {
        let json = serde_json::to_vec(doc).unwrap();
        let smile = serde_smile::to_vec(doc).unwrap();
        for (what, ct, body) in [("json", Ct::Json, &json), ("smile", Ct::Smile, &smile)] {
            // a Smile *string* where a binary value belongs is taken as its raw bytes by the byte
            // visitor (Smile has a binary token of its own): not a case the statement settles
            if what == "smile" && (ty == "binary" || ty == "list<binary>") {
                continue;
            }
            r.states += 1;
            let s = script::default_script(body);
            let h = headers(ct);
            let runs: Vec<(&str, Result<bool, String>)> = vec![
                ("blocking", vcommon::catch(|| <StdRequestDeserializer<{ 50 * 1024 * 1024 }> as DeserializeRequest<T, _>>::deserialize(rt, &h, ScriptIter::new(&s)).is_ok())),
                ("async", vcommon::catch(|| block_on(<StdRequestDeserializer<{ 50 * 1024 * 1024 }> as AsyncDeserializeRequest<T, _>>::deserialize(rt, &h, ScriptStream::new(&s))).is_ok())),
            ];
            for (flavour, got) in runs {
                r.evaluations += 1;
                r.transitions += 1;
                let case = json!({"kind": "long-invalid-text", "type": ty, "encoding": what, "flavour": flavour, "doc": doc});
                match got {
                    Ok(false) => r.outcome("rejected:INVALID_ARGUMENT"),
                    Ok(true) => r.violation(format!("C06|direct|long-invalid-text|accepted|{}|{}", ty, what), format!("{} accepted {} ({})", ty, doc, what), case),
                    Err(p) => r.violation(format!("C06|direct|long-invalid-text|panic|{}|{}|{}", ty, what, flavour), format!("{} panicked on {} ({}): {}", ty, doc, what, p), case),
                }
            }
        }
    }
    let mut texts = vec![];
    for centre in [64usize, 128, 256] {
        for lead in centre - 4..=centre + 1 {
            for ch in ["\u{e9}", "\u{20ac}", "\u{10000}"] {
                texts.push(format!("{}{}{}", "A".repeat(lead), ch, "B".repeat(8)));
            }
        }
    }
    for t in &texts {
        let v = serde_json::Value::String(t.clone());
        one::<Bytes>(r, rt, "binary", &v);
        one::<f64>(r, rt, "double", &v);
        one::<bool>(r, rt, "boolean", &v);
        one::<Uuid>(r, rt, "uuid", &v);
        one::<SafeLong>(r, rt, "safelong", &v);
        one::<i32>(r, rt, "integer", &v);
        one::<conjure_object::ResourceIdentifier>(r, rt, "rid", &v);
        one::<conjure_object::DateTime<conjure_object::Utc>>(r, rt, "datetime", &v);
        let k = json!({ t.as_str(): 1 });
        one::<BTreeMap<bool, i32>>(r, rt, "map<boolean,integer>", &k);
        one::<BTreeMap<DoubleKey, i32>>(r, rt, "map<double,integer>", &k);
        one::<BTreeMap<Bytes, i32>>(r, rt, "map<binary,integer>", &k);
        one::<BTreeMap<i32, i32>>(r, rt, "map<integer,integer>", &k);
        one::<BTreeMap<Uuid, i32>>(r, rt, "map<uuid,integer>", &k);
        one::<Vec<Bytes>>(r, rt, "list<binary>", &json!([t]));
        one::<Obj>(r, rt, "object(unknown member)", &json!({"a": 1, t.as_str(): 2}));
    }
}

/// runtimes built through the builder: only Smile, only JSON, Smile before JSON, and its defaults. A body is decoded only under an encoding that *was registered*
fn custom_registries(r: &mut Report) {
    use conjure_http::server::{JsonEncoding, SmileEncoding};
    let json = b"\"hello\"".to_vec();
    let smile = serde_smile::to_vec(&"hello").unwrap();
    let regs: Vec<(&str, ConjureRuntime, bool, bool)> = vec![
        ("smile-only", ConjureRuntime::builder().encoding(SmileEncoding).build(), false, true),
        ("json-only", ConjureRuntime::builder().encoding(JsonEncoding).build(), true, false),
        ("smile-then-json", ConjureRuntime::builder().encoding(SmileEncoding).encoding(JsonEncoding).build(), true, true),
        // (a builder given no encoding registers the two default ones)
        ("builder-defaults", ConjureRuntime::builder().build(), true, true),
    ];
    for (name, rt, has_json, has_smile) in &regs {
        for ct in ALL_CT {
            for (what, body) in [("json-body", &json), ("smile-body", &smile)] {
                r.states += 1;
                let s = script::default_script(body);
                let h = headers(ct);
                let registered = match ct.encoding() {
                    Some("json") => *has_json,
                    Some("smile") => *has_smile,
                    _ => false,
                };
                let matches_body = matches!((ct.encoding(), what), (Some("json"), "json-body") | (Some("smile"), "smile-body"));
                let runs: Vec<(&str, Result<Result<String, Error>, String>)> = vec![
                    ("blocking", vcommon::catch(|| <StdRequestDeserializer<{ 50 * 1024 * 1024 }> as DeserializeRequest<String, _>>::deserialize(rt, &h, ScriptIter::new(&s)))),
                    ("async", vcommon::catch(|| block_on(<StdRequestDeserializer<{ 50 * 1024 * 1024 }> as AsyncDeserializeRequest<String, _>>::deserialize(rt, &h, ScriptStream::new(&s))))),
                ];
                for (flavour, got) in runs {
                    r.evaluations += 1;
                    r.transitions += 1;
                    let case = json!({"kind": "custom-registry", "registry": name, "content_type": format!("{:?}", ct), "body": what, "flavour": flavour});
                    match got {
                        Err(p) => r.violation(format!("C06|direct|custom-registry|panic|{}", name), format!("registry {} panicked on Content-Type {:?}: {}", name, ct, p), case),
                        Ok(Ok(v)) if registered && matches_body && v == "hello" => r.outcome("accepted-with-the-document's-value"),
                        Ok(Ok(v)) => r.violation(format!("C06|direct|custom-registry|accepted|{}|ct={:?}", name, ct), format!("registry {}: a {} under Content-Type {:?} was accepted as {:?} (registered: {})", name, what, ct, v, registered), case),
                        Ok(Err(_)) if registered && matches_body => r.violation(format!("C06|direct|custom-registry|valid-body-rejected|{}|ct={:?}", name, ct), format!("registry {}: a valid {} under the registered Content-Type {:?} was rejected", name, what, ct), case),
                        Ok(Err(_)) => r.outcome("rejected:INVALID_ARGUMENT"),
                    }
                }
            }
        }
    }
}

fn byte_strings(r: &mut Report, rt: &ConjureRuntime, max_len: usize) {
    vcommon::enumerate::for_each_word(JSON_SYMBOLS.len(), max_len, |w| {
        let body: String = w.iter().map(|i| JSON_SYMBOLS[*i]).collect();
        let s = script::default_script(body.as_bytes());
        r.states += 1;
        run_std::<Any, { 50 * 1024 * 1024 }>(r, "any", Ct::Json, &s, 0, rt);
        run_std::<Vec<i32>, { 50 * 1024 * 1024 }>(r, "list<integer>", Ct::Json, &s, 0, rt);
        run_std::<Option<i32>, { 50 * 1024 * 1024 }>(r, "optional<integer>", Ct::Json, &s, 0, rt);
    });
}

pub fn run(args: &Args) -> Report {
    let mut report = Report::new("C06", "fault_enumeration");
    let rt = ConjureRuntime::new();
    let thorough = args.tier.is_thorough();
    let k = args.tier.pick(2usize, 5usize);
    if let Some(path) = &args.replay {
        return replay(path, report, &rt);
    }
    // the parts are independent: run them on the thread pool
    let jobs: Vec<Box<dyn Fn(&mut Report, &ConjureRuntime) + Sync + Send>> = vec![
        Box::new(move |r, rt| {
            for_types!(part_a, r, rt, thorough);
        }),
        Box::new(move |r, rt| {
            for_types!(part_b, r, rt, k);
        }),
        Box::new(move |r, rt| {
            for_types!(part_smile, r, rt, k);
        }),
        Box::new(move |r, rt| limits(r, rt, k.min(2))),
        Box::new(move |r, rt| byte_strings(r, rt, if thorough { 4 } else { 3 })),
        Box::new(move |r, rt| hr_bodies(r, rt)),
        Box::new(move |r, rt| long_invalid_texts(r, rt)),
        Box::new(move |r, _rt| custom_registries(r)),
        Box::new(move |r, rt| {
            // optional / alias-of-optional / binary deserializers over every Content-Type and script
            for body in [&b"\"x\""[..], b"null", b"\"x\" y", b"\"x", b""] {
                for ct in ALL_CT {
                    for (s, _) in script::explore(body, k.min(2), true, true) {
                        r.states += 1;
                        run_optional::<String>(r, "string", ct, &s, rt);
                        run_from_request(r, ct, &s, rt);
                        run_binary(r, ct, &s, rt);
                    }
                }
            }
        }),
    ];
    let parts: Vec<Report> = jobs
        .par_iter()
        .map(|job| {
            let mut r = Report::new("C06", "fault_enumeration");
            let rt = ConjureRuntime::new();
            job(&mut r, &rt);
            r
        })
        .collect();
    for p in parts {
        report.merge(p);
    }
    let _ = &rt;
    report.sample("script", json!({"body": "\"a b\" x", "script": "chunk(\"\\\"a\") empty chunk(\" b\\\" x\")", "expect": "rejected (trailing data)"}));
    report.sample("limit", json!({"limit": 8, "body": "\"aaaaaaa\"", "script": "chunk x4", "expect": "rejected (9 bytes > 8)"}));
    report.sample("smile", json!({"body": "smile(42) + 0xff end marker", "expect": "accepted"}));
    report.bound("deviations", k);
    report.bound("byte_strings_max_symbols", if thorough { 4 } else { 3 });
    report.bound("limits", json!([0, 1, 4, 8, 16, "default"]));
    report.bound("content_types", json!(ALL_CT.iter().map(|c| format!("{:?}", c)).collect::<Vec<_>>()));
    report.nontrivial = report.states;
    report.rule = "states = (parameter type, body, Content-Type, limit, script): per type its valid documents, every truncation, 16 trailers, doubled documents; all symbol strings up to the bound; Smile renderings with truncations/trailers; scripts = every history within the deviation bound (split / empty chunk / pending poll / stream error at every position) plus uniform 1/2/3-byte chunkings; each run blocking and async".into();
    report.assumptions.push("'exactly one well-formed document' is decided by plain serde_json (StreamDeserializer: one value then end of input) / serde_smile (one value then end()), the value by conjure-serde's server deserializer".into());
    report.assumptions.push("when both an INVALID_ARGUMENT condition and a stream error apply, either error is accepted".into());
    report
}

fn replay(path: &str, mut report: Report, rt: &ConjureRuntime) -> Report {
    let v = vcommon::load_replay(path);
    let c = &v["case"];
    report.exhaustive = false;
    if c["kind"] == "custom-registry" {
        custom_registries(&mut report);
        return report;
    }
    if c["kind"] == "long-invalid-text" {
        long_invalid_texts(&mut report, rt);
        return report;
    }
    if c["kind"] == "hr-body" {
        hr_bodies(&mut report, rt);
        return report;
    }
    if c["kind"] == "declared-valid" {
        fn one_valid<T: DeserializeOwned + PartialEq + Debug + Send>(name: &'static str, _valid: &[&str], want: &str, body: &str, r: &mut Report) {
            if name == want && reference_value::<T>("json", body.as_bytes()).is_none() {
                r.violation(
                    format!("C06|direct|declared-valid-document-rejected|{}", name),
                    format!("the server deserializer rejects {} for {}", body, name),
                    json!({"kind": "declared-valid", "type": name, "body": body}),
                );
            }
        }
        let ty = c["type"].as_str().unwrap().to_string();
        let body = c["body"].as_str().unwrap().to_string();
        for_types!(one_valid, &ty, &body, &mut report);
        return report;
    }
    let script: Script = c["script"]
        .as_array()
        .unwrap()
        .iter()
        .map(|e| match e {
            serde_json::Value::String(s) if s == "empty" => Ev::Empty,
            serde_json::Value::String(s) if s == "pending" => Ev::Pending,
            serde_json::Value::String(_) => Ev::Err,
            o => Ev::Chunk(o["chunk"].as_array().unwrap().iter().map(|b| b.as_u64().unwrap() as u8).collect()),
        })
        .collect();
    let ct = ALL_CT.iter().cloned().find(|x| format!("{:?}", x) == c["content_type"].as_str().unwrap()).unwrap();
    let ty = c["type"].as_str().unwrap().to_string();
    let de = c["deserializer"].as_str().unwrap();
    let limit = c["limit"].as_u64().unwrap() as usize;
    report.exhaustive = false;
    if de.starts_with("Optional") {
        fn one_opt<T: DeserializeOwned + PartialEq + Debug + Send>(name: &'static str, _valid: &[&str], want: &str, r: &mut Report, ct: Ct, s: &Script, rt: &ConjureRuntime) {
            if name == want {
                run_optional::<T>(r, name, ct, s, rt);
            }
        }
        for_types!(one_opt, &ty, &mut report, ct, &script, rt);
        return report;
    }
    if de.starts_with("FromRequest") {
        run_from_request(&mut report, ct, &script, rt);
        return report;
    }
    if de.starts_with("Binary") {
        run_binary(&mut report, ct, &script, rt);
        return report;
    }
    macro_rules! lim {
        ($n:expr) => {
            if limit == $n {
                if ty == "integer" {
                    run_std::<i32, { $n }>(&mut report, "integer", ct, &script, 0, rt);
                } else {
                    run_std::<String, { $n }>(&mut report, "string", ct, &script, 0, rt);
                }
                return report;
            }
        };
    }
    lim!(0);
    lim!(1);
    lim!(4);
    lim!(8);
    lim!(16);
    fn one<T: DeserializeOwned + PartialEq + Debug + Send>(name: &'static str, _valid: &[&str], want: &str, r: &mut Report, ct: Ct, s: &Script, rt: &ConjureRuntime) {
        if name == want {
            run_std::<T, { 50 * 1024 * 1024 }>(r, name, ct, s, 0, rt);
        }
    }
    for_types!(one, &ty, &mut report, ct, &script, rt);
    report
}
