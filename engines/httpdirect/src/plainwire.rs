//! The HTTP legs of C12 and C16: PLAIN-capable values pushed through the *real* client-side
//! encoders (UriBuilder path / query / optional / list / set pushes, encode_header,
//! encode_header_auth / encode_cookie_auth) and read back by the *real* server-side decoders
//! (path_param / parse_query_params + query_param / header_param with the FromPlain decoders,
//! parse_header_auth / parse_cookie_auth).
//!
//! C12: every value of a per-type grid must come back identical on every route.
//! C16: every string of a bounded alphabet is sent raw on every route; it must be accepted
//! exactly when the hand-written recogniser accepts it, and come back as the identical string.

use conjure_http::private::{encode_cookie_auth, encode_header, encode_header_auth, encode_optional_header, header_param, parse_cookie_auth, parse_header_auth, parse_query_params, path_param, query_param, UriBuilder};
use conjure_http::server::conjure::{FromPlainDecoder, FromPlainOptionDecoder, FromPlainSeqDecoder};
use conjure_http::server::ConjureRuntime;
use conjure_http::PathParams;
use conjure_object::{BearerToken, DateTime, FromPlain, Plain, ResourceIdentifier, SafeLong, ToPlain, Utc, Uuid};
use http::Request;
use rayon::prelude::*;
use serde_json::json;
use std::collections::BTreeSet;
use std::fmt::Debug;
use vcommon::{Args, Report};

fn parts_of(uri: &http::Uri, path_value: Option<&str>) -> http::request::Parts {
    let mut req = Request::new(());
    *req.uri_mut() = uri.clone();
    let mut pp = PathParams::new();
    if let Some(v) = path_value {
        pp.insert("p".to_string(), v.to_string());
    }
    req.extensions_mut().insert(pp);
    req.into_parts().0
}

fn err_text<T>(r: Result<T, conjure_error::Error>) -> Result<T, String> {
    r.map_err(|e| e.cause().to_string())
}

/// every route for one value; `same` is the type's identity (bitwise for doubles)
fn wire<T>(r: &mut Report, rt: &ConjureRuntime, prop: &str, ty: &'static str, v: &T, other: &T, same: &dyn Fn(&T, &T) -> bool)
where
    T: Plain + FromPlain + Clone + Debug + 'static,
    <T as FromPlain>::Err: std::error::Error + Send + Sync + 'static,
{
    r.states += 1;
    let text = v.to_plain();
    let case = |route: &str| json!({"part": "wire", "type": ty, "route": route, "plain": text});
    let fail = |r: &mut Report, route: &str, what: String| {
        r.violation(format!("{}|wire|{}|{}", prop, route, ty), format!("{} value with PLAIN text {:?} over the {} route: {}", ty, text, route, what), case(route));
    };
    let mut route = |r: &mut Report, name: &str, f: &mut dyn FnMut() -> Result<Vec<T>, String>, want: Vec<&T>| {
        r.evaluations += 1;
        r.transitions += 1;
        match vcommon::catch(|| f()) {
            Err(p) => fail(r, name, format!("panicked: {}", p)),
            Ok(Err(e)) => fail(r, name, format!("the server-side decoder rejects what the client sent: {}", e)),
            Ok(Ok(got)) => {
                if got.len() == want.len() && got.iter().zip(&want).all(|(a, b)| same(a, b)) {
                    r.outcome("wire:value-arrives-unchanged");
                } else {
                    fail(r, name, format!("the handler would receive {:?}, the caller passed {:?}", got, want));
                }
            }
        }
    };
    // path parameter: the router hands over the raw (still escaped) segment
    route(
        r,
        "path",
        &mut || {
            let mut b = UriBuilder::new();
            b.push_literal("/a");
            b.push_path_parameter(v);
            b.push_literal("/z");
            let uri = b.build();
            let segs: Vec<&str> = uri.path().split('/').collect();
            if segs.len() != 4 || segs[1] != "a" || segs[3] != "z" {
                return Err(format!("the URI {} does not have the template's three segments", uri));
            }
            let parts = parts_of(&uri, Some(segs[2]));
            err_text(path_param::<T, FromPlainDecoder>(rt, &parts, "p", "p")).map(|x| vec![x])
        },
        vec![v],
    );
    // required query parameter (between two others)
    route(
        r,
        "query",
        &mut || {
            let mut b = UriBuilder::new();
            b.push_literal("/a");
            b.push_query_parameter("before", &"x");
            b.push_query_parameter("k", v);
            b.push_query_parameter("after", &"y");
            let uri = b.build();
            let parts = parts_of(&uri, None);
            let qp = parse_query_params(&parts);
            if qp.len() != 3 {
                return Err(format!("the URI {} does not carry exactly the three keys", uri));
            }
            err_text(query_param::<T, FromPlainDecoder>(rt, &qp, "k", "k")).map(|x| vec![x])
        },
        vec![v],
    );
    // optional query parameter, present
    route(
        r,
        "query-optional",
        &mut || {
            let mut b = UriBuilder::new();
            b.push_literal("/a");
            b.push_optional_query_parameter("k", &Some(v.clone()));
            let uri = b.build();
            let parts = parts_of(&uri, None);
            let qp = parse_query_params(&parts);
            match err_text(query_param::<Option<T>, FromPlainOptionDecoder>(rt, &qp, "k", "k"))? {
                Some(x) => Ok(vec![x]),
                None => Ok(vec![]),
            }
        },
        vec![v],
    );
    // list query parameter: order and multiplicity
    route(
        r,
        "query-list",
        &mut || {
            let mut b = UriBuilder::new();
            b.push_literal("/a");
            b.push_list_query_parameter("k", &[v.clone(), other.clone(), v.clone()]);
            let uri = b.build();
            let parts = parts_of(&uri, None);
            let qp = parse_query_params(&parts);
            err_text(query_param::<Vec<T>, FromPlainSeqDecoder<T>>(rt, &qp, "k", "k"))
        },
        vec![v, other, v],
    );
    // header (when the text is a legal header value at all)
    let mut req = Request::new(());
    // header values are visible ASCII (plus space / tab) on the wire: other texts have no header form
    let header_text = text.bytes().all(|b| (0x20..0x7f).contains(&b) || b == b'\t');
    if header_text && encode_header(&mut req, "x-verif", v).is_ok() {
        route(
            r,
            "header",
            &mut || {
                let (parts, _) = std::mem::replace(&mut req, Request::new(())).into_parts();
                err_text(header_param::<T, FromPlainDecoder>(rt, &parts, "x-verif", "h")).map(|x| vec![x])
            },
            vec![v],
        );
        route(
            r,
            "header-optional",
            &mut || {
                let mut req = Request::new(());
                encode_optional_header(&mut req, "x-verif", &Some(v.clone())).map_err(|e| e.cause().to_string())?;
                let (parts, _) = req.into_parts();
                match err_text(header_param::<Option<T>, FromPlainOptionDecoder>(rt, &parts, "x-verif", "h"))? {
                    Some(x) => Ok(vec![x]),
                    None => Ok(vec![]),
                }
            },
            vec![v],
        );
    } else {
        r.outcome("wire:text-is-not-a-header-value (route skipped)");
    }
}

fn wire_set<T>(r: &mut Report, rt: &ConjureRuntime, prop: &str, ty: &'static str, vs: &BTreeSet<T>)
where
    T: Plain + FromPlain + Clone + Debug + Ord + 'static,
    <T as FromPlain>::Err: std::error::Error + Send + Sync + 'static,
{
    r.states += 1;
    r.evaluations += 1;
    r.transitions += 1;
    let mut b = UriBuilder::new();
    b.push_literal("/a");
    b.push_set_query_parameter("k", vs);
    let uri = b.build();
    let parts = parts_of(&uri, None);
    let qp = parse_query_params(&parts);
    match vcommon::catch(|| err_text(query_param::<BTreeSet<T>, FromPlainSeqDecoder<T>>(rt, &qp, "k", "k"))) {
        Ok(Ok(got)) if &got == vs => r.outcome("wire:value-arrives-unchanged"),
        other => r.violation(format!("{}|wire|query-set|{}", prop, ty), format!("set {:?} sent as {} arrives as {:?}", vs, uri, other), json!({"part": "wire", "type": ty, "route": "query-set"})),
    }
}

fn absent_optionals(r: &mut Report, rt: &ConjureRuntime) {
    // an absent optional stays absent on both routes
    r.states += 1;
    r.evaluations += 2;
    let mut b = UriBuilder::new();
    b.push_literal("/a");
    b.push_optional_query_parameter::<String>("k", &None);
    let uri = b.build();
    let parts = parts_of(&uri, None);
    let qp = parse_query_params(&parts);
    match err_text(query_param::<Option<String>, FromPlainOptionDecoder>(rt, &qp, "k", "k")) {
        Ok(None) => r.outcome("wire:absent-stays-absent"),
        other => r.violation("C12|wire|query-optional|absent".to_string(), format!("an absent optional query parameter arrives as {:?}", other), json!({"part": "wire", "type": "string", "route": "query-optional"})),
    }
    let mut req = Request::new(());
    let _ = encode_optional_header::<(), String>(&mut req, "x-verif", &None);
    let (parts, _) = req.into_parts();
    match err_text(header_param::<Option<String>, FromPlainOptionDecoder>(rt, &parts, "x-verif", "h")) {
        Ok(None) => r.outcome("wire:absent-stays-absent"),
        other => r.violation("C12|wire|header-optional|absent".to_string(), format!("an absent optional header arrives as {:?}", other), json!({"part": "wire", "type": "string", "route": "header-optional"})),
    }
}

// ---------------------------------------------------------------- value grids (C12)

fn strings(thorough: bool) -> Vec<String> {
    let mut out = vec![String::new(), " ".into(), "a b".into(), "1+1=2".into(), "a&b=c".into(), "100%".into(), "%41".into(), "%zz".into(), "é€😀".into(), "a/b".into(), "a?b#c".into(), ";,:@".into(), "\u{7f}".into(), "~._-".into(), "++".into(), "=".into(), "&".into(), "a\tb".into(), "\"q\"".into(), "{x}".into(), "[x]".into(), "\\".into(), "^`|<>".into()];
    // every ASCII character alone and between letters
    for c in 0u8..=127 {
        out.push((c as char).to_string());
        out.push(format!("a{}b", c as char));
    }
    if thorough {
        for a in b" +%&=/?#;" {
            for b in b" +%&=/?#;" {
                out.push(format!("{}{}", *a as char, *b as char));
                out.push(format!("x{}y{}z", *a as char, *b as char));
            }
        }
    }
    out
}

fn doubles() -> Vec<f64> {
    let mut out = vec![0.0, -0.0, 1.0, -1.0, 1.5, f64::NAN, f64::INFINITY, f64::NEG_INFINITY, f64::MAX, f64::MIN, f64::MIN_POSITIVE, 5e-324, 1e21, 1e-7, 123456789.123456789, 0.1, 1e300, -1e-300, 9007199254740993.0];
    for k in [1u64, 52, 1023, 2046] {
        for m in [0u64, 1, 0x000f_ffff_ffff_ffff, 0x0008_0000_0000_0000] {
            out.push(f64::from_bits((k << 52) | m));
            out.push(f64::from_bits((1 << 63) | (k << 52) | m));
        }
    }
    out
}

fn datetimes(thorough: bool) -> Vec<DateTime<Utc>> {
    use conjure_object::chrono::TimeZone;
    let mut out = vec![];
    let years: &[i32] = if thorough { &[0, 1, 99, 1969, 1970, 2000, 2038, 9999] } else { &[0, 1970, 2024, 9999] };
    for y in years {
        for (mo, d, h, mi, s) in [(1u32, 1u32, 0u32, 0u32, 0u32), (12, 31, 23, 59, 59), (2, 28, 12, 30, 15)] {
            for ns in [0u32, 1, 999, 1_000, 123_000_000, 123_456_000, 123_456_789, 999_999_999] {
                if let Some(t) = Utc.with_ymd_and_hms(*y, mo, d, h, mi, s).single() {
                    out.push(t + conjure_object::chrono::Duration::nanoseconds(ns as i64));
                }
            }
        }
    }
    out
}

fn byte_strings(thorough: bool) -> Vec<conjure_object::Bytes> {
    let mut out: Vec<Vec<u8>> = vec![vec![], vec![0], vec![0xff], vec![0xfb, 0xef, 0xbe], vec![0xff, 0xff, 0xff], vec![0xfb, 0xff], b"hello world".to_vec(), vec![0x3e; 7], vec![0x3f; 8]];
    // every 6-bit group value in every position of a 3-byte block (all 64 Base64 letters)
    for g in 0u32..64 {
        for pos in 0..4 {
            let w = g << (18 - 6 * pos);
            out.push(vec![(w >> 16) as u8, (w >> 8) as u8, w as u8]);
        }
    }
    let top = if thorough { 70 } else { 35 };
    for len in 0..=top {
        out.push((0..len).map(|i| (i * 37 + 11) as u8).collect());
        out.push(vec![0xfb; len]);
    }
    out.into_iter().map(conjure_object::Bytes::from).collect()
}

const TOKEN_ALPHABET: &[u8] = b"aZ09-._~+/=";

fn tokens(thorough: bool) -> Vec<BearerToken> {
    let mut out = vec![];
    let max = if thorough { 4 } else { 3 };
    let mut w = vec![];
    for len in 1..=max {
        let n = (TOKEN_ALPHABET.len() as u64).pow(len as u32);
        for idx in 0..n {
            vcommon::enumerate::nth_word(TOKEN_ALPHABET.len(), len, idx, &mut w);
            let s: String = w.iter().map(|i| TOKEN_ALPHABET[*i] as char).collect();
            if token_model(&s) {
                out.push(BearerToken::new(&s).expect("model-valid token"));
            }
        }
    }
    for s in ["YWJjZA==", "++++/w==", "eyJhbGciOiJFUzI1NiJ9.e30.sig-_~", "a+b/c"] {
        out.push(BearerToken::new(s).unwrap());
    }
    out
}

fn rids() -> Vec<ResourceIdentifier> {
    let mut out = vec![];
    for svc in ["a", "my-service", "s0"] {
        for inst in ["", "i", "0-inst"] {
            for ty in ["t", "my-type9"] {
                for loc in ["l", "A_b.c-d", "a.b.c", "_", "-", ".", "0", "x..y", "ri.a.b.c.d"] {
                    out.push(ResourceIdentifier::new(&format!("ri.{}.{}.{}.{}", svc, inst, ty, loc)).expect("valid rid"));
                }
            }
        }
    }
    out
}

pub fn run_c12(args: &Args) -> Report {
    let mut report = Report::new("C12", "exploration");
    let rt = ConjureRuntime::new();
    let thorough = args.tier.is_thorough();
    if args.replay.is_some() {
        report.exhaustive = false;
    }
    let r = &mut report;
    let ss = strings(thorough);
    for (i, v) in ss.iter().enumerate() {
        wire(r, &rt, "C12", "string", v, &ss[(i + 1) % ss.len()], &|a, b| a == b);
    }
    let ints: Vec<i32> = vec![0, 1, -1, i32::MIN, i32::MAX, 10, -10, 65536, -65537, 1_000_000_007];
    for (i, v) in ints.iter().enumerate() {
        wire(r, &rt, "C12", "integer", v, &ints[(i + 1) % ints.len()], &|a, b| a == b);
    }
    let max = (1i64 << 53) - 1;
    let sls: Vec<SafeLong> = [0, 1, -1, max, -max, max - 1, 1 << 31, -(1 << 31) - 1, 999_999_999_999_999].iter().map(|v| SafeLong::new(*v).unwrap()).collect();
    for (i, v) in sls.iter().enumerate() {
        wire(r, &rt, "C12", "safelong", v, &sls[(i + 1) % sls.len()], &|a, b| a == b);
    }
    let ds = doubles();
    for (i, v) in ds.iter().enumerate() {
        wire(r, &rt, "C12", "double", v, &ds[(i + 1) % ds.len()], &|a: &f64, b: &f64| (a.is_nan() && b.is_nan()) || a.to_bits() == b.to_bits());
    }
    for v in [true, false] {
        wire(r, &rt, "C12", "boolean", &v, &!v, &|a, b| a == b);
    }
    let us: Vec<Uuid> = [0u128, u128::MAX, 0x0123_4567_89ab_cdef_fedc_ba98_7654_3210, 1, 1 << 127].iter().map(|v| Uuid::from_u128(*v)).collect();
    for (i, v) in us.iter().enumerate() {
        wire(r, &rt, "C12", "uuid", v, &us[(i + 1) % us.len()], &|a, b| a == b);
    }
    let rs = rids();
    for (i, v) in rs.iter().enumerate() {
        wire(r, &rt, "C12", "rid", v, &rs[(i + 1) % rs.len()], &|a, b| a == b && a.as_str() == b.as_str());
    }
    let ts = tokens(thorough);
    for (i, v) in ts.iter().enumerate() {
        wire(r, &rt, "C12", "bearertoken", v, &ts[(i + 1) % ts.len()], &|a, b| a.as_str() == b.as_str());
    }
    let bs = byte_strings(thorough);
    for (i, v) in bs.iter().enumerate() {
        wire(r, &rt, "C12", "binary", v, &bs[(i + 1) % bs.len()], &|a, b| a == b);
    }
    let dts = datetimes(thorough);
    for (i, v) in dts.iter().enumerate() {
        wire(r, &rt, "C12", "datetime", v, &dts[(i + 1) % dts.len()], &|a, b| a == b);
    }
    // sets (ordered, deduplicated on both sides)
    wire_set(r, &rt, "C12", "string", &ss.iter().take(40).cloned().collect());
    wire_set(r, &rt, "C12", "string", &["".to_string()].into_iter().collect());
    wire_set(r, &rt, "C12", "string", &BTreeSet::<String>::new());
    wire_set(r, &rt, "C12", "integer", &ints.iter().cloned().collect());
    wire_set(r, &rt, "C12", "datetime", &dts.iter().take(30).cloned().collect());
    wire_set(r, &rt, "C12", "bearertoken", &ts.iter().take(60).cloned().collect());
    wire_set(r, &rt, "C12", "binary", &bs.iter().take(60).cloned().collect());
    absent_optionals(r, &rt);
    report.sample("wire", json!({"type": "datetime", "plain": "1970-01-01T00:00:00.000000001+00:00", "routes": ["path", "query", "query-optional", "query-list", "header", "header-optional", "query-set"]}));
    report.bound("wire_routes", json!(["path", "query", "query-optional", "query-list", "query-set", "header", "header-optional"]));
    report.bound("wire_values", json!({"string": ss.len(), "double": ds.len(), "rid": rs.len(), "bearertoken": ts.len(), "binary": bs.len(), "datetime": dts.len()}));
    report.nontrivial = report.states;
    report.rule = "wire part: states = (type, value, route): per PLAIN-capable type a value grid (every ASCII character alone and embedded for strings, all Base64 letters in every block position and every length up to the bound for binary, all model-valid tokens up to the length bound, rid component products, double classes, datetimes with sub-second digits) sent by the real client encoders on the path / query / optional query / list query / set query / header / optional header routes and read back by the real server decoders; the value must arrive unchanged".into();
    report.assumptions.push("wire part: the router hands path_param the raw (escaped) segment, as conjure-runtime's routers do".into());
    report
}

// ---------------------------------------------------------------- C16: validation on the HTTP entry paths

const ABSENT: &str = "<a present value decoded as absent>";

pub fn token_model(s: &str) -> bool {
    let b = s.as_bytes();
    let body = b.iter().take_while(|c| c.is_ascii_alphanumeric() || b"-._~+/".contains(c)).count();
    body > 0 && b[body..].iter().all(|c| *c == b'=')
}

fn rid_model(s: &str) -> bool {
    let rest = match s.strip_prefix("ri.") {
        Some(r) => r,
        None => return false,
    };
    let mut it = rest.splitn(4, '.');
    let (svc, inst, ty, loc) = match (it.next(), it.next(), it.next(), it.next()) {
        (Some(a), Some(b), Some(c), Some(d)) => (a, b, c, d),
        _ => return false,
    };
    let name = |x: &str| {
        let b = x.as_bytes();
        !b.is_empty() && b[0].is_ascii_lowercase() && b.iter().all(|c| c.is_ascii_lowercase() || c.is_ascii_digit() || *c == b'-')
    };
    let inst_ok = inst.is_empty() || {
        let b = inst.as_bytes();
        (b[0].is_ascii_lowercase() || b[0].is_ascii_digit()) && b.iter().all(|c| c.is_ascii_lowercase() || c.is_ascii_digit() || *c == b'-')
    };
    let loc_ok = !loc.is_empty() && loc.bytes().all(|c| c.is_ascii_alphanumeric() || b"_.-".contains(&c));
    name(svc) && inst_ok && name(ty) && loc_ok
}

/// bytes that may stand unescaped inside a query value and mean themselves to form decoding
fn raw_query_ok(s: &[u8]) -> bool {
    s.iter().all(|b| b.is_ascii_alphanumeric() || b"-._~!$'()*,;:@/?=".contains(b))
}

fn pct(s: &[u8]) -> String {
    s.iter().map(|b| if b.is_ascii_alphanumeric() || b"-._~".contains(b) { (*b as char).to_string() } else { format!("%{:02X}", b) }).collect()
}

/// one string on every HTTP entry path of bearer tokens
fn token_paths(r: &mut Report, rt: &ConjureRuntime, s: &[u8]) {
    let text = String::from_utf8_lossy(s).into_owned();
    let valid = std::str::from_utf8(s).map(token_model).unwrap_or(false);
    r.states += 1;
    let mut judge = |r: &mut Report, path: &str, got: Result<Result<BearerToken, String>, String>| {
        r.evaluations += 1;
        r.transitions += 1;
        let case = json!({"part": "wire", "kind": "token", "bytes": s, "path": path});
        match got {
            Err(p) => r.violation(format!("C16|wire|{}|panic", path), format!("{} panicked on {:?}: {}", path, text, p), case),
            Ok(Ok(t)) if valid && t.as_str() == text => r.outcome("wire:valid-token-accepted-unchanged"),
            Ok(Ok(t)) if valid => r.violation(format!("C16|wire|{}|accepted-token-altered", path), format!("{}: token {:?} arrives as {:?}", path, text, t.as_str()), case),
            Ok(Ok(t)) => r.violation(format!("C16|wire|{}|invalid-token-accepted", path), format!("{}: {:?} is not a bearer token but is accepted (as {:?})", path, text, t.as_str()), case),
            Ok(Err(e)) if e == ABSENT => r.violation(format!("C16|wire|{}|present-value-decoded-as-absent", path), format!("{}: the present value {:?} was decoded as absent / empty instead of being accepted or refused", path, text), case),
            Ok(Err(e)) if valid => r.violation(format!("C16|wire|{}|valid-token-rejected", path), format!("{}: valid token {:?} is rejected: {}", path, text, e), case),
            Ok(Err(_)) => r.outcome("wire:invalid-token-rejected"),
        }
    };
    // raw header value "Bearer <s>" / cookie "P=<s>" (when the bytes are a legal header value)
    for (path, name, prefix) in [("parse_header_auth", http::header::AUTHORIZATION, "Bearer "), ("parse_cookie_auth", http::header::COOKIE, "PALANTIR_TOKEN=")] {
        let mut raw = prefix.as_bytes().to_vec();
        raw.extend_from_slice(s);
        if let Ok(hv) = http::HeaderValue::from_bytes(&raw) {
            let mut req = Request::new(());
            req.headers_mut().insert(name, hv);
            let (parts, _) = req.into_parts();
            let got = vcommon::catch(|| if path == "parse_header_auth" { err_text(parse_header_auth(&parts)) } else { err_text(parse_cookie_auth(&parts, prefix)) });
            // an empty token after the prefix is "absent", also a rejection
            judge(r, path, got);
        }
    }
    // raw query / path / header parameter of type bearertoken
    let uri: http::Uri = format!("/a/{}/z?k={}", pct(s), pct(s)).parse().unwrap();
    let seg = pct(s);
    let parts = parts_of(&uri, Some(&seg));
    let qp = parse_query_params(&parts);
    judge(r, "query_param", vcommon::catch(|| err_text(query_param::<BearerToken, FromPlainDecoder>(rt, &qp, "k", "k"))));
    if !s.is_empty() {
        judge(r, "path_param", vcommon::catch(|| err_text(path_param::<BearerToken, FromPlainDecoder>(rt, &parts, "p", "p"))));
    }
    // the same value written raw where the query grammar allows it (what curl / a browser sends:
    // '=' ':' '/' '?' '@' ... need no escape inside a query value)
    if raw_query_ok(s) {
        let raw = std::str::from_utf8(s).unwrap();
        for uri in [format!("/a?k={}&z=1", raw), format!("/a?z=1&k={}", raw)] {
            let uri: http::Uri = uri.parse().unwrap();
            let parts = parts_of(&uri, None);
            let qp = parse_query_params(&parts);
            judge(r, "query_param(raw)", vcommon::catch(|| err_text(query_param::<BearerToken, FromPlainDecoder>(rt, &qp, "k", "k"))));
        }
    }
    if let Ok(hv) = http::HeaderValue::from_bytes(s) {
        let mut req = Request::new(());
        req.headers_mut().insert("x-verif", hv);
        let (parts, _) = req.into_parts();
        judge(r, "header_param", vcommon::catch(|| err_text(header_param::<BearerToken, FromPlainDecoder>(rt, &parts, "x-verif", "h"))));
        // present and optional: the same verdict (an invalid value is not "absent")
        judge(r, "header_param(optional)", vcommon::catch(|| err_text(header_param::<Option<BearerToken>, FromPlainOptionDecoder>(rt, &parts, "x-verif", "h")).and_then(|o| o.ok_or_else(|| ABSENT.to_string()))));
    }
    {
        let uri: http::Uri = format!("/a?k={}", pct(s)).parse().unwrap();
        let parts = parts_of(&uri, Some(&pct(s)));
        let qp = parse_query_params(&parts);
        let absent = |o: Option<BearerToken>| o.ok_or_else(|| ABSENT.to_string());
        judge(r, "query_param(optional)", vcommon::catch(|| err_text(query_param::<Option<BearerToken>, FromPlainOptionDecoder>(rt, &qp, "k", "k")).and_then(absent)));
        judge(r, "query_param(list)", vcommon::catch(|| err_text(query_param::<Vec<BearerToken>, FromPlainSeqDecoder<BearerToken>>(rt, &qp, "k", "k")).and_then(|v| v.into_iter().next().ok_or_else(|| ABSENT.to_string()))));
        if !s.is_empty() {
            judge(r, "path_param(optional)", vcommon::catch(|| err_text(path_param::<Option<BearerToken>, FromPlainOptionDecoder>(rt, &parts, "p", "p")).and_then(absent)));
        }
    }
    // a valid token through the client encoders
    if valid {
        let t = BearerToken::new(&text).unwrap();
        let mut req = Request::new(());
        encode_header_auth(&mut req, &t);
        let (parts, _) = req.into_parts();
        judge(r, "encode_header_auth->parse_header_auth", vcommon::catch(|| err_text(parse_header_auth(&parts))));
        let mut req = Request::new(());
        encode_cookie_auth(&mut req, "PALANTIR_TOKEN=", &t);
        let (parts, _) = req.into_parts();
        judge(r, "encode_cookie_auth->parse_cookie_auth", vcommon::catch(|| err_text(parse_cookie_auth(&parts, "PALANTIR_TOKEN="))));
        let mut b = UriBuilder::new();
        b.push_literal("/a");
        b.push_path_parameter(&t);
        b.push_query_parameter("k", &t);
        let uri = b.build();
        let seg = uri.path().split('/').nth(2).unwrap_or("").to_string();
        let parts = parts_of(&uri, Some(&seg));
        let qp = parse_query_params(&parts);
        judge(r, "UriBuilder->query_param", vcommon::catch(|| err_text(query_param::<BearerToken, FromPlainDecoder>(rt, &qp, "k", "k"))));
        judge(r, "UriBuilder->path_param", vcommon::catch(|| err_text(path_param::<BearerToken, FromPlainDecoder>(rt, &parts, "p", "p"))));
    }
}

fn rid_paths(r: &mut Report, rt: &ConjureRuntime, s: &str) {
    let valid = rid_model(s);
    r.states += 1;
    let mut judge = |r: &mut Report, path: &str, got: Result<Result<ResourceIdentifier, String>, String>| {
        r.evaluations += 1;
        r.transitions += 1;
        let case = json!({"part": "wire", "kind": "rid", "text": s, "path": path});
        match got {
            Err(p) => r.violation(format!("C16|wire|{}|panic", path), format!("{} panicked on {:?}: {}", path, s, p), case),
            Ok(Ok(t)) if valid && t.as_str() == s => r.outcome("wire:valid-rid-accepted-unchanged"),
            Ok(Ok(t)) if valid => r.violation(format!("C16|wire|{}|accepted-rid-altered", path), format!("{}: rid {:?} arrives as {:?}", path, s, t.as_str()), case),
            Ok(Ok(t)) => r.violation(format!("C16|wire|{}|invalid-rid-accepted", path), format!("{}: {:?} is not a resource identifier but is accepted (as {:?})", path, s, t.as_str()), case),
            Ok(Err(e)) if e == ABSENT => r.violation(format!("C16|wire|{}|present-value-decoded-as-absent", path), format!("{}: the present value {:?} was decoded as absent / empty instead of being accepted or refused", path, s), case),
            Ok(Err(e)) if valid => r.violation(format!("C16|wire|{}|valid-rid-rejected", path), format!("{}: valid rid {:?} is rejected: {}", path, s, e), case),
            Ok(Err(_)) => r.outcome("wire:invalid-rid-rejected"),
        }
    };
    let seg = pct(s.as_bytes());
    let uri: http::Uri = format!("/a/{}/z?k={}", seg, seg).parse().unwrap();
    let parts = parts_of(&uri, Some(&seg));
    let qp = parse_query_params(&parts);
    judge(r, "query_param", vcommon::catch(|| err_text(query_param::<ResourceIdentifier, FromPlainDecoder>(rt, &qp, "k", "k"))));
    if raw_query_ok(s.as_bytes()) {
        for uri in [format!("/a?k={}&z=1", s), format!("/a?z=1&k={}", s)] {
            let uri: http::Uri = uri.parse().unwrap();
            let parts = parts_of(&uri, None);
            let qp = parse_query_params(&parts);
            judge(r, "query_param(raw)", vcommon::catch(|| err_text(query_param::<ResourceIdentifier, FromPlainDecoder>(rt, &qp, "k", "k"))));
        }
    }
    if !s.is_empty() {
        judge(r, "path_param", vcommon::catch(|| err_text(path_param::<ResourceIdentifier, FromPlainDecoder>(rt, &parts, "p", "p"))));
    }
    if let Ok(hv) = http::HeaderValue::from_str(s) {
        let mut req = Request::new(());
        req.headers_mut().insert("x-verif", hv);
        let (parts, _) = req.into_parts();
        judge(r, "header_param", vcommon::catch(|| err_text(header_param::<ResourceIdentifier, FromPlainDecoder>(rt, &parts, "x-verif", "h"))));
        judge(r, "header_param(optional)", vcommon::catch(|| err_text(header_param::<Option<ResourceIdentifier>, FromPlainOptionDecoder>(rt, &parts, "x-verif", "h")).and_then(|o| o.ok_or_else(|| ABSENT.to_string()))));
    }
    {
        let absent = |o: Option<ResourceIdentifier>| o.ok_or_else(|| ABSENT.to_string());
        judge(r, "query_param(optional)", vcommon::catch(|| err_text(query_param::<Option<ResourceIdentifier>, FromPlainOptionDecoder>(rt, &qp, "k", "k")).and_then(absent)));
        judge(r, "query_param(set)", vcommon::catch(|| err_text(query_param::<BTreeSet<ResourceIdentifier>, FromPlainSeqDecoder<ResourceIdentifier>>(rt, &qp, "k", "k")).and_then(|v| v.into_iter().next().ok_or_else(|| ABSENT.to_string()))));
    }
    if valid {
        let t = ResourceIdentifier::new(s).unwrap();
        let mut b = UriBuilder::new();
        b.push_literal("/a");
        b.push_path_parameter(&t);
        b.push_query_parameter("k", &t);
        let uri = b.build();
        let seg = uri.path().split('/').nth(2).unwrap_or("").to_string();
        let parts = parts_of(&uri, Some(&seg));
        let qp = parse_query_params(&parts);
        judge(r, "UriBuilder->query_param", vcommon::catch(|| err_text(query_param::<ResourceIdentifier, FromPlainDecoder>(rt, &qp, "k", "k"))));
        judge(r, "UriBuilder->path_param", vcommon::catch(|| err_text(path_param::<ResourceIdentifier, FromPlainDecoder>(rt, &parts, "p", "p"))));
    }
}

/// token alphabet of the HTTP part: one representative per class and every class boundary
/// that can travel in a header or an escaped URI
const WIRE_TOKEN_ALPHABET: &[u8] = b"aZ0-._~+/= ,;%\t\xe9";

pub fn run_c16(args: &Args) -> Report {
    let mut report = Report::new("C16", "exploration");
    let rt = ConjureRuntime::new();
    let thorough = args.tier.is_thorough();
    if let Some(path) = &args.replay {
        let v = vcommon::load_replay(path);
        let c = &v["case"];
        if c["kind"] == "token" {
            let s: Vec<u8> = c["bytes"].as_array().unwrap().iter().map(|b| b.as_u64().unwrap() as u8).collect();
            token_paths(&mut report, &rt, &s);
        } else {
            rid_paths(&mut report, &rt, c["text"].as_str().unwrap());
        }
        report.exhaustive = false;
        return report;
    }
    let max = if thorough { 5 } else { 4 };
    for len in 0..=max {
        let n = (WIRE_TOKEN_ALPHABET.len() as u64).pow(len as u32);
        let part = (0..n)
            .into_par_iter()
            .fold(
                || Report::new("C16", "exploration"),
                |mut r, idx| {
                    let rt = ConjureRuntime::new();
                    let mut w = vec![];
                    vcommon::enumerate::nth_word(WIRE_TOKEN_ALPHABET.len(), len, idx, &mut w);
                    let s: Vec<u8> = w.iter().map(|i| WIRE_TOKEN_ALPHABET[*i]).collect();
                    token_paths(&mut r, &rt, &s);
                    r
                },
            )
            .reduce(|| Report::new("C16", "exploration"), |mut a, b| {
                a.merge(b);
                a
            });
        report.merge(part);
    }
    for s in ["YWJjZA==", "abc=def", "YWJj=ZA=", "user=admin", "a=", "=a", "==", "a==b", "++++/w==", "a b", "tok,other", "tok;other", "tok; x=y", "eyJhbGciOiJFUzI1NiJ9.e30.sig-_~"] {
        token_paths(&mut report, &rt, s.as_bytes());
    }
    // rids: component products over valid and near-valid components
    let svcs = ["a", "my-svc", "A", "", "1a", "a_b", "a.b"];
    let insts = ["", "i", "0-1", "I", "-a", "a b"];
    let tys = ["t", "ty-9", "T", "", "9t"];
    let locs = ["l", "A_b.c-d", "", "a/b", "a b", "x..y", ".", "é", "a+b", "a=b", "a%b"];
    for prefix in ["ri.", "RI.", "ri", "rid.", ""] {
        for svc in svcs {
            for inst in insts {
                for ty in tys {
                    for loc in locs {
                        if !thorough && prefix != "ri." && (svc != "a" || ty != "t") {
                            continue;
                        }
                        rid_paths(&mut report, &rt, &format!("{}{}.{}.{}.{}", prefix, svc, inst, ty, loc));
                    }
                }
            }
        }
    }
    for s in ["ri.a..b.c=x", "ri.a..b.c=", "ri.a..b.c==", "ri.a.b.c", "ri.a.b.c.d.e", "ri.a..c.d", "ri....", "ri.a.b.c.d\n", " ri.a.b.c.d", "ri.a.b.c.d "] {
        rid_paths(&mut report, &rt, s);
    }
    report.sample("wire", json!({"token": "abc=def", "paths": ["parse_header_auth", "parse_cookie_auth", "query_param", "path_param", "header_param"], "expect": "rejected on every path"}));
    report.bound("wire_token_alphabet", String::from_utf8_lossy(WIRE_TOKEN_ALPHABET).into_owned());
    report.bound("wire_token_max_len", max);
    report.nontrivial = report.states;
    report.rule = "wire part: states = (string, HTTP entry path): every string over the token alphabet up to the length bound as `Authorization: Bearer <s>`, as cookie `PALANTIR_TOKEN=<s>`, and as raw query / path / header parameter; rid component products (valid and near-valid components, prefixes) as raw query / path / header parameter; model-valid values also through the client encoders (encode_header_auth, encode_cookie_auth, UriBuilder) and back. Accepted exactly when the recogniser accepts, and unchanged".into();
    report
}
