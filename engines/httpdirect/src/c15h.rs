//! C15 (HTTP body part) — a bare JSON number is the one document that stays well-formed when
//! it is cut short, so the body-assembly routes are routes to a safelong too: every integer
//! near a boundary as a request body (StdRequestDeserializer, blocking and async) and as a
//! response body (decode_serializable_response and its async twin), in every chunking within
//! the deviation bound (splits, empty chunks, pending polls). In range: the handler / caller
//! gets exactly that number. Out of range: an error. Never another number.

use crate::script::{self, Ev, Script, ScriptIter, ScriptStream};
use conjure_http::private as p;
use conjure_http::server::{AsyncDeserializeRequest, ConjureRuntime, DeserializeRequest, StdRequestDeserializer};
use conjure_object::SafeLong;
use futures::executor::block_on;
use http::header::CONTENT_TYPE;
use http::{HeaderMap, HeaderValue, Response};
use serde_json::json;
use vcommon::{Args, Report};

const MAX: i128 = (1 << 53) - 1;

fn judge(r: &mut Report, route: &str, v: i128, s: &Script, got: Result<Result<SafeLong, String>, String>) {
    judge_limited(r, route, v, s, got, None)
}

/// `limit`: (the endpoint's request size limit, whether a Content-Length header is sent); a
/// document longer than the limit counts as out of range: it must be refused, never cut
fn judge_limited(r: &mut Report, route: &str, v: i128, s: &Script, got: Result<Result<SafeLong, String>, String>, limit: Option<(usize, bool)>) {
    r.evaluations += 1;
    r.transitions += 1;
    let mut case = json!({"part": "http-body", "value": v.to_string(), "route": route, "script": s.iter().map(|e| match e { Ev::Chunk(b) => json!({"chunk": b}), Ev::Empty => json!("empty"), Ev::Pending => json!("pending"), Ev::Err => json!("err") }).collect::<Vec<_>>()});
    let mut in_range = v.abs() <= MAX;
    if let Some((n, cl)) = limit {
        case["limit"] = json!(n);
        case["content_length"] = json!(cl);
        in_range = in_range && v.to_string().len() <= n;
    }
    match got {
        Err(p) => r.violation(format!("C15|http-body|{}|panic", route), format!("{} panicked on {} as {}: {}", route, v, script::text(s), p), case),
        Ok(Ok(x)) if !in_range || (*x).abs() as i128 > MAX => r.violation(format!("C15|http-body|{}|out-of-range-accepted", route), format!("{}: body {} ({}) produced safelong {}", route, v, script::text(s), *x), case),
        Ok(Ok(x)) if *x as i128 != v => r.violation(format!("C15|http-body|{}|value-altered", route), format!("{}: body {} sent as {} arrived as {}", route, v, script::text(s), *x), case),
        Ok(Ok(_)) => r.outcome("http-body:in-range-value-arrives"),
        Ok(Err(e)) if in_range => r.violation(format!("C15|http-body|{}|in-range-rejected", route), format!("{}: in-range {} sent as {} was rejected: {}", route, v, script::text(s), e), case),
        Ok(Err(_)) => r.outcome("http-body:out-of-range-rejected"),
    }
}

fn one(r: &mut Report, rt: &ConjureRuntime, v: i128, s: &Script) {
    r.states += 1;
    let mut h = HeaderMap::new();
    h.insert(CONTENT_TYPE, HeaderValue::from_static("application/json"));
    fn resp<B>(body: B) -> Response<B> {
        let mut x = Response::new(body);
        x.headers_mut().insert(CONTENT_TYPE, HeaderValue::from_static("application/json"));
        x
    }
    let e = |r: Result<SafeLong, conjure_error::Error>| r.map_err(|e| e.cause().to_string());
    if !s.contains(&Ev::Pending) {
        judge(r, "StdRequestDeserializer(blocking)", v, s, vcommon::catch(|| e(<StdRequestDeserializer as DeserializeRequest<SafeLong, _>>::deserialize(rt, &h, ScriptIter::new(s)))));
        judge(r, "decode_serializable_response(blocking)", v, s, vcommon::catch(|| e(p::decode_serializable_response::<SafeLong, _>(resp(ScriptIter::new(s))))));
    }
    judge(r, "StdRequestDeserializer(async)", v, s, vcommon::catch(|| e(block_on(<StdRequestDeserializer as AsyncDeserializeRequest<SafeLong, _>>::deserialize(rt, &h, ScriptStream::new(s))))));
    judge(r, "decode_serializable_response(async)", v, s, vcommon::catch(|| e(block_on(p::async_decode_serializable_response::<SafeLong, _>(resp(ScriptStream::new(s)))))));
}

/// the same body on an endpoint with a request size limit of 15 / 16 / 17 bytes (17 = the
/// longest safelong document), with and without a Content-Length header
fn one_limited(r: &mut Report, rt: &ConjureRuntime, v: i128, s: &Script, limit: usize, content_length: bool) {
    r.states += 1;
    let mut h = HeaderMap::new();
    h.insert(CONTENT_TYPE, HeaderValue::from_static("application/json"));
    if content_length {
        h.insert(http::header::CONTENT_LENGTH, HeaderValue::from_str(&v.to_string().len().to_string()).unwrap());
    }
    let e = |r: Result<SafeLong, conjure_error::Error>| r.map_err(|e| e.cause().to_string());
    macro_rules! with {
        ($n:expr) => {
            if limit == $n {
                if !s.contains(&Ev::Pending) {
                    judge_limited(r, "StdRequestDeserializer<N>(blocking)", v, s, vcommon::catch(|| e(<StdRequestDeserializer<{ $n }> as DeserializeRequest<SafeLong, _>>::deserialize(rt, &h, ScriptIter::new(s)))), Some((limit, content_length)));
                }
                judge_limited(r, "StdRequestDeserializer<N>(async)", v, s, vcommon::catch(|| e(block_on(<StdRequestDeserializer<{ $n }> as AsyncDeserializeRequest<SafeLong, _>>::deserialize(rt, &h, ScriptStream::new(s))))), Some((limit, content_length)));
            }
        };
    }
    with!(15);
    with!(16);
    with!(17);
}

/// the parameter decoders generated services use: required, optional, sequence; query, path and
/// header. A present value is either this number or an error - never absent, never another one
fn params(r: &mut Report, rt: &ConjureRuntime, v: i128) {
    use conjure_http::private::{header_param, parse_query_params, path_param, query_param};
    use conjure_http::server::conjure::{FromPlainDecoder, FromPlainOptionDecoder, FromPlainSeqDecoder};
    use conjure_http::PathParams;
    r.states += 1;
    let text = v.to_string();
    let in_range = v.abs() <= MAX;
    let mut req = http::Request::new(());
    *req.uri_mut() = format!("/a/{}?k={}&l=1&l={}", text, text, text).parse().unwrap();
    req.headers_mut().insert("x-n", HeaderValue::from_str(&text).unwrap());
    let mut pp = PathParams::new();
    pp.insert("p", text.clone());
    req.extensions_mut().insert(pp);
    let (parts, _) = req.into_parts();
    let qp = parse_query_params(&parts);
    // outcome: Ok(values) / Err
    let e = |x: Result<Vec<SafeLong>, conjure_error::Error>| x.map(|v| v.iter().map(|s| **s as i128).collect::<Vec<_>>()).map_err(|e| e.cause().to_string());
    let runs: Vec<(&str, Result<Result<Vec<i128>, String>, String>, Vec<i128>)> = vec![
        ("query", vcommon::catch(|| e(query_param::<SafeLong, FromPlainDecoder>(rt, &qp, "k", "k").map(|x| vec![x]))), vec![v]),
        ("query-optional", vcommon::catch(|| e(query_param::<Option<SafeLong>, FromPlainOptionDecoder>(rt, &qp, "k", "k").map(|x| x.into_iter().collect()))), vec![v]),
        ("query-list", vcommon::catch(|| e(query_param::<Vec<SafeLong>, FromPlainSeqDecoder<SafeLong>>(rt, &qp, "l", "l"))), vec![1, v]),
        ("path", vcommon::catch(|| e(path_param::<SafeLong, FromPlainDecoder>(rt, &parts, "p", "p").map(|x| vec![x]))), vec![v]),
        ("path-optional", vcommon::catch(|| e(path_param::<Option<SafeLong>, FromPlainOptionDecoder>(rt, &parts, "p", "p").map(|x| x.into_iter().collect()))), vec![v]),
        ("header", vcommon::catch(|| e(header_param::<SafeLong, FromPlainDecoder>(rt, &parts, "x-n", "n").map(|x| vec![x]))), vec![v]),
        ("header-optional", vcommon::catch(|| e(header_param::<Option<SafeLong>, FromPlainOptionDecoder>(rt, &parts, "x-n", "n").map(|x| x.into_iter().collect()))), vec![v]),
    ];
    for (route, got, want) in runs {
        r.evaluations += 1;
        r.transitions += 1;
        let case = json!({"part": "http-param", "value": text, "route": route});
        match got {
            Err(p) => r.violation(format!("C15|http-param|{}|panic", route), format!("{} panicked on {}: {}", route, v, p), case),
            Ok(Ok(x)) if in_range && x == want => r.outcome("http-param:in-range-value-arrives"),
            Ok(Ok(x)) if in_range => r.violation(format!("C15|http-param|{}|value-altered", route), format!("{}: {} arrived as {:?}", route, v, x), case),
            Ok(Ok(x)) => r.violation(format!("C15|http-param|{}|out-of-range-not-refused", route), format!("{}: out-of-range {} was not refused: the handler would see {:?}", route, v, x), case),
            Ok(Err(e)) if in_range => r.violation(format!("C15|http-param|{}|in-range-rejected", route), format!("{}: in-range {} rejected: {}", route, v, e), case),
            Ok(Err(_)) => r.outcome("http-param:out-of-range-rejected"),
        }
    }
}

pub fn run(args: &Args) -> Report {
    let mut report = Report::new("C15", "exploration");
    let rt = ConjureRuntime::new();
    if let Some(path) = &args.replay {
        let v = vcommon::load_replay(path);
        let c = &v["case"];
        if c["part"] == "http-param" {
            params(&mut report, &rt, c["value"].as_str().unwrap().parse().unwrap());
            report.exhaustive = false;
            return report;
        }
        let s: Script = c["script"]
            .as_array()
            .unwrap()
            .iter()
            .map(|e| match e {
                serde_json::Value::String(s) if s == "empty" => Ev::Empty,
                serde_json::Value::String(s) if s == "pending" => Ev::Pending,
                serde_json::Value::String(_) => Ev::Err,
                o => Ev::Chunk(o["chunk"].as_array().unwrap().iter().map(|b| b.as_u64().unwrap() as u8).collect()),
            })
            .collect();
        if let Some(n) = c.get("limit").and_then(|n| n.as_u64()) {
            one_limited(&mut report, &rt, c["value"].as_str().unwrap().parse().unwrap(), &s, n as usize, c["content_length"].as_bool().unwrap_or(false));
        } else {
            one(&mut report, &rt, c["value"].as_str().unwrap().parse().unwrap(), &s);
        }
        report.exhaustive = false;
        return report;
    }
    let k = args.tier.pick(2usize, 3usize);
    let mut centres: Vec<i128> = vec![0, MAX, -MAX, 1 << 31, -(1 << 31), 1 << 63, -(1 << 63), 1 << 64, 10i128.pow(15), 10i128.pow(16), -(10i128.pow(16)), 1234, 9];
    if args.tier.is_thorough() {
        centres.extend([1 << 52, -(1 << 52), 10i128.pow(17), 1 << 100, 99, -99]);
    }
    for c in centres {
        for d in -2i128..=2 {
            let v = c + d;
            params(&mut report, &rt, v);
            let text = v.to_string();
            for (s, _) in script::explore(text.as_bytes(), k, true, true) {
                if script::has_err(&s) {
                    continue;
                }
                one(&mut report, &rt, v, &s);
            }
        }
    }
    for c in [MAX, -MAX, 10i128.pow(15), -(10i128.pow(15)), 10i128.pow(14), 10i128.pow(16) * 9 + 7199254740991, 1 << 60] {
        for d in -1i128..=1 {
            let v = c + d;
            let text = v.to_string();
            let mut scripts: Vec<Script> = script::explore(text.as_bytes(), 1, true, true).into_iter().map(|(s, _)| s).filter(|s| !script::has_err(s)).collect();
            for n in [1usize, 2, 3, 5, 8] {
                scripts.push(text.as_bytes().chunks(n).map(|c| Ev::Chunk(c.to_vec())).collect());
            }
            for s in &scripts {
                for limit in [15usize, 16, 17] {
                    for cl in [false, true] {
                        one_limited(&mut report, &rt, v, s, limit, cl);
                    }
                }
            }
        }
    }
    report.bound("size_limits", json!([15, 16, 17]));
    report.sample("http-body", json!({"value": "9007199254740992", "script": "chunk(\"9\") empty chunk(\"007199254740992\")", "expect": "rejected on every route"}));
    report.bound("http_body_deviations", k);
    report.nontrivial = report.states;
    report.rule = "http-body part: states = (integer, stream history): +-2 around 13 (thorough 19) boundary centres, each as a JSON request body and response body in every chunking within the deviation bound (split at every offset, empty chunks, pending polls), blocking and async; in range -> exactly that number, out of range -> an error".into();
    report
}
