//! Environment-answer scripts for body streams and the deviation-bounded explorer
//! (DESIGN §2.4). A script is a list of events; the default script for body B is
//! `[Chunk(B)]` (or `[]` when B is empty). Deviations, each of cost 1: split a chunk at an
//! offset, insert an empty chunk, insert a `Pending` poll (async only), replace the tail
//! from a position by a stream error.

use bytes::Bytes;
use conjure_error::Error;
use futures::Stream;
use std::collections::{BTreeSet, VecDeque};
use std::pin::Pin;
use std::task::{Context, Poll};

#[derive(Clone, Debug, PartialEq, Eq, PartialOrd, Ord, Hash)]
pub enum Ev {
    Chunk(Vec<u8>),
    Empty,
    Pending,
    Err,
}

pub type Script = Vec<Ev>;

pub const INJECTED: &str = "INJECTED-STREAM-ERROR";

pub fn injected_error() -> Error {
    Error::internal_safe(INJECTED)
}

pub fn is_injected(e: &Error) -> bool {
    e.cause().to_string() == INJECTED
}

pub fn default_script(body: &[u8]) -> Script {
    if body.is_empty() {
        vec![]
    } else {
        vec![Ev::Chunk(body.to_vec())]
    }
}

/// the bytes delivered before any error
pub fn delivered(s: &Script) -> Vec<u8> {
    let mut out = vec![];
    for e in s {
        match e {
            Ev::Chunk(b) => out.extend_from_slice(b),
            Ev::Err => break,
            _ => {}
        }
    }
    out
}

pub fn has_err(s: &Script) -> bool {
    s.contains(&Ev::Err)
}

pub fn text(s: &Script) -> String {
    s.iter()
        .map(|e| match e {
            Ev::Chunk(b) => format!("chunk({:?})", String::from_utf8_lossy(b)),
            Ev::Empty => "empty".to_string(),
            Ev::Pending => "pending".to_string(),
            Ev::Err => "ERR".to_string(),
        })
        .collect::<Vec<_>>()
        .join(" ")
}

fn successors(s: &Script, allow_pending: bool, split_offsets: &dyn Fn(usize) -> Vec<usize>) -> Vec<Script> {
    let mut out = vec![];
    if has_err(s) {
        // an error ends the stream: only deviations before it make sense
    }
    let end = s.iter().position(|e| *e == Ev::Err).unwrap_or(s.len());
    for i in 0..end {
        if let Ev::Chunk(b) = &s[i] {
            for off in split_offsets(b.len()) {
                if off == 0 || off >= b.len() {
                    continue;
                }
                let mut n = s.clone();
                n[i] = Ev::Chunk(b[..off].to_vec());
                n.insert(i + 1, Ev::Chunk(b[off..].to_vec()));
                out.push(n);
            }
        }
    }
    for i in 0..=end {
        let mut n = s.clone();
        n.insert(i, Ev::Empty);
        out.push(n);
        if allow_pending {
            let mut n = s.clone();
            n.insert(i, Ev::Pending);
            out.push(n);
        }
        if !has_err(s) {
            let mut n: Script = s[..i].to_vec();
            n.push(Ev::Err);
            out.push(n);
        }
    }
    out
}

/// every script reachable from the default with at most `k` deviations
pub fn explore(body: &[u8], k: usize, allow_pending: bool, all_offsets: bool) -> Vec<(Script, usize)> {
    let offsets = move |len: usize| -> Vec<usize> {
        if all_offsets || len <= 6 {
            (1..len).collect()
        } else {
            vec![1, 2, len / 2, len - 2, len - 1]
        }
    };
    let mut seen: BTreeSet<Script> = BTreeSet::new();
    let mut out = vec![];
    let mut frontier = vec![default_script(body)];
    seen.insert(frontier[0].clone());
    out.push((frontier[0].clone(), 0));
    for cost in 1..=k {
        let mut next = vec![];
        for s in &frontier {
            for n in successors(s, allow_pending, &offsets) {
                if seen.insert(n.clone()) {
                    out.push((n.clone(), cost));
                    next.push(n);
                }
            }
        }
        frontier = next;
    }
    out
}

thread_local! {
    /// how often a scripted body was advanced again after it had reported its end
    static AFTER_END: std::cell::Cell<u32> = std::cell::Cell::new(0);
}

/// reads and resets the count of polls a body received after its end (this thread)
pub fn take_after_end() -> u32 {
    AFTER_END.with(|c| c.replace(0))
}

/// a body that is not fused: what it would yield after `None` is not part of the message, so
/// being asked is recorded (and a stream, whose contract allows it, panics)
pub struct ScriptIter(pub VecDeque<Ev>, pub bool);

impl ScriptIter {
    pub fn new(s: &Script) -> ScriptIter {
        ScriptIter(s.iter().filter(|e| **e != Ev::Pending).cloned().collect(), false)
    }
}

impl Iterator for ScriptIter {
    type Item = Result<Bytes, Error>;
    fn next(&mut self) -> Option<Self::Item> {
        if self.0.is_empty() {
            if self.1 {
                AFTER_END.with(|c| c.set(c.get() + 1));
            }
            self.1 = true;
            return None;
        }
        match self.0.pop_front()? {
            Ev::Chunk(b) => Some(Ok(Bytes::from(b))),
            Ev::Empty => Some(Ok(Bytes::new())),
            Ev::Pending => self.next(),
            Ev::Err => {
                self.0.clear();
                Some(Err(injected_error()))
            }
        }
    }
}

pub struct ScriptStream(pub VecDeque<Ev>, pub bool);

impl ScriptStream {
    pub fn new(s: &Script) -> ScriptStream {
        ScriptStream(s.iter().cloned().collect(), false)
    }
}

impl Stream for ScriptStream {
    type Item = Result<Bytes, Error>;
    fn poll_next(mut self: Pin<&mut Self>, cx: &mut Context<'_>) -> Poll<Option<Self::Item>> {
        match self.0.pop_front() {
            None if self.1 => {
                AFTER_END.with(|c| c.set(c.get() + 1));
                panic!("body stream polled again after it reported its end");
            }
            None => {
                self.1 = true;
                Poll::Ready(None)
            }
            Some(Ev::Pending) => {
                cx.waker().wake_by_ref();
                Poll::Pending
            }
            Some(Ev::Chunk(b)) => Poll::Ready(Some(Ok(Bytes::from(b)))),
            Some(Ev::Empty) => Poll::Ready(Some(Ok(Bytes::new()))),
            Some(Ev::Err) => {
                self.0.clear();
                Poll::Ready(Some(Err(injected_error())))
            }
        }
    }
}
