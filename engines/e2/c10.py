"""C10 — unknown enum values and union variants survive a round trip unless exhaustive."""
import itertools
import json

import model as M


def enum_names(thorough):
    alpha = ["A", "Z", "0", "9", "_"]
    out = []
    for n in (1, 2, 3) if thorough else (1, 2):
        for w in itertools.product(alpha, repeat=n):
            out.append("".join(w))
    out += ["GREY_5", "ISO_8601", "X__Y", "PANTONE_2_C", "A_", "VERSION_2", "UNKNOWN", "LONGER_NAME_WITH_WORDS_123", "T" * 70]
    # names that read as numbers / booleans / non-finite doubles to a lenient key parser
    out += ["INF", "NAN", "INFINITY", "TRUE", "FALSE", "1E3", "0X10", "123", "007", "NULL", "E"]
    return out


ILL_FORMED = ["one", "", " ", "A B", "A-B", "É", "One", "a", "A.B", "A\n", " A", "A "]

PAIR_PAYLOADS = [("9007199254740993", "9007199254740992"), ("18446744073709551615", "18446744073709551614"), ("[1,\"x\"]", "[1.0,\"x\"]"), ("{\"a\":-9007199254740993}", "{\"a\":-9007199254740992}"), ("1", "1.0"), ("0", "-0.0")]

PAYLOADS = [None, True, 0, -1.5, -2**63, 2**64 - 1, "NaN", "", "s", [], [1, [2]], {}, {"type": "x"}, {"a": {"b": [None]}}, {"zz": 1}, [None, {"k": "Infinity"}], 1e300,
            # doubles that need correctly rounded parsing (16-17 significant digits, extreme exponents)
            123456789.12345679, 0.9856906946328695, [914.0641164648499, 9.335744933994957e-17, 5e-324, 1.7976931348623157e308, -122.41941550000001], {"d": 906.7979265841685},
            # member names that read as numbers / booleans (a carrier must keep them as the strings they are)
            {"007": True}, {"1e3": 1, "true": 2, "-0": None}, {"NaN": 1, "Infinity": 2}, {"+1": 1, " 1": 2, "1.0": [{"01": 2}]}, {"18446744073709551616": 0, "1": 1, "01": 2}]

UNLISTED_VARIANTS = ["zz", "Zz", "zzTop", "z_z", "z-z", "a b", "ünï", "", "V" * 70, "unknownVariant"]


def run(a, rep, TypesBuild, tref):
    tb = TypesBuild(a.tier, rep)
    if not tb.build():
        return
    thorough = a.tier == "thorough"
    only = a.replay_case
    names = enum_names(thorough)
    # results per (type, doc) under the non-exhaustive config, to compare listed inputs across configs
    listed_reser = {}
    leaf_cases = {}
    for ci, ch, name, kind, shape, cname, cfg in tb.each_type():
        if kind not in ("enum", "union"):
            continue
        if only and only.get("part") == "holder":
            if name not in ("E", "Un") or only.get("config") != cname:
                continue
        elif only and (only.get("type") != name or only.get("config") != cname):
            continue
        if kind == "union" and shape is not None and not thorough and shape.depth > 0:
            continue  # quick: the unions over leaf shapes + the special families
        model = M.Model(ch["ir"], M.Cfg(cfg["exhaustive"], cfg["serialize_empty"]))
        t = tref(name)
        d = model.definition(t)
        # the emitted type has an Unknown variant exactly in the non-exhaustive configuration
        emitted = tb.has_unknown[(ci, cname)].get(name)
        if emitted is not None and emitted != (not cfg["exhaustive"]):
            rep.violation("C10|unknown-variant-%s|%s|%s" % ("missing" if not emitted else "present-although-exhaustive", kind, "exhaustive" if cfg["exhaustive"] else "default"),
                          "%s %s generated with exhaustive=%s serializeEmptyCollections=%s %s an Unknown variant" % (kind, name, cfg["exhaustive"], cfg["serialize_empty"], "has" if emitted else "lacks"),
                          {"type": name, "config": cname, "doc": "null", "side": "c"})
        cases = []  # (text, class, expected-name)
        unk_prefix = "Unknown("
        if kind == "union" and any(f["fieldName"] == "unknown" for f in d["union"]):
            unk_prefix = "Unknown_("
        if kind == "enum":
            listed = [v["value"] for v in d["values"]]
            for v in listed:
                cases.append((json.dumps(v), "listed", v))
            for n in names:
                if n not in listed:
                    cases.append((json.dumps(n), "unlisted", n))
            for n in ILL_FORMED:
                cases.append((json.dumps(n), "ill-formed", n))
        else:
            variants = [f["fieldName"] for f in d["union"]]
            for doc in model.docs(t):
                if model.valid(t, doc) and doc.get("type") in variants:
                    cases.append((M.dumps(doc), "listed", doc["type"]))
            for vn in UNLISTED_VARIANTS:
                if vn in variants or vn == "type":
                    continue
                for i, p in enumerate(PAYLOADS if vn == "zz" or thorough else PAYLOADS[:4]):
                    cases.append(("{\"type\":%s,%s:%s}" % (json.dumps(vn), json.dumps(vn), json.dumps(p)), "unlisted", vn))
                    if i < 6:
                        cases.append(("{%s:%s,\"type\":%s}" % (json.dumps(vn), json.dumps(p), json.dumps(vn)), "unlisted", vn))
        if name in ("E", "Un"):
            leaf_cases[(name, cname)] = cases
        rep.states += len(cases)
        resp = tb.probe(ci).ask({"ty": "%s:%s" % (cname, name), "op": "de", "docs": [c[0] for c in cases]})
        if "results" not in resp:
            rep.cap("probe error for %s: %s" % (name, resp))
            continue
        label = "%s:%s" % (kind, name if shape is None else "union{%s}" % shape.text)
        # the same documents as Smile (rendered by plain serde_smile): sides "C" / "S"
        sresp = tb.probe(ci).ask({"ty": "%s:%s" % (cname, name), "op": "smile_raw", "docs": [c[0] for c in cases]})
        sres = sresp.get("results") or [{}] * len(cases)
        for (text, cls, nm), res, sm in zip(cases, resp["results"], sres):
            res = dict(res)
            # listed union members are typed: their JSON spelling of uuid / binary / non-finite
            # doubles is not the Smile one (C02 sends those through Conjure's own Smile
            # serializer); enum names and unlisted variants (payload = any) are encoding-neutral
            if "skip" not in sm and not _wide(text) and (kind == "enum" or cls != "listed"):
                res["C"], res["S"] = sm.get("c"), sm.get("s")
            for side in ("c", "s", "a", "C", "S"):
                r = res.get(side)
                if r is None:
                    continue
                rep.evaluations += 1
                rep.transitions += 1
                case = {"type": name, "config": cname, "doc": text, "side": side}
                where = {"c": "client", "s": "server", "a": "any", "C": "smile-client", "S": "smile-server"}[side]
                sig = lambda k: "C10|%s|%s|%s|%s" % (k, where, label, "exhaustive" if cfg["exhaustive"] else "default")
                if r.get("panic"):
                    rep.violation(sig("panic"), "%s panicked on %s" % (label, text), case)
                    continue
                if cls == "listed":
                    if not r["ok"]:
                        rep.violation(sig("listed-rejected"), "%s [%s]: listed %s is rejected (%s): %s" % (label, cname, text, where, r.get("err")), case)
                    elif r.get("dbg", "").startswith(unk_prefix) and kind == "enum":
                        rep.violation(sig("listed-classified-as-unknown"), "%s [%s]: listed value %s is classified as unknown: %s" % (label, cname, text, r.get("dbg")), case)
                    elif kind == "union" and r.get("dbg", "").startswith(unk_prefix):
                        rep.violation(sig("listed-classified-as-unknown"), "%s [%s]: listed variant %s is classified as unknown: %s" % (label, cname, text, r.get("dbg")), case)
                    else:
                        key = (name, text, side)
                        if key in listed_reser and listed_reser[key] != r.get("reser") and not _json_eq(listed_reser[key], r.get("reser")) and not cfg["serialize_empty"]:
                            rep.violation(sig("listed-differs-across-configs"), "%s: %s re-serializes to %s here and to %s under another configuration" % (label, text, r.get("reser"), listed_reser[key]), case)
                        listed_reser.setdefault(key, r.get("reser"))
                        rep.outcome("listed:classified-as-itself")
                elif cls == "ill-formed":
                    if r["ok"]:
                        rep.violation(sig("ill-formed-name-accepted"), "%s [%s]: ill-formed enum name %s is accepted (%s) as %s" % (label, cname, text, where, r.get("dbg")), case)
                    else:
                        rep.outcome("ill-formed:rejected")
                else:
                    if cfg["exhaustive"]:
                        if r["ok"]:
                            rep.violation(sig("unlisted-accepted-when-exhaustive"), "%s [%s, exhaustive]: unlisted %s is accepted (%s) as %s" % (label, cname, text, where, r.get("dbg")), case)
                        else:
                            rep.outcome("unlisted:rejected-when-exhaustive")
                        continue
                    if not r["ok"]:
                        rep.violation(sig("unlisted-rejected"), "%s [%s]: unlisted but well-formed %s is rejected (%s): %s" % (label, cname, text, where, r.get("err")), case)
                        continue
                    want = json.loads(text)
                    got = json.loads(r["reser"]) if r.get("reser") else None
                    if not M._any_equal(want, got):
                        rep.violation(sig("unlisted-not-preserved"), "%s [%s]: %s re-serializes to %s (%s)" % (label, cname, text, r.get("reser"), where), case)
                    elif not r.get("dbg", "").startswith(unk_prefix):
                        rep.violation(sig("unlisted-not-classified-unknown"), "%s [%s]: %s is not classified as unknown: %s" % (label, cname, text, r.get("dbg")), case)
                    elif r.get("name") is not None and r["name"] != nm:
                        rep.violation(sig("unlisted-name-not-exposed"), "%s [%s]: %s exposes the name %r" % (label, cname, text, r.get("name")), case)
                    else:
                        rep.outcome("unlisted:preserved")
        # the other way in: the text itself through FromPlain / FromStr (path, query and header
        # parameters arrive like this) classifies every name the same way
        if kind == "enum":
            texts = [(json.loads(c[0]), c[1]) for c in cases if c[1] != "ill-formed"]
            rep.states += len(texts)
            presp = tb.probe(ci).ask({"ty": "plain:%s:%s" % (cname, name), "op": "from_plain", "docs": [t_[0] for t_ in texts]})
            for (text, cls), r in zip(texts, presp.get("results") or []):
                rep.evaluations += 1
                rep.transitions += 1
                case = {"type": name, "config": cname, "doc": json.dumps(text), "side": "p"}
                sig = lambda k: "C10|%s|from-plain|%s|%s" % (k, label, "exhaustive" if cfg["exhaustive"] else "default")
                if r.get("panic"):
                    rep.violation(sig("panic"), "%s: from_plain(%r) panicked" % (label, text), case)
                elif cls == "listed":
                    if not r["ok"]:
                        rep.violation(sig("listed-rejected"), "%s [%s]: listed value %s is rejected by FromPlain / FromStr" % (label, cname, text), case)
                    elif r["dbg"].startswith("Unknown("):
                        rep.violation(sig("listed-classified-as-unknown"), "%s [%s]: FromPlain / FromStr classify listed value %s as %s" % (label, cname, text, r["dbg"]), case)
                    elif r["plain"] != text or r["json"] != json.dumps(text):
                        rep.violation(sig("listed-not-itself"), "%s [%s]: FromPlain / FromStr turn listed value %s into %s / %s" % (label, cname, text, r["plain"], r["json"]), case)
                    else:
                        rep.outcome("from-plain:listed:classified-as-itself")
                elif cfg["exhaustive"]:
                    if r["ok"]:
                        rep.violation(sig("unlisted-accepted-when-exhaustive"), "%s [%s, exhaustive]: FromPlain / FromStr accept unlisted %s as %s" % (label, cname, text, r["dbg"]), case)
                    else:
                        rep.outcome("from-plain:unlisted:rejected-when-exhaustive")
                elif not r["ok"]:
                    rep.violation(sig("unlisted-rejected"), "%s [%s]: FromPlain / FromStr reject the unlisted but well-formed %s" % (label, cname, text), case)
                elif not r["dbg"].startswith("Unknown(") or r["plain"] != text or r["json"] != json.dumps(text):
                    rep.violation(sig("unlisted-not-preserved"), "%s [%s]: FromPlain / FromStr turn unlisted %s into %s (text %s)" % (label, cname, text, r["dbg"], r["plain"]), case)
                else:
                    rep.outcome("from-plain:unlisted:preserved")
        # a run of documents that break off inside an unlisted variant's payload (same process, same
        # thread) must leave nothing behind: the well-formed nested payloads after it still survive
        if kind == "union" and not cfg["exhaustive"] and name in ("Un", "Union3", "Union1"):
            broken = ['{"type":"zz","zz":{"a":[[[{"b":[{"c":', '{"zz":[[[[[[1,', '{"type":"zz","zz":[{"a":{"b":{"c":[[', '{"type":"zz","zz":{"a":{"a":{"a":{"a":{"a":"x'] * 40
            nested = ['{"type":"zz","zz":{"a":{"b":[[1,{"c":null}]]}}}', '{"zz":[[[{"k":[]}]]],"type":"zz"}', '{"type":"zz","zz":[]}', '{"type":"zz","zz":{}}']
            rep.states += len(nested)
            resp2 = tb.probe(ci).ask({"ty": "%s:%s" % (cname, name), "op": "de", "docs": broken + nested})
            for text, res in zip(nested, (resp2.get("results") or [])[len(broken):]):
                for side in ("c", "s", "a"):
                    r = res.get(side)
                    if r is None:
                        continue
                    rep.evaluations += 1
                    case = {"type": name, "config": cname, "doc": text, "side": side, "part": "after-broken"}
                    if not r.get("ok") or not _json_eq(text, r.get("reser") or "null"):
                        rep.violation("C10|after-broken-documents|unlisted-not-preserved|%s|%s" % (side, label), "%s [%s]: after 160 documents that break off inside an unlisted payload, %s gives %s (%s)" % (label, cname, text, r.get("reser") or r.get("err"), side), case)
                    else:
                        rep.outcome("unlisted:preserved-after-broken-documents")
        rep.sample(label, {"type": label, "config": cname, "documents": [c[0] for c in cases[:2]] + [c[0] for c in cases if c[1] == "unlisted"][:3]})
    if not (only and only.get("part") != "holder"):
        holders(a, rep, tb, tref, leaf_cases)
    tb.close()
    rep.bounds.update({"enum_names": len(names), "ill_formed_names": len(ILL_FORMED), "payloads": len(PAYLOADS), "unlisted_variant_names": len(UNLISTED_VARIANTS)})
    rep.rule = ("states = (enum / union type, configuration, document): enums with 1 / 2 / 3 values and unions with 0 / 1 / 2 / 3 variants (incl. one named `unknown`) plus one union per leaf shape; "
                "inputs = every listed value / variant document, unlisted enum names over [A-Z0-9_] up to the length bound and multi-word names, ill-formed names, unlisted variant names x JSON payloads in both member orders; "
                "through the client and server deserializers and through `any`, under the default and the exhaustive configuration")
    rep.assumptions.append("an enum value named UNKNOWN and an empty enum are rejected by the Conjure compiler and are not enumerated")


def _embed(t, leaf, doc, key_text):
    """the document of shape `t` holding `doc` (JSON text) at its only reference to `leaf`;
    None when the shape holds anything else that needs a value"""
    k = t["type"]
    if k == "reference":
        return doc if t["reference"]["name"] == leaf else None
    if k == "optional":
        return _embed(t["optional"]["itemType"], leaf, doc, key_text)
    if k in ("list", "set"):
        inner = _embed(t[k]["itemType"], leaf, doc, key_text)
        return None if inner is None else "[%s]" % inner
    if k == "map":
        kt, vt = t["map"]["keyType"], t["map"]["valueType"]
        if kt["type"] == "primitive" and kt["primitive"] == "STRING":
            inner = _embed(vt, leaf, doc, key_text)
            return None if inner is None else "{\"k\":%s}" % inner
        if kt["type"] == "reference" and kt["reference"]["name"] == leaf and key_text is not None and vt["type"] == "primitive" and vt["primitive"] == "STRING":
            return "{%s:\"v\"}" % key_text
    return None


def holders(a, rep, tb, tref, leaf_cases):
    """the same inputs one level (and more) down: every generated object {f: S}, union {v: S}
    and alias = S whose shape S holds the enum E / the union Un and nothing else — the value sits
    in a field, an optional field, a list / set item, a map value or (enums) a map key. Oracle by
    acceptance and re-serialization only (the holder's Debug text does not classify)."""
    only = a.replay_case
    for ci, ch, name, kind, shape, cname, cfg in tb.each_type():
        if shape is None or kind not in ("object", "union", "alias"):
            continue
        if only and (only.get("type") != name or only.get("config") != cname):
            continue
        for leaf in ("E", "Un"):
            cases = []
            for text, cls, nm in leaf_cases.get((leaf, cname), []):
                inner = _embed(shape.ir, leaf, text, text if leaf == "E" else None)
                if inner is None:
                    break
                doc = {"object": "{\"f\":%s}", "union": "{\"type\":\"v\",\"v\":%s}", "alias": "%s"}[kind] % inner
                cases.append((doc, cls, nm))
            if not cases:
                continue
            rep.states += len(cases)
            docs = [c[0] for c in cases]
            resp = tb.probe(ci).ask({"ty": "%s:%s" % (cname, name), "op": "de", "docs": docs})
            if "results" not in resp:
                rep.cap("probe error for %s: %s" % (name, resp))
                continue
            sresp = tb.probe(ci).ask({"ty": "%s:%s" % (cname, name), "op": "smile_raw", "docs": docs})
            sres = sresp.get("results") or [{}] * len(cases)
            label = "%s{%s}" % (kind, shape.text)
            for (text, cls, nm), res, sm in zip(cases, resp["results"], sres):
                res = dict(res)
                if "skip" not in sm and not _wide(text):
                    res["C"], res["S"] = sm.get("c"), sm.get("s")
                for side in ("c", "s", "a", "C", "S"):
                    r = res.get(side)
                    if r is None:
                        continue
                    rep.evaluations += 1
                    rep.transitions += 1
                    case = {"type": name, "config": cname, "doc": text, "side": side, "part": "holder"}
                    where = {"c": "client", "s": "server", "a": "any", "C": "smile-client", "S": "smile-server"}[side]
                    sig = lambda k: "C10|holder|%s|%s|%s|%s" % (k, where, label, "exhaustive" if cfg["exhaustive"] else "default")
                    if r.get("panic"):
                        rep.violation(sig("panic"), "%s panicked on %s" % (label, text), case)
                    elif cls == "ill-formed":
                        if r["ok"]:
                            rep.violation(sig("ill-formed-name-accepted"), "%s [%s]: %s (ill-formed enum name inside) is accepted (%s)" % (label, cname, text, where), case)
                        else:
                            rep.outcome("holder:ill-formed:rejected")
                    elif cls == "unlisted" and cfg["exhaustive"]:
                        if r["ok"]:
                            rep.violation(sig("unlisted-accepted-when-exhaustive"), "%s [%s, exhaustive]: %s (unlisted %s inside) is accepted (%s)" % (label, cname, text, nm, where), case)
                        else:
                            rep.outcome("holder:unlisted:rejected-when-exhaustive")
                    elif not r["ok"]:
                        rep.violation(sig("%s-rejected" % cls), "%s [%s]: %s (%s %s inside) is rejected (%s): %s" % (label, cname, text, cls, nm, where, r.get("err")), case)
                    elif side in ("c", "s", "a") and not _json_eq(text, r.get("reser") or "null"):
                        rep.violation(sig("%s-not-preserved" % cls), "%s [%s]: %s re-serializes to %s (%s)" % (label, cname, text, r.get("reser"), where), case)
                    else:
                        rep.outcome("holder:%s:preserved" % cls)
            rep.sample("holder:" + label, {"type": label, "config": cname, "documents": docs[:1] + [c[0] for c in cases if c[1] == "unlisted"][:2]})
            # two unlisted variants of one name in one list / set whose payloads differ only in how a
            # number is written (beyond 2^53, integer vs fraction): both survive, each as itself
            frame = _embed(shape.ir, leaf, "@@", None) if leaf == "Un" and not cfg["exhaustive"] else None
            if frame is not None and "[@@]" in frame:
                pdocs = []
                for pa, pb in PAIR_PAYLOADS:
                    two = "%s,%s" % tuple("{\"type\":\"zz\",\"zz\":%s}" % x for x in (pa, pb))
                    pdocs.append(({"object": "{\"f\":%s}", "union": "{\"type\":\"v\",\"v\":%s}", "alias": "%s"}[kind] % frame.replace("[@@]", "[%s]" % two), pa, pb))
                rep.states += len(pdocs)
                presp = tb.probe(ci).ask({"ty": "%s:%s" % (cname, name), "op": "de", "docs": [d[0] for d in pdocs]})
                for (text, pa, pb), res in zip(pdocs, presp.get("results") or []):
                    for side in ("c", "s", "a"):
                        r = res.get(side)
                        if r is None:
                            continue
                        rep.evaluations += 1
                        rep.transitions += 1
                        case = {"type": name, "config": cname, "doc": text, "side": side, "part": "holder"}
                        out = r.get("reser") or ""
                        digits = [x for x in (pa, pb) if x.isdigit()]
                        if not r.get("ok"):
                            rep.violation("C10|holder|pair-rejected|%s|%s" % (side, label), "%s [%s]: %s is rejected (%s): %s" % (label, cname, text, side, r.get("err")), case)
                        elif out.count("\"zz\"") != 4 or any(d not in out for d in digits):
                            rep.violation("C10|holder|pair-not-preserved|%s|%s" % (side, label), "%s [%s]: two unlisted variants %s / %s in one collection come back as %s (%s)" % (label, cname, pa, pb, out, side), case)
                        else:
                            rep.outcome("holder:pair-of-unlisted:both-preserved")


def _wide(text):
    """integers beyond i64 have no common Smile rendering between serde_json and Smile readers"""
    import re
    return any(len(m.lstrip("-")) >= 19 for m in re.findall(r"-?\d+", text))


def _json_eq(a, b):
    try:
        return M._any_equal(json.loads(a), json.loads(b))
    except Exception:
        return False
