"""Program spaces for E2: type shapes of the Conjure grammar and the IR documents built
from them."""
import os
import sys

sys.path.insert(0, os.path.join(os.path.dirname(os.path.abspath(__file__)), "..", "..", "lib"))
from conjure_ir import *  # noqa

PKG = "com.verif"


def R(n):
    return ref(n, PKG)


FIXED_TYPES = [
    enum("E", ["ONE", "TWO"], PKG),
    obj("Obj", [field("a", prim("INTEGER")), field("b", opt(prim("STRING")))], PKG),
    obj("ObjD", [field("d", prim("DOUBLE")), field("l", lst(prim("DOUBLE")))], PKG),
    union("Un", [field("x", prim("STRING")), field("y", prim("INTEGER"))], PKG),
    alias("AliasStr", prim("STRING"), PKG),
    alias("AliasDbl", prim("DOUBLE"), PKG),
    alias("AliasOpt", opt(prim("STRING")), PKG),
    alias("AliasList", lst(prim("INTEGER")), PKG),
    alias("AliasAlias", R("AliasOpt"), PKG),
    alias("AliasAliasList", R("AliasList"), PKG),
    alias("AliasMap", mp(prim("STRING"), prim("INTEGER")), PKG),
    alias("AliasAliasMap", R("AliasMap"), PKG),
    alias("AliasBin", prim("BINARY"), PKG),
]

EXT = external("Foreign", "com.elsewhere", prim("STRING"))

PRIM_LEAVES = [(p.lower(), prim(p)) for p in PRIMS]
REF_LEAVES = [("E", R("E")), ("Obj", R("Obj")), ("ObjD", R("ObjD")), ("Un", R("Un")), ("AliasStr", R("AliasStr")), ("AliasDbl", R("AliasDbl")),
              ("AliasOpt", R("AliasOpt")), ("AliasList", R("AliasList")), ("AliasAlias", R("AliasAlias")), ("AliasBin", R("AliasBin")), ("Ext", EXT),
              ("AliasAliasList", R("AliasAliasList")), ("AliasAliasMap", R("AliasAliasMap"))]
OPTIONAL_LIKE = {"AliasOpt", "AliasAlias"}

KEYS_FULL = [("string", prim("STRING")), ("integer", prim("INTEGER")), ("safelong", prim("SAFELONG")), ("double", prim("DOUBLE")), ("boolean", prim("BOOLEAN")),
             ("uuid", prim("UUID")), ("rid", prim("RID")), ("bearertoken", prim("BEARERTOKEN")), ("datetime", prim("DATETIME")), ("binary", prim("BINARY")),
             ("E", R("E")), ("AliasStr", R("AliasStr")), ("AliasDbl", R("AliasDbl"))]
KEYS_QUICK = [KEYS_FULL[0], KEYS_FULL[3], KEYS_FULL[10]]


class Shape:
    def __init__(self, text, ir, depth, optional_like=False, has_double=False, value_double=False):
        self.text = text
        self.ir = ir
        self.depth = depth
        self.optional_like = optional_like
        # contains a double somewhere / contains a double that is generated as bare f64 when
        # the shape sits below a set or key position (map *values* are generated with key=false)
        self.has_double = has_double
        self.value_double = value_double


def leaf_shapes():
    out = []
    for n, t in PRIM_LEAVES + REF_LEAVES:
        out.append(Shape(n, t, 0, optional_like=n in OPTIONAL_LIKE, has_double=n in ("double", "AliasDbl", "ObjD")))
    return out


def wrap(shapes, keys, allow_keys_in_sets=True):
    out = []
    for s in shapes:
        if not s.optional_like and not s.text.startswith("optional<"):
            out.append(Shape("optional<%s>" % s.text, opt(s.ir), s.depth + 1, True, s.has_double, s.value_double))
        out.append(Shape("list<%s>" % s.text, lst(s.ir), s.depth + 1, False, s.has_double, s.value_double))
        # a map value holding a bare double cannot sit below a set (known finding, C03)
        out.append(Shape("set<%s>" % s.text, st(s.ir), s.depth + 1, False, s.has_double, s.value_double))
        for kn, kt in keys:
            vd = s.value_double or s.text in ("double",) or (s.has_double and s.text.startswith(("optional<", "list<")) and "double" in s.text)
            out.append(Shape("map<%s,%s>" % (kn, s.text), mp(kt, s.ir), s.depth + 1, False, s.has_double or kn in ("double", "AliasDbl"), vd))
    return out


def _bare_double(t):
    """a double emitted as bare f64: reached through optional / list only"""
    k = t["type"]
    if k == "primitive":
        return t["primitive"] == "DOUBLE"
    if k in ("optional", "list"):
        return _bare_double(t[k]["itemType"])
    if k == "map":
        return _bare_double(t["map"]["valueType"])
    return False


def _ord_violation(t, ord_required):
    k = t["type"]
    if k in ("optional", "list"):
        return _ord_violation(t[k]["itemType"], ord_required)
    if k == "set":
        return _ord_violation(t["set"]["itemType"], True)
    if k == "map":
        v = t["map"]["valueType"]
        if ord_required and _bare_double(v):
            return True
        return _ord_violation(v, ord_required)
    return False


def compilable(s):
    """excludes the shape class of a recorded C03 finding so that the *shared* build of C02 /
    C10 / C14 is not lost to it: a map whose value holds a bare double, below a set"""
    return not _ord_violation(s.ir, False)


def shapes(depth, thorough):
    l0 = leaf_shapes()
    if depth == 0:
        return l0
    keys = KEYS_FULL if thorough else KEYS_QUICK
    if thorough:
        base1 = l0
    else:
        keep = {"string", "double", "binary", "any", "integer", "datetime", "Obj", "ObjD", "E", "Un", "AliasDbl", "AliasOpt", "AliasList"}
        base1 = [s for s in l0 if s.text in keep]
    l1 = wrap(base1, keys)
    if depth == 1:
        return l0 + l1
    keep2 = {"optional<double>", "list<double>", "set<double>", "map<string,double>", "map<double,string>", "list<Obj>", "optional<Obj>", "map<string,Obj>", "list<any>", "map<string,any>",
             "optional<binary>", "list<AliasOpt>", "set<ObjD>", "map<E,AliasDbl>", "list<string>", "set<string>", "map<string,string>", "optional<AliasList>", "list<Un>"}
    base2 = l1 if thorough else [s for s in l1 if s.text in keep2]
    l2 = wrap(base2, KEYS_QUICK if not thorough else [KEYS_FULL[0], KEYS_FULL[3], KEYS_FULL[10], KEYS_FULL[5]])
    return l0 + l1 + l2


def types_for_shapes(shs, start=0):
    """one object {f: S}, one union {v: S, w: integer}, one alias = S per shape"""
    types = []
    index = []
    for i, s in enumerate(shs):
        n = start + i
        types.append(obj("O%d" % n, [field("f", s.ir)], PKG))
        types.append(union("U%d" % n, [field("v", s.ir), field("w", prim("INTEGER"))], PKG))
        types.append(alias("A%d" % n, s.ir, PKG))
        for k in ("O", "U", "A"):
            index.append(("%s%d" % (k, n), {"O": "object", "U": "union", "A": "alias"}[k], s))
    return types, index


def special_types():
    """recursion family, field-count family, enum / union families for C10"""
    S, I, D = prim("STRING"), prim("INTEGER"), prim("DOUBLE")
    t = [
        # recursion through optional / list / set / map value / union / alias inside the cycle
        obj("RecOpt", [field("next", opt(R("RecOpt"))), field("v", I)], PKG),
        obj("RecList", [field("kids", lst(R("RecList"))), field("d", D)], PKG),
        obj("RecSet", [field("kids", st(R("RecSet"))), field("v", I)], PKG),
        obj("RecMap", [field("kids", mp(S, R("RecMap")))], PKG),
        obj("RecA", [field("u", opt(R("RecU")))], PKG),
        union("RecU", [field("a", R("RecA")), field("leaf", D), field("self", lst(R("RecU")))], PKG),
        alias("RecAlias", opt(R("RecViaAlias")), PKG),
        obj("RecViaAlias", [field("next", R("RecAlias")), field("v", S)], PKG),
        # field counts
        obj("Empty", [], PKG),
        obj("One", [field("only", S)], PKG),
        obj("Four", [field("fooBar", S), field("type", I), field("b", prim("BOOLEAN")), field("last_one", D), field("opt", opt(S)), field("xs", lst(I))], PKG),
        obj("AllOptional", [field("a", opt(S)), field("b", lst(S)), field("c", st(S)), field("d", mp(S, S)), field("e", R("AliasOpt")), field("f", R("AliasList")), field("g", opt(R("AliasList")))], PKG),
        # the three spellings Conjure admits for member names
        obj("Cases", [field("kebab-field", S), field("snake_field", I), field("camelField", opt(S)), field("x2y", lst(I)), field("a-b-c", opt(D))], PKG),
        union("CasesU", [field("kebab-variant", S), field("snake_variant", I), field("camelVariant", R("Cases"))], PKG),
        # enums: 0 / 1 / 3 values, one named UNKNOWN
        enum("Enum1", ["SOLE"], PKG),
        enum("Enum3", ["ONE", "TWO_2", "UNKNOWN_VALUE"], PKG),
        # values whose order as wire names differs from their order as Rust identifiers
        enum("EnumOrd", ["INACTIVE", "IN_PROGRESS", "READ_ONLY", "READABLE", "A_B", "AB", "B1", "B_2", "Z", "A"], PKG),
        # unions: 0 / 1 / 3 variants, one named unknown
        union("Union0", [], PKG),
        union("Union1", [field("only", S)], PKG),
        union("Union3", [field("unknown", S), field("obj", R("Obj")), field("maybe", opt(I))], PKG),
        # single-member unions holding doubles (the derived order reads the discriminant of a
        # one-variant enum too): bare, in a list, inside a payload larger than the Unknown variant
        union("UnionD1", [field("only", D)], PKG),
        union("UnionD1List", [field("xs", lst(D))], PKG),
        obj("BigD", [field("a", D), field("b", S), field("c", lst(D)), field("d", opt(D)), field("e", mp(S, D)), field("f", I), field("g", S), field("h", opt(S))], PKG),
        union("UnionD1Big", [field("big", R("BigD"))], PKG),
        union("UnionD2", [field("x", D), field("y", lst(opt(D)))], PKG),
    ]
    idx = [(x[x["type"]]["typeName"]["name"], x["type"], None) for x in t]
    return t, idx


def types_ir(depth, thorough):
    shs = [s for s in shapes(depth, thorough) if compilable(s)]
    types, index = types_for_shapes(shs)
    sp, spidx = special_types()
    return ir(FIXED_TYPES + types + sp), index + spidx + [("E", "enum", None), ("Obj", "object", None), ("ObjD", "object", None), ("Un", "union", None)], shs
