"""Reference model of the Conjure wire format for one IR (independent of the generator):
validity of a JSON document for a type, the canonical re-serialization, an enumerator of
valid documents and a catalogue of single-fault mutations."""
import copy
import json

ABSENT = object()  # marker: field not present


class Cfg:
    def __init__(self, exhaustive=False, serialize_empty=False):
        self.exhaustive = exhaustive
        self.serialize_empty = serialize_empty


def key_of(ref):
    return ref["package"] + "." + ref["name"]


class Model:
    def __init__(self, ir, cfg):
        self.cfg = cfg
        self.types = {}
        for t in ir["types"]:
            kind = t["type"]
            self.types[key_of(t[kind]["typeName"])] = t

    # ------------------------------------------------------------ type helpers
    def deref(self, t):
        """follow aliases and external fallbacks to a structural type"""
        while True:
            if t["type"] == "reference":
                d = self.types[key_of(t["reference"])]
                if d["type"] == "alias":
                    t = d["alias"]["alias"]
                    continue
                return t
            if t["type"] == "external":
                t = t["external"]["fallback"]
                continue
            return t

    def kind(self, t):
        t = self.deref(t)
        if t["type"] == "reference":
            return self.types[key_of(t["reference"])]["type"]  # object / union / enum
        if t["type"] == "primitive":
            return t["primitive"].lower()
        return t["type"]

    def definition(self, t):
        t = self.deref(t)
        d = self.types[key_of(t["reference"])]
        return d[d["type"]]

    def is_optional(self, t):
        return self.kind(t) == "optional"

    def is_collection(self, t):
        return self.kind(t) in ("list", "set", "map")

    # ------------------------------------------------------------ validity
    def valid(self, t, doc):
        k = self.kind(t)
        dt = self.deref(t)
        if k == "string":
            return isinstance(doc, str)
        if k == "boolean":
            return isinstance(doc, bool)
        if k == "integer":
            return isinstance(doc, int) and not isinstance(doc, bool) and -2**31 <= doc < 2**31
        if k == "safelong":
            return isinstance(doc, int) and not isinstance(doc, bool) and abs(doc) <= 2**53 - 1
        if k == "double":
            if isinstance(doc, bool):
                return False
            return isinstance(doc, (int, float)) or doc in ("NaN", "Infinity", "-Infinity")
        if k == "uuid":
            return isinstance(doc, str) and _is_uuid(doc)
        if k == "rid":
            return isinstance(doc, str) and _is_rid(doc)
        if k == "bearertoken":
            return isinstance(doc, str) and _is_token(doc)
        if k == "binary":
            return isinstance(doc, str) and _is_base64(doc)
        if k == "datetime":
            return isinstance(doc, str) and _is_datetime(doc)
        if k == "any":
            return doc is not None
        if k == "optional":
            return doc is None or self.valid(dt["optional"]["itemType"], doc)
        if k == "list":
            return isinstance(doc, list) and all(self.valid(dt["list"]["itemType"], x) for x in doc)
        if k == "set":
            return isinstance(doc, list) and all(self.valid(dt["set"]["itemType"], x) for x in doc)
        if k == "map":
            return isinstance(doc, dict) and all(self.valid_key(dt["map"]["keyType"], kk) and self.valid(dt["map"]["valueType"], v) for kk, v in doc.items())
        if k == "enum":
            d = self.definition(t)
            if not isinstance(doc, str):
                return False
            if doc in [v["value"] for v in d["values"]]:
                return True
            return (not self.cfg.exhaustive) and _is_enum_name(doc)
        if k == "object":
            d = self.definition(t)
            if not isinstance(doc, dict):
                return False
            names = [f["fieldName"] for f in d["fields"]]
            if any(kk not in names for kk in doc):
                return False  # unknown fields: C05's business, not a valid document here
            for f in d["fields"]:
                v = doc.get(f["fieldName"], ABSENT)
                if v is ABSENT or v is None:
                    if self.is_optional(f["type"]):
                        continue
                    if v is ABSENT and self.is_collection(f["type"]):
                        continue
                    return False
                if not self.valid(f["type"], v):
                    return False
            return True
        if k == "union":
            d = self.definition(t)
            if not isinstance(doc, dict) or "type" not in doc or not isinstance(doc["type"], str):
                return False
            name = doc["type"]
            variants = {f["fieldName"]: f for f in d["union"]}
            if name in variants:
                if set(doc.keys()) != {"type", name}:
                    # an optional variant payload may be omitted
                    return set(doc.keys()) == {"type"} and self.is_optional(variants[name]["type"])
                return self.valid(variants[name]["type"], doc[name])
            if self.cfg.exhaustive:
                return False
            return set(doc.keys()) == {"type", name}
        raise ValueError(k)

    def valid_key(self, t, s):
        k = self.kind(t)
        if k == "string":
            return True
        if k == "integer":
            return _is_int_text(s) and -2**31 <= int(s) < 2**31
        if k == "safelong":
            return _is_int_text(s) and abs(int(s)) <= 2**53 - 1
        if k == "double":
            return s in ("NaN", "Infinity", "-Infinity") or _is_number_text(s)
        if k == "boolean":
            return s in ("true", "false")
        if k in ("uuid", "rid", "bearertoken", "binary", "datetime", "enum"):
            return self.valid(t, s)
        return False

    # ------------------------------------------------------------ canonical form
    def canonical(self, t, doc):
        k = self.kind(t)
        dt = self.deref(t)
        if k == "optional":
            return None if doc is None else self.canonical(dt["optional"]["itemType"], doc)
        if k == "list":
            return [self.canonical(dt["list"]["itemType"], x) for x in doc]
        if k == "set":
            return [self.canonical(dt["set"]["itemType"], x) for x in doc]
        if k == "map":
            return {kk: self.canonical(dt["map"]["valueType"], v) for kk, v in doc.items()}
        if k == "object":
            d = self.definition(t)
            out = {}
            for f in d["fields"]:
                v = doc.get(f["fieldName"], ABSENT)
                if self.is_optional(f["type"]):
                    if v is ABSENT or v is None:
                        continue
                    c = self.canonical(f["type"], v)
                    if c is None:
                        continue
                    out[f["fieldName"]] = c
                elif self.is_collection(f["type"]):
                    c = [] if self.kind(f["type"]) != "map" else {}
                    if v is not ABSENT:
                        c = self.canonical(f["type"], v)
                    if len(c) == 0 and not self.cfg.serialize_empty:
                        continue
                    out[f["fieldName"]] = c
                else:
                    out[f["fieldName"]] = self.canonical(f["type"], v)
            return out
        if k == "union":
            d = self.definition(t)
            name = doc["type"]
            variants = {f["fieldName"]: f for f in d["union"]}
            if name in variants:
                if name not in doc:
                    return {"type": name, name: None}
                return {"type": name, name: self.canonical(variants[name]["type"], doc[name])}
            return {"type": name, name: doc[name]}
        return doc

    # ------------------------------------------------------------ type-directed equality
    def equal(self, t, a, b):
        k = self.kind(t)
        dt = self.deref(t)
        if k == "double":
            if isinstance(a, str) or isinstance(b, str):
                return a == b
            if isinstance(a, bool) or isinstance(b, bool) or a is None or b is None:
                return False
            return float(a) == float(b)
        if k == "optional":
            if a is None or b is None:
                return a is None and b is None
            return self.equal(dt["optional"]["itemType"], a, b)
        if k == "list":
            return isinstance(a, list) and isinstance(b, list) and len(a) == len(b) and all(self.equal(dt["list"]["itemType"], x, y) for x, y in zip(a, b))
        if k == "set":
            if not (isinstance(a, list) and isinstance(b, list)):
                return False
            it = dt["set"]["itemType"]
            rest = list(b)
            uniq = []
            for x in a:  # the model's canonical form may contain input duplicates; sets do not
                if not any(self.equal(it, x, u) for u in uniq):
                    uniq.append(x)
            if len(uniq) != len(rest):
                return False
            for x in uniq:
                for i, y in enumerate(rest):
                    if self.equal(it, x, y):
                        del rest[i]
                        break
                else:
                    return False
            return True
        if k == "map":
            if not (isinstance(a, dict) and isinstance(b, dict)) or set(a.keys()) != set(b.keys()):
                return False
            return all(self.equal(dt["map"]["valueType"], a[x], b[x]) for x in a)
        if k == "object":
            if not (isinstance(a, dict) and isinstance(b, dict)) or set(a.keys()) != set(b.keys()):
                return False
            d = self.definition(t)
            return all(self.equal(f["type"], a[f["fieldName"]], b[f["fieldName"]]) for f in d["fields"] if f["fieldName"] in a)
        if k == "union":
            if not (isinstance(a, dict) and isinstance(b, dict)) or set(a.keys()) != set(b.keys()) or a.get("type") != b.get("type"):
                return False
            d = self.definition(t)
            name = a.get("type")
            variants = {f["fieldName"]: f for f in d["union"]}
            if name in variants:
                return self.equal(variants[name]["type"], a.get(name), b.get(name))
            return _any_equal(a.get(name), b.get(name))
        if k == "any":
            return _any_equal(a, b)
        return a == b and type(a) == type(b)

    # ------------------------------------------------------------ valid documents
    def leaf_docs(self, k, t):
        if k == "string":
            return ["s", "", "NaN", "é\"\\\n"]
        if k == "boolean":
            return [True, False]
        if k == "integer":
            return [0, -1, 2**31 - 1, -2**31]
        if k == "safelong":
            return [0, 2**53 - 1, -(2**53 - 1)]
        if k == "double":
            # incl. doubles whose decimal text needs correctly rounded parsing
            return [0.5, 1e300, "NaN", "Infinity", "-Infinity", 1, 1.0715660391465826e-75, -1.603964615428183e143, 5e-324, 0.1]
        if k == "uuid":
            return ["01234567-89ab-cdef-fedc-ba9876543210", "00000000-0000-0000-0000-000000000000"]
        if k == "rid":
            return ["ri.a..b.c", "ri.svc.inst-1.type.Loc_1.-"]
        if k == "bearertoken":
            return ["a", "AbC-._~+/9=="]
        if k == "binary":
            return ["/w==", "", "AAE=", "Zm9v"]
        if k == "datetime":
            return ["2000-02-29T00:00:00.500Z", "1970-01-01T00:00:00Z"]
        if k == "any":
            # (integers over the whole 64-bit range, signed and unsigned, stay the integers they are)
            return [1, 18446744073709551615, [9223372036854775808, -9223372036854775808, 9007199254740993, {"n": 12345678901234567890}], "s", [1, {"a": None}], {"k": "v"}, True]
        if k == "enum":
            return [v["value"] for v in self.definition(t)["values"]][:2]
        raise ValueError(k)

    def key_docs(self, t):
        k = self.kind(t)
        if k == "string":
            return ["k", ""]
        if k == "integer":
            return ["1", "-2147483648"]
        if k == "safelong":
            return ["0", "9007199254740991"]
        if k == "double":
            return ["1.5", "NaN"]
        if k == "boolean":
            return ["true", "false"]
        if k == "enum":
            return [v["value"] for v in self.definition(t)["values"]][:2]
        return [x for x in self.leaf_docs(k, t) if isinstance(x, str) and x != ""][:2]

    def docs(self, t, depth=0, budget=6):
        """valid documents for t: default first; containers of size 0..2; one-hot below depth 1"""
        k = self.kind(t)
        dt = self.deref(t)
        if k == "optional":
            inner = self.docs(dt["optional"]["itemType"], depth + 1, budget)
            return [inner[0], None] + inner[1:budget]
        if k in ("list", "set"):
            inner = self.docs(dt[k]["itemType"], depth + 1, budget)
            out = [[inner[0]], []]
            if len(inner) > 1:
                out.append([inner[0], inner[1]])
            out.extend([[x] for x in inner[1:budget]])
            # two elements that differ only in one list of doubles being a proper prefix of the
            # other (distinct set members that a prefix-blind order would merge)
            pair = self.prefix_pair(dt[k]["itemType"])
            if pair is not None and depth <= 1:
                out.append([pair[0], pair[1]])
                out.append([pair[1], pair[0]])
            return out
        if k == "map":
            keys = self.key_docs(dt["map"]["keyType"])
            inner = self.docs(dt["map"]["valueType"], depth + 1, budget)
            out = [{keys[0]: inner[0]}, {}]
            if len(keys) > 1:
                out.append({keys[0]: inner[0], keys[1]: inner[-1]})
                out.append({keys[1]: inner[0]})
            out.extend([{keys[0]: x} for x in inner[1:budget]])
            return out
        if k == "object":
            if depth > 3:
                return [self._min_object(t, depth)]
            d = self.definition(t)
            base = {}
            options = []
            for f in d["fields"]:
                fd = self.docs(f["type"], depth + 1, budget if depth == 0 else 3)
                opts = list(fd)
                if self.is_optional(f["type"]) or self.is_collection(f["type"]):
                    opts.append(ABSENT)
                base[f["fieldName"]] = opts[0]
                options.append((f["fieldName"], opts))
            out = [dict(base)]
            for name, opts in options:
                for o in opts[1:]:
                    dd = dict(base)
                    if o is ABSENT:
                        del dd[name]
                    else:
                        dd[name] = o
                    out.append(dd)
            # field order reversed (JSON member order must not matter)
            if len(base) > 1:
                out.append({kk: base[kk] for kk in reversed(list(base.keys()))})
            return out
        if k == "union":
            if depth > 3:
                return [self._min_union(t, depth)]
            d = self.definition(t)
            out = []
            for f in d["union"]:
                for i, p in enumerate(self.docs(f["type"], depth + 1, 3)):
                    if p is None:
                        continue
                    out.append({"type": f["fieldName"], f["fieldName"]: p})
                    if i == 0:
                        out.append({f["fieldName"]: p, "type": f["fieldName"]})  # member first
            if not out and not self.cfg.exhaustive:
                out.append({"type": "someOther", "someOther": 1})
            return out
        return self.leaf_docs(k, t)

    def prefix_pair(self, t, depth=0):
        """two valid documents of t that are equal except that one list<double> inside is a
        proper prefix of the other; None if t holds no such list"""
        if depth > 4:
            return None
        k = self.kind(t)
        dt = self.deref(t)
        if k == "list":
            it = dt["list"]["itemType"]
            if self.kind(it) == "double":
                return ([1.0], [1.0, 2.0])
            p = self.prefix_pair(it, depth + 1)
            return None if p is None else ([p[0]], [p[1]])
        if k == "optional":
            return self.prefix_pair(dt["optional"]["itemType"], depth + 1)
        if k == "map":
            p = self.prefix_pair(dt["map"]["valueType"], depth + 1)
            if p is None:
                return None
            key = self.key_docs(dt["map"]["keyType"])[0]
            return ({key: p[0]}, {key: p[1]})
        if k == "object":
            d = self.definition(t)
            for f in d["fields"]:
                p = self.prefix_pair(f["type"], depth + 1)
                if p is not None:
                    base = self._min_object(t, depth + 1)
                    a, b = dict(base), dict(base)
                    a[f["fieldName"]], b[f["fieldName"]] = p
                    return (a, b)
            return None
        if k == "union":
            d = self.definition(t)
            for f in d["union"]:
                p = self.prefix_pair(f["type"], depth + 1)
                if p is not None:
                    n = f["fieldName"]
                    return ({"type": n, n: p[0]}, {"type": n, n: p[1]})
        return None

    def _min_object(self, t, depth):
        d = self.definition(t)
        out = {}
        for f in d["fields"]:
            if self.is_optional(f["type"]) or self.is_collection(f["type"]):
                continue
            out[f["fieldName"]] = self.docs(f["type"], depth + 1, 1)[0]
        return out

    def _min_union(self, t, depth):
        d = self.definition(t)
        for f in d["union"]:
            k = self.kind(f["type"])
            if k not in ("object", "union"):
                p = self.docs(f["type"], depth + 1, 1)[0]
                return {"type": f["fieldName"], f["fieldName"]: p}
        f = d["union"][0]
        return {"type": f["fieldName"], f["fieldName"]: self.docs(f["type"], depth + 1, 1)[0]}

    # ------------------------------------------------------------ single faults
    def faults(self, t, doc, path="$"):
        """(faulty document, description) pairs: each differs from `doc` at exactly one position
        and contradicts the definition (checked with self.valid by the caller for the root)"""
        out = []
        k = self.kind(t)
        dt = self.deref(t)
        # (1) replace the value at this position by a value of every other JSON kind
        inner_kind = k
        tt = dt
        while inner_kind == "optional":
            tt = tt["optional"]["itemType"]
            inner_kind = self.kind(tt)
        for rep, name in [(None, "null"), (True, "true"), (7, "int"), (1.5, "float"), ("s", "string"), ([], "array"), ({}, "object"), ([1], "array1")]:
            if inner_kind == "object" and isinstance(rep, list):
                continue  # serde's positional array form of an object is tolerated
            if rep is None and (k in ("list", "set", "map", "any")):
                continue  # null for collections / any: the statement is silent
            if isinstance(rep, float) and k in ("integer", "safelong"):
                pass
            if not self.valid(t, rep):
                out.append((rep, "%s: %s where %s is required" % (path, name, k)))
        # (2) type-specific malformed values
        special = {
            "integer": [2**31, -2**31 - 1, 2**32, 2**32 + 5, 2**63, 2**64 - 1, -2**63],
            "safelong": [2**53, -(2**53), 2**63 - 1, 2**63, 2**64 - 1, 2**64 - 5, -2**63],
            "uuid": ["not-a-uuid", "01234567-89ab-cdef-fedc-ba987654321", "g1234567-89ab-cdef-fedc-ba9876543210", "01234567-89ab-cdef-fedc-ba98765432100", "01234567-89ab-cdef-fedc_ba9876543210", " 01234567-89ab-cdef-fedc-ba9876543210", ""],
            "rid": ["ri.bad", "ri.A.b.c.d", "ri.a.b.c.", "x.a.b.c.d", "ri.service.instance.9type.locator", "ri.9service.instance.type.locator", "ri.service.-instance.type.locator", "ri.service.instance.Type.locator",
                    "ri.ser_vice.instance.type.locator", "ri.service.instance..locator", "ri..instance.type.locator", "ri.service.instance.type.loc/ator", "ri.service.instance.type.locator\n", " ri.service.instance.type.locator", "ri.s.0.0.L",
                    "RI.service.instance.type.locator"],
            "uuid_extra": [],
            "datetime": ["2020-13-01T00:00:00Z", "2020-01-01", "yesterday", "2020-02-30T00:00:00Z", "2020-01-01T25:00:00Z", "2020-01-01T00:00:00", "", "1577836800"],
            "bearertoken": ["bad token", "", "tokén", "=", "a=b", "tok\n", " tok", "to,k", "==a"],
            "binary": ["%%%", "A", "AAE", "AA=E"],
            "double": ["nan", "inf", "1.5x"],
            "boolean": ["true", 1],
            "enum": ["lower", "", "WITH SPACE", "WITH-DASH", "One", "ONE ", " ONE", "ONE\n", "É"],
        }
        for bad in special.get(k, []):
            if not self.valid(t, bad):
                out.append((bad, "%s: malformed %s %r" % (path, k, bad)))
        # (3) recurse
        if doc is None:
            return out
        if k == "optional":
            out += self.faults(dt["optional"]["itemType"], doc, path)
        elif k in ("list", "set"):
            for i, x in enumerate(doc[:2]):
                for bad, desc in self.faults(dt[k]["itemType"], x, "%s[%d]" % (path, i)):
                    nd = list(doc)
                    nd[i] = bad
                    out.append((nd, desc))
        elif k == "map":
            for kk in list(doc.keys())[:2]:
                for bad, desc in self.faults(dt["map"]["valueType"], doc[kk], "%s{%s}" % (path, kk)):
                    nd = dict(doc)
                    nd[kk] = bad
                    out.append((nd, desc))
            kt = dt["map"]["keyType"]
            for badkey in ["not a key", "1.5x", "", "TRUE"]:
                if not self.valid_key(kt, badkey) and doc:
                    first = list(doc.keys())[0]
                    nd = {badkey: doc[first]}
                    out.append((nd, "%s: malformed %s map key %r" % (path, self.kind(kt), badkey)))
        elif k == "object":
            d = self.definition(t)
            for f in d["fields"]:
                name = f["fieldName"]
                required = not (self.is_optional(f["type"]) or self.is_collection(f["type"]))
                if required:
                    nd = dict(doc)
                    nd.pop(name, None)
                    out.append((nd, "%s: required field %s missing" % (path, name)))
                    nd = dict(doc)
                    nd[name] = None
                    # null for a required `any`: the statement is silent
                    if self.kind(f["type"]) != "any" and not self.valid(t, nd):
                        out.append((nd, "%s: required field %s null" % (path, name)))
                if name in doc:
                    for bad, desc in self.faults(f["type"], doc[name], "%s.%s" % (path, name)):
                        nd = dict(doc)
                        nd[name] = bad
                        out.append((nd, desc))
        elif k == "union":
            d = self.definition(t)
            name = doc.get("type")
            variants = {f["fieldName"]: f for f in d["union"]}
            if name in variants and name in doc:
                for bad, desc in self.faults(variants[name]["type"], doc[name], "%s.%s" % (path, name)):
                    nd = dict(doc)
                    nd[name] = bad
                    out.append((nd, desc))
        return out


# ---------------------------------------------------------------- lexical recognisers

def _is_uuid(s):
    if len(s) != 36:
        return False
    for i, c in enumerate(s):
        if i in (8, 13, 18, 23):
            if c != "-":
                return False
        elif c not in "0123456789abcdefABCDEF":
            return False
    return True


def _is_rid(s):
    parts = s.split(".", 4)
    if len(parts) != 5 or parts[0] != "ri":
        return False
    lower = "abcdefghijklmnopqrstuvwxyz"
    digit = "0123456789"

    def svc(x):
        return len(x) > 0 and x[0] in lower and all(c in lower + digit + "-" for c in x)

    def inst(x):
        return x == "" or (x[0] in lower + digit and all(c in lower + digit + "-" for c in x))

    def loc(x):
        return len(x) > 0 and all(c in lower + lower.upper() + digit + "_.-" for c in x)

    return svc(parts[1]) and inst(parts[2]) and svc(parts[3]) and loc(parts[4])


def _is_token(s):
    body = s.rstrip("=")
    ok = "ABCDEFGHIJKLMNOPQRSTUVWXYZabcdefghijklmnopqrstuvwxyz0123456789-._~+/"
    return len(body) > 0 and all(c in ok for c in body)


def _is_base64(s):
    ok = "ABCDEFGHIJKLMNOPQRSTUVWXYZabcdefghijklmnopqrstuvwxyz0123456789+/"
    if len(s) % 4 != 0:
        return False
    body = s.rstrip("=")
    if len(s) - len(body) > 2:
        return False
    if not all(c in ok for c in body):
        return False
    # canonical padding bits
    if len(body) % 4 == 2 and ok.index(body[-1]) & 0xF:
        return False
    if len(body) % 4 == 3 and ok.index(body[-1]) & 0x3:
        return False
    return len(body) % 4 != 1


def _is_datetime(s):
    import re
    m = re.fullmatch(r"(\d{4})-(\d{2})-(\d{2})T(\d{2}):(\d{2}):(\d{2})(\.\d+)?(Z|[+-]\d{2}:\d{2})", s)
    if not m:
        return False
    y, mo, d, h, mi, sec = [int(m.group(i)) for i in range(1, 7)]
    if not (1 <= mo <= 12 and 1 <= d <= 31 and h <= 23 and mi <= 59 and sec <= 60):
        return False
    mdays = [31, 29 if (y % 4 == 0 and (y % 100 != 0 or y % 400 == 0)) else 28, 31, 30, 31, 30, 31, 31, 30, 31, 30, 31]
    return d <= mdays[mo - 1]


def _is_enum_name(s):
    return len(s) > 0 and all(c in "ABCDEFGHIJKLMNOPQRSTUVWXYZ0123456789_" for c in s)


def _is_int_text(s):
    body = s[1:] if s.startswith("-") else s
    return body.isdigit() and (body == "0" or not body.startswith("0")) and len(body) > 0


def _is_number_text(s):
    import re
    return re.fullmatch(r"-?\d+(\.\d+)?([eE][+-]?\d+)?", s) is not None


def _any_equal(a, b):
    if isinstance(a, bool) or isinstance(b, bool):
        return a is b
    if isinstance(a, (int, float)) and isinstance(b, (int, float)):
        # integers of the 64-bit ranges (signed and unsigned) stay the integers they are; only
        # beyond them may an integer literal come back as the nearest double (section 6)
        if isinstance(a, int) and isinstance(b, float) and -2**63 <= a < 2**64:
            return a == b
        if isinstance(b, int) and isinstance(a, float) and -2**63 <= b < 2**64:
            return a == b
        return float(a) == float(b)
    if isinstance(a, list) and isinstance(b, list):
        return len(a) == len(b) and all(_any_equal(x, y) for x, y in zip(a, b))
    if isinstance(a, dict) and isinstance(b, dict):
        return set(a.keys()) == set(b.keys()) and all(_any_equal(a[k], b[k]) for k in a)
    return a == b and type(a) == type(b)


def dumps(doc):
    return json.dumps(doc, ensure_ascii=False, allow_nan=False)
