"""C17 (generated part) — generated error types: code, Namespace:Name, sorted safe-argument
list, wire names of the parameters, and the encoding / safe-unsafe partition of every
parameter value when the generated type is handed to conjure_error::encode and Error::service*."""
import itertools
import json
import math
import os
import re

import harness as H
import model as M
import space
from space import PKG, R

CODES = ["PERMISSION_DENIED", "INVALID_ARGUMENT", "NOT_FOUND", "CONFLICT", "REQUEST_ENTITY_TOO_LARGE", "FAILED_PRECONDITION", "INTERNAL", "TIMEOUT", "CUSTOM_CLIENT", "CUSTOM_SERVER"]
STATUS = {"PERMISSION_DENIED": 403, "INVALID_ARGUMENT": 400, "NOT_FOUND": 404, "CONFLICT": 409, "REQUEST_ENTITY_TOO_LARGE": 413, "FAILED_PRECONDITION": 500, "INTERNAL": 500, "TIMEOUT": 500,
          "CUSTOM_CLIENT": 400, "CUSTOM_SERVER": 500}
P = space.prim
S, I = P("STRING"), P("INTEGER")


def arg_types(thorough):
    ts = [("string", S), ("integer", I), ("double", P("DOUBLE")), ("boolean", P("BOOLEAN")), ("safelong", P("SAFELONG")), ("uuid", P("UUID")), ("rid", P("RID")), ("datetime", P("DATETIME")),
          ("bearertoken", P("BEARERTOKEN")), ("binary", P("BINARY")), ("any", P("ANY")), ("E", R("E")), ("AliasStr", R("AliasStr")), ("AliasDbl", R("AliasDbl")), ("AliasBin", R("AliasBin")), ("Obj", R("Obj")),
          ("Un", R("Un")), ("optional<string>", space.opt(S)), ("optional<integer>", space.opt(I)), ("optional<double>", space.opt(P("DOUBLE"))), ("optional<E>", space.opt(R("E"))), ("optional<Obj>", space.opt(R("Obj"))),
          ("optional<binary>", space.opt(P("BINARY"))), ("list<string>", space.lst(S)), ("set<integer>", space.st(I)), ("map<string,string>", space.mp(S, S)), ("AliasOpt", R("AliasOpt")), ("AliasAlias", R("AliasAlias")),
          ("AliasList", R("AliasList")), ("optional<any>", space.opt(P("ANY"))), ("Ext", space.EXT)]
    if thorough:
        ts += [("optional<uuid>", space.opt(P("UUID"))), ("optional<datetime>", space.opt(P("DATETIME"))), ("optional<AliasStr>", space.opt(R("AliasStr"))), ("list<Obj>", space.lst(R("Obj"))),
               ("optional<list<string>>", space.opt(space.lst(S))), ("map<E,integer>", space.mp(R("E"), I)), ("optional<boolean>", space.opt(P("BOOLEAN"))), ("optional<safelong>", space.opt(P("SAFELONG"))),
               ("optional<rid>", space.opt(P("RID"))), ("optional<bearertoken>", space.opt(P("BEARERTOKEN"))), ("optional<Un>", space.opt(R("Un")))]
    return ts


def definitions(thorough):
    """(error definition, label) — the program space"""
    out = []
    # every partition size with names whose sorted order differs from the declaration order
    safe_names = ["zeta", "alpha", "midArg", "Beta9"] if thorough else ["zeta", "alpha", "midArg"]
    unsafe_names = ["omega", "aaFirst", "nuArg", "zzLast"] if thorough else ["omega", "aaFirst", "nuArg"]
    tys = [S, I, space.opt(S), P("BOOLEAN")]
    for ns in range(len(safe_names) + 1):
        for nu in range(len(unsafe_names) + 1):
            sa = [space.field(n, tys[(i + nu) % len(tys)]) for i, n in enumerate(safe_names[:ns])]
            ua = [space.field(n, tys[(i + ns + 1) % len(tys)]) for i, n in enumerate(unsafe_names[:nu])]
            out.append((space.error("Part%d%d" % (ns, nu), "Verif", CODES[(ns * 5 + nu) % len(CODES)], sa, ua, PKG), "partition %d safe / %d unsafe" % (ns, nu)))
    # every argument type as a safe and as an unsafe argument
    for i, (name, t) in enumerate(arg_types(thorough)):
        out.append((space.error("Ty%d" % i, "Verif", "INVALID_ARGUMENT", [space.field("safeArg", t)], [space.field("unsafeArg", t), space.field("other", S)], PKG), "argument type %s" % name))
    # every code; a second namespace
    for c in CODES:
        out.append((space.error("Code" + "".join(w.capitalize() for w in c.split("_")), "OtherNs" if c.startswith("CUSTOM") else "Verif", c, [space.field("s", S)], [space.field("u", I)], PKG), "code %s" % c))
    # wire names that differ from the Rust identifiers
    out.append((space.error("Names", "Verif", "CONFLICT", [space.field("type", S), space.field("camelCaseArg", I), space.field("x", space.opt(S))], [space.field("use", S), space.field("anotherCamelArg", space.opt(I)), space.field("match", S)], PKG),
                "keyword and camelCase argument names"))
    # the same argument names in two errors with opposite safety
    out.append((space.error("MirrorA", "Verif", "NOT_FOUND", [space.field("left", S)], [space.field("right", S)], PKG), "mirrored safety A"))
    out.append((space.error("MirrorB", "Verif", "NOT_FOUND", [space.field("right", S)], [space.field("left", S)], PKG), "mirrored safety B"))
    return out


def expected_param(model, t, doc):
    """the string entry a parameter value must produce, or None when it must be omitted;
    ("number", x) for doubles (any text parsing back to x)"""
    k = model.kind(t)
    dt = model.deref(t)
    if k == "optional":
        return None if doc is None else expected_param(model, dt["optional"]["itemType"], doc)
    if k in ("list", "set", "map", "object", "union", "binary"):
        return None
    if k == "any":
        if isinstance(doc, bool):
            return "true" if doc else "false"
        if isinstance(doc, int):
            return str(doc)
        if isinstance(doc, float):
            return ("number", doc)
        if isinstance(doc, str):
            return doc
        return None
    if k == "boolean":
        return "true" if doc else "false"
    if k in ("integer", "safelong"):
        return str(doc)
    if k == "double":
        if isinstance(doc, str):
            return ("number", {"NaN": math.nan, "Infinity": math.inf, "-Infinity": -math.inf}[doc])
        return ("number", float(doc))
    # string, uuid, rid, bearertoken, datetime, enum: verbatim (in canonical spelling)
    return model.canonical(t, doc)


def same_number(text, x):
    try:
        y = float(text)
    except (TypeError, ValueError):
        return False
    if math.isnan(x):
        return math.isnan(y)
    return x == y and (x != 0 or math.copysign(1, x) == math.copysign(1, y))


UUID_V4 = re.compile(r"^[0-9a-f]{8}-[0-9a-f]{4}-4[0-9a-f]{3}-[89ab][0-9a-f]{3}-[0-9a-f]{12}$")
FIXED_ID = "01234567-89ab-4def-8edc-ba9876543210"


def run(a, rep):
    thorough = a.tier == "thorough"
    defs = definitions(thorough)
    ir = space.ir(space.FIXED_TYPES, [], [d for d, _ in defs])
    root = os.path.join(H.WORK, "c17-" + a.tier)
    ok, err = H.generate(ir, os.path.join(root, "gen"))
    if not ok:
        rep.cap("generator failed on the error definitions (C03's business, no verdict here): %s" % err[-400:])
        return
    arms = []
    for d, _ in defs:
        n = d["errorName"]["name"]
        arms.append('        "err:%s" => probe::run_error::<g::com::verif::%s>(req),' % (n, n))
    main = H.DISPATCH_MAIN % {"mods": '#[path = "%s/mod.rs"]\nmod g;' % os.path.join(root, "gen"), "arms": "\n".join(arms)}
    crate = os.path.join(root, "bin")
    H.write_crate(crate, "e2c17" + a.tier[0], main_rs=main)
    p = H.cargo(crate, "build", [], json_messages=True)
    if p.returncode != 0:
        errs = H.compile_errors(p.stdout)
        rep.cap("the generated error types do not compile (C03's business, no verdict here): %s" % (json.dumps(errs[:3]) if errs else p.stderr[-600:]))
        return
    probe = H.Probe(os.path.join(H.E2_TARGET, "debug", "e2c17" + a.tier[0]))
    model = M.Model(ir, M.Cfg(False, False))
    only = a.replay_case
    budget = 10 if thorough else 6
    for d, label in defs:
        name = d["errorName"]["name"]
        if only and only.get("error") != name:
            continue
        args = [(f, True) for f in d["safeArgs"]] + [(f, False) for f in d["unsafeArgs"]]
        per = []
        for f, _ in args:
            ds = [x for x in model.docs(f["type"], 0, budget) if model.valid(f["type"], x)]
            k = model.kind(f["type"])
            if k == "any":
                ds += [True, 0, -7, 1.5, "text", None, [1], {"k": "v"}, 2 ** 63, ""]
            if k == "double" or (k == "optional" and model.kind(model.deref(f["type"])["optional"]["itemType"]) == "double"):
                ds += [-0.0, 1e21, 5e-324, 0.1, "NaN", "-Infinity"]
            if k == "string":
                ds += ["", "with \"quotes\" and \\ and é", "true", "12"]
            ds = [x for x in ds if model.valid(f["type"], x)] or ds[:1]
            per.append(ds)
        # default document + every one-position deviation; plus omitting every omissible argument
        docs = []
        base = [p[0] for p in per]
        docs.append(list(base))
        for i, ds in enumerate(per):
            for x in ds[1:]:
                v = list(base)
                v[i] = x
                docs.append(v)
        ABSENT = object()
        for i, (f, _) in enumerate(args):
            if model.is_optional(f["type"]) or model.is_collection(f["type"]):
                v = list(base)
                v[i] = ABSENT
                docs.append(v)
        texts = []
        for v in docs:
            texts.append(M.dumps({f["fieldName"]: x for (f, _), x in zip(args, v) if x is not ABSENT}))
        rep.states += len(texts)
        resp = probe.ask({"ty": "err:" + name, "docs": texts})
        if "results" not in resp:
            rep.cap("probe error for %s: %s" % (name, resp))
            continue
        want_safe_args = sorted(f["fieldName"] for f in d["safeArgs"])
        want_name = "%s:%s" % (d["namespace"], name)
        for v, text, res in zip(docs, texts, resp["results"]):
            rep.evaluations += 1
            rep.transitions += 1
            case = {"error": name, "doc": text}
            sig = lambda k, extra="": "C17|generated|%s|%s%s" % (k, label if not label.startswith("partition") else "partition", extra)
            if "skip" in res:
                rep.violation(sig("valid-error-document-rejected"), "%s (%s): the document %s of the generated error type is rejected: %s" % (name, label, text, res["skip"]), case)
                continue
            bad = []
            # identity of the error type
            if res["code"] != d["code"]:
                bad.append(("code", "code() is %s, declared %s" % (res["code"], d["code"])))
            if res["status"] != STATUS[d["code"]]:
                bad.append(("status", "status %s for code %s" % (res["status"], d["code"])))
            if res["name"] != want_name:
                bad.append(("name", "name() is %r, declared %r" % (res["name"], want_name)))
            if res["safe_args"] != want_safe_args:
                bad.append(("safe-args", "safe_args() is %s, the sorted declared safe arguments are %s" % (res["safe_args"], want_safe_args)))
            if res["instance_id"] is not None:
                bad.append(("instance-id", "a generated error reports instance id %s" % res["instance_id"]))
            enc = res["encoded"]
            if enc.get("errorCode") != d["code"] or enc.get("errorName") != want_name:
                bad.append(("encoded-identity", "encoded form carries %s / %s" % (enc.get("errorCode"), enc.get("errorName"))))
            iid = enc.get("errorInstanceId", "")
            if not UUID_V4.match(iid) or iid == res["second_instance_id"]:
                bad.append(("fresh-instance-id", "instance ids %s / %s are not fresh random (v4) ids" % (iid, res["second_instance_id"])))
            if res["with_id"].get("errorInstanceId") != FIXED_ID:
                bad.append(("supplied-instance-id", "with_instance_id(%s) encodes as %s" % (FIXED_ID, res["with_id"].get("errorInstanceId"))))
            if res["with_id_by_ref"] != res["with_id"]:
                bad.append(("by-reference", "encode(&&e.with_instance_id(id)) gives %s, by value %s" % (M.dumps(res["with_id_by_ref"]), M.dumps(res["with_id"]))))
            if res["service_by_ref"]["kind"] != res["with_id"]:
                bad.append(("by-reference", "Error::service(cause, &e.with_instance_id(id)) carries %s, expected %s" % (M.dumps(res["service_by_ref"]["kind"]), M.dumps(res["with_id"]))))
            # parameters
            want = {}
            for (f, safe), x in zip(args, v):
                if x is ABSENT:
                    continue
                e = expected_param(model, f["type"], x)
                if e is not None:
                    want[f["fieldName"]] = (e, safe)
            got = enc.get("parameters", {})
            for kname in sorted(set(want) | set(got)):
                if kname not in got:
                    bad.append(("parameter-missing", "parameter %s (value %s) is missing from the encoded form %s" % (kname, M.dumps(dict(zip([f["fieldName"] for f, _ in args], [x for x in v if x is not ABSENT])).get(kname)), M.dumps(got))))
                elif kname not in want:
                    bad.append(("parameter-not-omitted", "parameter %s is encoded as %r although its value is not a scalar (document %s)" % (kname, got[kname], text)))
                else:
                    e = want[kname][0]
                    if not isinstance(got[kname], str):
                        bad.append(("parameter-not-a-string", "parameter %s is encoded as %r" % (kname, got[kname])))
                    elif isinstance(e, tuple):
                        if not same_number(got[kname], e[1]):
                            bad.append(("double-text", "double parameter %s = %r is encoded as %r" % (kname, e[1], got[kname])))
                    elif got[kname] != e:
                        bad.append(("parameter-text", "parameter %s is encoded as %r, expected %r" % (kname, got[kname], e)))
            for key in ("with_id",):
                if res[key].get("parameters", {}) != got:
                    bad.append(("parameters-differ-with-instance-id", "parameters change when an instance id is supplied"))
            if not res["json_roundtrip_equal"] or res["json_text"] != res["json_text_after_roundtrip"]:
                bad.append(("json-roundtrip", "the encoded form %s does not survive a JSON round trip (%s)" % (res["json_text"], res["json_text_after_roundtrip"][:200])))
            if not res["smile_roundtrip_equal"]:
                bad.append(("smile-roundtrip", "the encoded form does not survive a Smile round trip"))
            # partition
            safe_want = {k: got.get(k) for k in got if k in want_safe_args}
            unsafe_want = {k: got.get(k) for k in got if k not in want_safe_args}
            for ctor, cs in (("service", False), ("service_safe", True)):
                r = res[ctor]
                if r["safe"] != safe_want or r["unsafe"] != unsafe_want:
                    bad.append(("partition", "Error::%s: safe params %s, unsafe params %s; declared safe arguments %s, encoded parameters %s" % (ctor, M.dumps(r["safe"]), M.dumps(r["unsafe"]), want_safe_args, M.dumps(got))))
                if r["cause_safe"] != cs:
                    bad.append(("cause-safety", "Error::%s has cause_safe=%s" % (ctor, r["cause_safe"])))
                if r["kind"].get("parameters", {}) != got or r["kind"].get("errorName") != want_name:
                    bad.append(("service-kind", "Error::%s carries %s" % (ctor, M.dumps(r["kind"]))))
            for ctor, cs in (("propagated", False), ("propagated_safe", True)):
                r = res[ctor]
                if r["safe"] != {} or r["unsafe"] != got:
                    bad.append(("propagated-partition", "Error::%s_service: safe params %s, unsafe params %s (all of %s must be unsafe)" % (ctor, M.dumps(r["safe"]), M.dumps(r["unsafe"]), M.dumps(got))))
                if r["cause_safe"] != cs:
                    bad.append(("cause-safety", "Error::%s has cause_safe=%s" % (ctor, r["cause_safe"])))
            if not bad:
                rep.outcome("encodes-and-partitions-as-declared")
            seen = set()
            for kind, msg in bad:
                if kind in seen:
                    continue
                seen.add(kind)
                rep.violation(sig(kind), "%s (%s), value %s: %s" % (name, label, text, msg), case)
        rep.sample(label.split(" ")[0], {"error": name, "label": label, "documents": texts[:3]})
    probe.close()
    rep.bounds.update({"error_definitions": len(defs), "argument_types": len(arg_types(thorough)), "codes": len(CODES), "values_per_argument": budget})
    rep.rule = ("states = (generated error definition, parameter values): every partition of 0..3 safe x 0..3 unsafe arguments (names whose sorted order differs from the declaration order), every argument type as a safe "
                "and as an unsafe argument, every error code, two namespaces, keyword / camelCase argument names, mirrored safety; values = the model's documents per argument one position at a time plus every omissible "
                "argument omitted. Each generated type is compiled and driven through ErrorType, encode (with / without instance id), a JSON and Smile round trip, Error::service / service_safe / propagated_service(_safe)")
    rep.assumptions.append("the encoding rules themselves (scalar stringification for arbitrary Serialize values) are explored over the shape grammar by the runtime part; this part binds the generated code to them")
