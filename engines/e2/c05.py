"""C05 (generated part) — generated objects at every nesting depth: a document giving an
object a field it does not declare is rejected by the server deserializer (naming the field)
and accepted by the client deserializer with exactly the value of the document without it —
under every generator configuration (the exhaustive switch must not change this)."""
import json
import re

import model as M

EXTRA_NAME = "zzUndeclared"
EXTRA_VALUES = [True, None, [1, {"a": None}], {"type": "x"}, "s"]
# JSON texts that no typed value renders: numbers outside every numeric type, nesting close to
# serde_json's depth limit, an escaped astral character
RAW_VALUES = ["1e999", "-1E+999", "1e-999", "123456789012345678901234567890123", "-0.0e0", "[" * 100 + "]" * 100, '{"a":' * 60 + "null" + "}" * 60, '"\\ud83d\\ude00\\u0000"']


def _words(n):
    return [w for w in re.split(r"[-_]|(?<=[a-z0-9])(?=[A-Z])", n) if w]


def look_alikes(declared):
    """names that normalise to a declared member's name without being one: the other two of the
    three spellings Conjure admits (camelCase / kebab-case / snake_case), and case variants"""
    out = []
    for n in declared:
        w = [x.lower() for x in _words(n)]
        if not w:
            continue
        cands = [w[0] + "".join(x.capitalize() for x in w[1:]), "-".join(w), "_".join(w), "".join(x.capitalize() for x in w), n.upper(), n.lower(), n + "_", "_" + n, n + " ", "r#" + n]
        for c in cands:
            if c not in declared and c not in out:
                out.append(c)
    return out


def injections(model, t, doc, path="$", depth=0):
    """(document with one undeclared member added to one object node, where)"""
    out = []
    if doc is None or depth > 4:
        return out
    k = model.kind(t)
    dt = model.deref(t)
    if k == "optional":
        return injections(model, dt["optional"]["itemType"], doc, path, depth)
    if k in ("list", "set"):
        for i, x in enumerate(doc[:1]):
            for nd, where in injections(model, dt[k]["itemType"], x, "%s[%d]" % (path, i), depth + 1):
                full = list(doc)
                full[i] = nd
                out.append((full, where))
    elif k == "map":
        for kk in list(doc.keys())[:1]:
            for nd, where in injections(model, dt["map"]["valueType"], doc[kk], "%s{%s}" % (path, kk), depth + 1):
                full = dict(doc)
                full[kk] = nd
                out.append((full, where))
    elif k == "object":
        d = model.definition(t)
        for pos in ("first", "last"):
            nd = {EXTRA_NAME: None}
            nd.update(doc) if pos == "first" else None
            if pos == "last":
                nd = dict(doc)
                nd[EXTRA_NAME] = None
            out.append((nd, "%s (%s member)" % (path, pos)))
        for f in d["fields"]:
            name = f["fieldName"]
            if name in doc:
                for nd, where in injections(model, f["type"], doc[name], "%s.%s" % (path, name), depth + 1):
                    full = dict(doc)
                    full[name] = nd
                    out.append((full, where))
    elif k == "union":
        d = model.definition(t)
        name = doc.get("type")
        variants = {f["fieldName"]: f for f in d["union"]}
        if name in variants and name in doc:
            for nd, where in injections(model, variants[name]["type"], doc[name], "%s.%s" % (path, name), depth + 1):
                full = dict(doc)
                full[name] = nd
                out.append((full, where))
    return out


def _injected_name(where):
    m = re.search(r"member '(.*)', a look-alike", where)
    return m.group(1) if m else EXTRA_NAME


def _fill(doc, value):
    """replace the placeholder value of the injected member"""
    if isinstance(doc, dict):
        return {k: (value if k == EXTRA_NAME else _fill(v, value)) for k, v in doc.items()}
    if isinstance(doc, list):
        return [_fill(x, value) for x in doc]
    return doc


def run(a, rep, TypesBuild, tref):
    tb = TypesBuild(a.tier, rep)
    if not tb.build():
        return
    only = a.replay_case
    thorough = a.tier == "thorough"
    for ci, ch, name, kind, shape, cname, cfg in tb.each_type():
        if kind == "enum":
            continue
        if only and (only.get("type") != name or only.get("config") != cname):
            continue
        model = M.Model(ch["ir"], M.Cfg(cfg["exhaustive"], cfg["serialize_empty"]))
        t = tref(name)
        label = "%s{%s}" % ({"object": "obj", "union": "union", "alias": "alias"}[kind], shape.text if shape else name)
        cases = []
        for d in [x for x in model.docs(t) if model.valid(t, x)][: (4 if thorough else 2)]:
            for nd, where in injections(model, t, d):
                for vi, v in enumerate(EXTRA_VALUES if thorough else EXTRA_VALUES[:3]):
                    if vi > 0 and "(last member)" in where and not thorough:
                        continue
                    cases.append((M.dumps(_fill(nd, v)), d, where))
        # values only a JSON *text* can hold (numbers beyond every Rust type, deep nesting): whatever
        # JSON value the undeclared member holds, the client skips it
        raw_marker = "\"@@RAW@@\""
        for d in [x for x in model.docs(t) if model.valid(t, x)][:1]:
            for nd, where in injections(model, t, d)[: (6 if thorough else 2)]:
                base_text = M.dumps(_fill(nd, "@@RAW@@"))
                for raw in RAW_VALUES:
                    cases.append((base_text.replace(raw_marker, raw), d, where + " [raw value]"))
        # undeclared members whose names look like declared ones (root object, first position)
        if kind == "object":
            d0 = [x for x in model.docs(t) if model.valid(t, x)][:1]
            declared = [f["fieldName"] for f in model.definition(t)["fields"]]
            for d in d0:
                for alike in look_alikes(declared)[: (40 if thorough else 12)]:
                    nd = {alike: "injected"}
                    nd.update(d)
                    cases.append((M.dumps(nd), d, "$ (member %r, a look-alike of a declared name)" % alike))
        if not cases:
            continue
        rep.states += len(cases)
        resp = tb.probe(ci).ask({"ty": "%s:%s" % (cname, name), "op": "de", "docs": [c[0] for c in cases]})
        if "results" not in resp:
            rep.cap("probe error for %s: %s" % (name, resp))
            continue
        # differential reference: what the client makes of the same document without the member
        origs = sorted(set(M.dumps(c[1]) for c in cases))
        oresp = tb.probe(ci).ask({"ty": "%s:%s" % (cname, name), "op": "de", "docs": origs})
        base = {}
        for text, r in zip(origs, oresp.get("results", [])):
            if r["c"].get("ok") and r["c"].get("reser"):
                base[text] = json.loads(r["c"]["reser"])
        # the same documents as Smile, when they carry no JSON-only spelling
        sresp = tb.probe(ci).ask({"ty": "%s:%s" % (cname, name), "op": "smile_raw", "docs": [c[0] for c in cases]})
        sres = sresp.get("results") or [{}] * len(cases)
        smile_ok = not _json_only_spellings(model, t)
        for (text, original, where), res, sm in zip(cases, resp["results"], sres):
            sides = [("c", "client", res["c"]), ("s", "server", res["s"])]
            if smile_ok and "skip" not in sm:
                sides += [("C", "smile-client", sm.get("c")), ("S", "smile-server", sm.get("s"))]
            for side, where_side, r in sides:
                if r is None:
                    continue
                rep.evaluations += 1
                rep.transitions += 1
                case = {"type": name, "config": cname, "doc": text, "side": side}
                sig = lambda k: "C05|generated|%s|%s|%s|%s" % (k, where_side, label, "exhaustive" if cfg["exhaustive"] else "default")
                if r.get("panic"):
                    rep.violation(sig("panic"), "%s [%s] panicked on %s" % (label, cname, text), case)
                elif side in ("s", "S"):
                    if r["ok"]:
                        rep.violation(sig("server-accepted-unknown-field"), "%s [%s]: the %s deserializer accepts %s (undeclared member at %s) as %s" % (label, cname, where_side, text, where, r.get("reser")), case)
                    elif _injected_name(where) not in (r.get("err") or ""):
                        rep.violation(sig("server-error-does-not-name-field"), "%s [%s]: %s rejected by the %s deserializer with %r, which does not name %s" % (label, cname, text, where_side, r.get("err"), _injected_name(where)), case)
                    else:
                        rep.outcome("server:rejected-naming-field")
                else:
                    if not r["ok"]:
                        rep.violation(sig("client-rejected-unknown-field"), "%s [%s]: the %s deserializer rejects %s (undeclared member at %s): %s" % (label, cname, where_side, text, where, r.get("err")), case)
                    else:
                        want = base.get(M.dumps(original))
                        if want is None:
                            rep.outcome("document-without-the-member-rejected (C02's business)")
                            continue
                        got = json.loads(r["reser"]) if r.get("reser") else None
                        if model.equal(t, want, got):
                            rep.outcome("client:ignored")
                        else:
                            rep.violation(sig("client-value-changed"), "%s [%s]: %s read by the %s deserializer re-serializes to %s, the document without the member gives %s" % (label, cname, text, where_side, r.get("reser"), M.dumps(want)), case)
        if shape is not None and shape.depth >= 1 and len(rep.samples) < 6:
            rep.sample(label, {"type": label, "config": cname, "documents": [c[0] for c in cases[:3]]})
    tb.close()
    rep.bounds.update({"injected_values": len(EXTRA_VALUES), "configs": [c[0] for c in tb.configs]})
    rep.rule = ("states = (generated type containing an object node, configuration, valid document, object node, position, injected value): the undeclared member is added to one object node (root, below "
                "optionals / lists / sets / maps / aliases / union variants / nested objects); through the client and server JSON deserializers of the compiled generated code, and as Smile where the "
                "document has no JSON-only spelling")


def _json_only_spellings(model, t, seen=None):
    """does the type contain uuid / binary / double (whose JSON text forms are not the Smile ones)?"""
    seen = seen if seen is not None else set()
    k = model.kind(t)
    dt = model.deref(t)
    if k in ("uuid", "binary", "double", "any"):
        return True
    if k in ("optional", "list", "set"):
        return _json_only_spellings(model, dt[k]["itemType"], seen)
    if k == "map":
        return _json_only_spellings(model, dt["map"]["keyType"], seen) or _json_only_spellings(model, dt["map"]["valueType"], seen)
    if k in ("object", "union"):
        key = M.key_of(dt["reference"])
        if key in seen:
            return False
        seen.add(key)
        d = model.definition(t)
        return any(_json_only_spellings(model, f["type"], seen) for f in (d["fields"] if k == "object" else d["union"]))
    return False
