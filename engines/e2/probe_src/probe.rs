//! Generic probes over generated types; the dispatcher (generated per build) maps a type id
//! to a monomorphised `run::<T>`.

use serde::de::DeserializeOwned;
use serde::Serialize;
use serde_json::{json, Value};
use std::fmt::Debug;
use std::hash::Hash;

pub type NameFn<T> = fn(&T) -> Option<String>;

fn one<T: Serialize + Debug>(r: Result<T, String>, name: Option<NameFn<T>>) -> Value {
    match r {
        Ok(v) => {
            let reser = conjure_serde::json::to_string(&v).map_err(|e| e.to_string());
            let dbg: String = format!("{:?}", v).chars().take(300).collect();
            json!({"ok": true, "reser": reser.as_ref().ok(), "reser_err": reser.as_ref().err(), "dbg": dbg, "name": name.and_then(|f| f(&v))})
        }
        Err(e) => json!({"ok": false, "err": e.chars().take(200).collect::<String>()}),
    }
}

pub fn run<T>(req: &Value, name: Option<NameFn<T>>) -> Value
where
    T: Serialize + DeserializeOwned + Debug + Ord + Hash + Clone,
{
    match req["op"].as_str().unwrap_or("") {
        "de" => {
            let mut out = vec![];
            for d in req["docs"].as_array().unwrap() {
                let doc = d.as_str().unwrap();
                let c = std::panic::catch_unwind(|| conjure_serde::json::client_from_str::<T>(doc).map_err(|e| e.to_string()));
                let s = std::panic::catch_unwind(|| conjure_serde::json::server_from_str::<T>(doc).map_err(|e| e.to_string()));
                let c = match c {
                    Ok(r) => one(r, name),
                    Err(_) => json!({"ok": false, "panic": true}),
                };
                let s = match s {
                    Ok(r) => one(r, name),
                    Err(_) => json!({"ok": false, "panic": true}),
                };
                // via the dynamic `any` representation as well
                let a = conjure_serde::json::client_from_str::<conjure_object::Any>(doc).ok().map(|a| a.deserialize_into::<T>().map_err(|e| e.to_string())).map(|r| one(r, name));
                out.push(json!({"c": c, "s": s, "a": a}));
            }
            json!({"results": out})
        }
        "smile" => {
            // valid documents only: value -> Smile -> value (client and server) -> JSON
            let mut out = vec![];
            for d in req["docs"].as_array().unwrap() {
                let doc = d.as_str().unwrap();
                match conjure_serde::json::client_from_str::<T>(doc) {
                    Err(e) => out.push(json!({"skip": e.to_string()})),
                    Ok(v) => {
                        let bytes = conjure_serde::smile::to_vec(&v).map_err(|e| e.to_string());
                        match bytes {
                            Err(e) => out.push(json!({"smile_ser_err": e})),
                            Ok(b) => {
                                let c = one(conjure_serde::smile::client_from_slice::<T>(&b).map_err(|e| e.to_string()), name);
                                let s = one(conjure_serde::smile::server_from_slice::<T>(&b).map_err(|e| e.to_string()), name);
                                let base = conjure_serde::json::to_string(&v).ok();
                                out.push(json!({"c": c, "s": s, "json": base}));
                            }
                        }
                    }
                }
            }
            json!({"results": out})
        }
        "laws" => {
            let mut vals: Vec<T> = vec![];
            let mut used = vec![];
            let mut twice = vec![];
            for d in req["docs"].as_array().unwrap() {
                let doc = d.as_str().unwrap();
                if let (Ok(a), Ok(b)) = (conjure_serde::json::client_from_str::<T>(doc), conjure_serde::json::client_from_str::<T>(doc)) {
                    if a != b || a.cmp(&b) != std::cmp::Ordering::Equal {
                        twice.push(doc.to_string());
                    }
                    vals.push(a);
                    used.push(doc.to_string());
                }
            }
            let mut fails = vec![];
            let stats = vcommon::laws::check_laws(&vals, |law, d| fails.push(json!({"law": law, "detail": d.chars().take(400).collect::<String>()})));
            json!({"values": vals.len(), "classes": stats.distinct_classes, "triples": stats.triples, "pairs": stats.pairs, "fails": fails, "twice_unequal": twice, "docs_used": used})
        }
        other => json!({"error": format!("unknown op {}", other)}),
    }
}

/// PLAIN round trip of generated enums and aliases (C12): JSON document -> value -> PLAIN
/// text -> value
pub fn run_plain<T>(req: &Value) -> Value
where
    T: Serialize + DeserializeOwned + Debug + PartialEq + conjure_object::Plain + conjure_object::FromPlain,
{
    use conjure_object::ToPlain;
    let mut out = vec![];
    for d in req["docs"].as_array().unwrap() {
        let doc = d.as_str().unwrap();
        match conjure_serde::json::client_from_str::<T>(doc) {
            Err(e) => out.push(json!({"skip": e.to_string()})),
            Ok(v) => {
                let text = v.to_plain();
                let back = T::from_plain(&text).ok();
                let same = back.as_ref().map(|b| *b == v || format!("{:?}", b) == format!("{:?}", v)).unwrap_or(false);
                out.push(json!({"plain": text, "parsed": back.is_some(), "roundtrip": same, "dbg": format!("{:?}", v).chars().take(120).collect::<String>()}));
            }
        }
    }
    json!({"results": out})
}
