//! Generic probes over generated types; the dispatcher (generated per build) maps a type id
//! to a monomorphised `run::<T>`.

use serde::de::DeserializeOwned;
use serde::Serialize;
use serde_json::{json, Value};
use std::fmt::Debug;
use std::hash::Hash;

pub type NameFn<T> = fn(&T) -> Option<String>;

fn one<T: Serialize + Debug>(r: Result<T, String>, name: Option<NameFn<T>>) -> Value {
    match r {
        Ok(v) => {
            let reser = conjure_serde::json::to_string(&v).map_err(|e| e.to_string());
            let dbg: String = format!("{:?}", v).chars().take(300).collect();
            json!({"ok": true, "reser": reser.as_ref().ok(), "reser_err": reser.as_ref().err(), "dbg": dbg, "name": name.and_then(|f| f(&v))})
        }
        Err(e) => json!({"ok": false, "err": e.chars().take(200).collect::<String>()}),
    }
}

pub fn run<T>(req: &Value, name: Option<NameFn<T>>) -> Value
where
    T: Serialize + DeserializeOwned + Debug + Ord + Hash + Clone,
{
    match req["op"].as_str().unwrap_or("") {
        "de" => {
            let mut out = vec![];
            for d in req["docs"].as_array().unwrap() {
                let doc = d.as_str().unwrap();
                let c = std::panic::catch_unwind(|| conjure_serde::json::client_from_str::<T>(doc).map_err(|e| e.to_string()));
                let s = std::panic::catch_unwind(|| conjure_serde::json::server_from_str::<T>(doc).map_err(|e| e.to_string()));
                let c = match c {
                    Ok(r) => one(r, name),
                    Err(_) => json!({"ok": false, "panic": true}),
                };
                let s = match s {
                    Ok(r) => one(r, name),
                    Err(_) => json!({"ok": false, "panic": true}),
                };
                // via the dynamic `any` representation as well
                let a = conjure_serde::json::client_from_str::<conjure_object::Any>(doc).ok().map(|a| a.deserialize_into::<T>().map_err(|e| e.to_string())).map(|r| one(r, name));
                out.push(json!({"c": c, "s": s, "a": a}));
            }
            json!({"results": out})
        }
        "smile_raw" => {
            // any JSON document rendered as Smile by plain serde_smile, then read by the
            // Conjure Smile deserializers
            let mut out = vec![];
            for d in req["docs"].as_array().unwrap() {
                let doc = d.as_str().unwrap();
                let bytes = match serde_json::from_str::<Value>(doc).ok().and_then(|v| serde_smile::to_vec(&v).ok()) {
                    Some(b) => b,
                    None => {
                        out.push(json!({"skip": "no smile rendering"}));
                        continue;
                    }
                };
                let c = std::panic::catch_unwind(|| conjure_serde::smile::client_from_slice::<T>(&bytes).map_err(|e| e.to_string()));
                let s = std::panic::catch_unwind(|| conjure_serde::smile::server_from_slice::<T>(&bytes).map_err(|e| e.to_string()));
                let c = match c {
                    Ok(r) => one(r, name),
                    Err(_) => json!({"ok": false, "panic": true}),
                };
                let s = match s {
                    Ok(r) => one(r, name),
                    Err(_) => json!({"ok": false, "panic": true}),
                };
                out.push(json!({"c": c, "s": s}));
            }
            json!({"results": out})
        }
        "smile" => {
            // valid documents only: value -> Smile -> value (client and server) -> JSON
            let mut out = vec![];
            for d in req["docs"].as_array().unwrap() {
                let doc = d.as_str().unwrap();
                match conjure_serde::json::client_from_str::<T>(doc) {
                    Err(e) => out.push(json!({"skip": e.to_string()})),
                    Ok(v) => {
                        let bytes = conjure_serde::smile::to_vec(&v).map_err(|e| e.to_string());
                        match bytes {
                            Err(e) => out.push(json!({"smile_ser_err": e})),
                            Ok(b) => {
                                let c = one(conjure_serde::smile::client_from_slice::<T>(&b).map_err(|e| e.to_string()), name);
                                let s = one(conjure_serde::smile::server_from_slice::<T>(&b).map_err(|e| e.to_string()), name);
                                let base = conjure_serde::json::to_string(&v).ok();
                                out.push(json!({"c": c, "s": s, "json": base}));
                            }
                        }
                    }
                }
            }
            json!({"results": out})
        }
        "laws" => {
            let mut vals: Vec<T> = vec![];
            let mut used = vec![];
            let mut twice = vec![];
            for d in req["docs"].as_array().unwrap() {
                let doc = d.as_str().unwrap();
                if let (Ok(a), Ok(b)) = (conjure_serde::json::client_from_str::<T>(doc), conjure_serde::json::client_from_str::<T>(doc)) {
                    if a != b || a.cmp(&b) != std::cmp::Ordering::Equal {
                        twice.push(doc.to_string());
                    }
                    vals.push(a);
                    used.push(doc.to_string());
                }
            }
            let mut fails = vec![];
            let stats = vcommon::laws::check_laws(&vals, |law, d| fails.push(json!({"law": law, "detail": d.chars().take(400).collect::<String>()})));
            json!({"values": vals.len(), "classes": stats.distinct_classes, "triples": stats.triples, "pairs": stats.pairs, "fails": fails, "twice_unequal": twice, "docs_used": used})
        }
        other => json!({"error": format!("unknown op {}", other)}),
    }
}

/// PLAIN round trip of generated enums and aliases (C12): JSON document -> value -> PLAIN
/// text -> value
pub fn run_plain<T>(req: &Value) -> Value
where
    T: Serialize + DeserializeOwned + Debug + PartialEq + conjure_object::Plain + conjure_object::FromPlain,
{
    use conjure_object::ToPlain;
    let mut out = vec![];
    // op "from_plain": the texts themselves go through FromPlain (the FromStr of enums)
    if req["op"].as_str() == Some("from_plain") {
        for d in req["docs"].as_array().unwrap() {
            let text = d.as_str().unwrap();
            match vcommon::catch(|| T::from_plain(text).ok()) {
                Err(p) => out.push(json!({"panic": p})),
                Ok(None) => out.push(json!({"ok": false})),
                Ok(Some(v)) => out.push(json!({"ok": true, "dbg": format!("{:?}", v).chars().take(120).collect::<String>(), "plain": v.to_plain(), "json": conjure_serde::json::to_string(&v).ok()})),
            }
        }
        return json!({"results": out});
    }
    for d in req["docs"].as_array().unwrap() {
        let doc = d.as_str().unwrap();
        match conjure_serde::json::client_from_str::<T>(doc) {
            Err(e) => out.push(json!({"skip": e.to_string()})),
            Ok(v) => {
                let text = v.to_plain();
                let back = T::from_plain(&text).ok();
                let same = back.as_ref().map(|b| *b == v || format!("{:?}", b) == format!("{:?}", v)).unwrap_or(false);
                out.push(json!({"plain": text, "parsed": back.is_some(), "roundtrip": same, "dbg": format!("{:?}", v).chars().take(120).collect::<String>()}));
            }
        }
    }
    json!({"results": out})
}

/// generated error types (C17): JSON document -> error value -> encode / Error::service*
pub fn run_error<T>(req: &Value) -> Value
where
    T: Serialize + DeserializeOwned + Clone + conjure_error::ErrorType,
{
    use conjure_error::{encode, Error, ErrorKind, ErrorType, SerializableError};
    fn to_value<S: Serialize>(v: &S) -> Value {
        conjure_serde::json::to_string(v).ok().and_then(|s| serde_json::from_str(&s).ok()).unwrap_or(Value::Null)
    }
    fn params(e: &Error) -> Value {
        let mut safe = serde_json::Map::new();
        let mut unsafe_ = serde_json::Map::new();
        for (k, v) in e.safe_params().iter() {
            safe.insert(k.to_string(), to_value(v));
        }
        for (k, v) in e.unsafe_params().iter() {
            unsafe_.insert(k.to_string(), to_value(v));
        }
        let kind = match e.kind() {
            ErrorKind::Service(s) => to_value(s),
            _ => json!("not-a-service-error"),
        };
        json!({"safe": safe, "unsafe": unsafe_, "cause_safe": e.cause_safe(), "kind": kind})
    }
    let id = conjure_object::Uuid::from_u128(0x0123_4567_89ab_4def_8edc_ba98_7654_3210);
    let mut out = vec![];
    for d in req["docs"].as_array().unwrap() {
        let doc = d.as_str().unwrap();
        let v: T = match conjure_serde::json::client_from_str::<T>(doc) {
            Err(e) => {
                out.push(json!({"skip": e.to_string()}));
                continue;
            }
            Ok(v) => v,
        };
        let enc = encode(&v);
        let enc2 = encode(&v);
        let with_id = encode(&v.clone().with_instance_id(id));
        let wid = v.clone().with_instance_id(id);
        let with_id_by_ref = encode(&&wid);
        let service_by_ref = Error::service("cause", &wid);
        let text = conjure_serde::json::to_string(&enc).unwrap_or_default();
        let back = conjure_serde::json::client_from_str::<SerializableError>(&text);
        let (rt_equal, rt_text) = match &back {
            Ok(b) => (*b == enc, conjure_serde::json::to_string(b).unwrap_or_default()),
            Err(e) => (false, format!("<rejected: {}>", e)),
        };
        let smile = conjure_serde::smile::to_vec(&enc).ok().and_then(|b| conjure_serde::smile::client_from_slice::<SerializableError>(&b).ok()).map(|b| b == enc).unwrap_or(false);
        out.push(json!({
            "code": to_value(&v.code()),
            "status": v.code().status_code(),
            "name": v.name(),
            "instance_id": v.instance_id().map(|u| u.to_string()),
            "safe_args": v.safe_args(),
            "encoded": to_value(&enc),
            "second_instance_id": enc2.error_instance_id().to_string(),
            "with_id": to_value(&with_id),
            "with_id_by_ref": to_value(&with_id_by_ref),
            "service_by_ref": params(&service_by_ref),
            "json_roundtrip_equal": rt_equal,
            "json_text": text,
            "json_text_after_roundtrip": rt_text,
            "smile_roundtrip_equal": smile,
            "service": params(&Error::service("cause", v.clone())),
            "service_safe": params(&Error::service_safe("cause", v.clone())),
            "propagated": params(&Error::propagated_service("cause", enc.clone())),
            "propagated_safe": params(&Error::propagated_service_safe("cause", enc.clone())),
        }));
    }
    json!({"results": out})
}
