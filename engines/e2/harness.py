"""E2 plumbing: run the real generator on IR documents, assemble probe / check crates around
the generated module trees, build them with cargo (offline, against /repo's crates), and
talk to the probe binaries."""
import concurrent.futures
import hashlib
import json
import os
import shutil
import subprocess
import sys

ROOT = os.path.abspath(os.path.join(os.path.dirname(os.path.abspath(__file__)), "..", ".."))
WORK = os.path.join(ROOT, "work", "e2")
TARGET = os.path.join(ROOT, "target")
E2_TARGET = os.path.join(TARGET, "e2")
GENLIB = os.environ.get("VERIF_GENLIB") or os.path.join(TARGET, "release", "cgorder")
PROBE_SRC = os.path.join(os.path.dirname(os.path.abspath(__file__)), "probe_src", "probe.rs")


def env():
    e = dict(os.environ)
    e["CARGO_NET_OFFLINE"] = "true"
    e["RUST_BACKTRACE"] = "0"
    e.pop("RUSTFLAGS", None)
    e.pop("CARGO_TARGET_DIR", None)
    return e


def sync_file(path, content):
    """write only when the content changed (keeps mtimes so cargo can reuse its build)"""
    if isinstance(content, str):
        content = content.encode()
    try:
        with open(path, "rb") as f:
            if f.read() == content:
                return False
    except FileNotFoundError:
        pass
    os.makedirs(os.path.dirname(path), exist_ok=True)
    with open(path, "wb") as f:
        f.write(content)
    return True


def sync_tree(src, dst):
    """make dst identical to src, touching only files whose content differs"""
    seen = set()
    for base, _dirs, files in os.walk(src):
        rel = os.path.relpath(base, src)
        for fn in files:
            sp = os.path.join(base, fn)
            dp = os.path.normpath(os.path.join(dst, rel, fn))
            seen.add(dp)
            with open(sp, "rb") as f:
                sync_file(dp, f.read())
    for base, _dirs, files in os.walk(dst):
        for fn in files:
            dp = os.path.normpath(os.path.join(base, fn))
            if dp not in seen:
                os.remove(dp)


def generate(ir, out_dir, exhaustive=False, serialize_empty=False, strip=None, crate=None, version=None):
    """runs the real generator (library entry point, fresh process). Returns (ok, stderr)."""
    tmp = out_dir + ".tmp"
    shutil.rmtree(tmp, ignore_errors=True)
    os.makedirs(tmp, exist_ok=True)
    ir_path = tmp + ".ir.json"
    with open(ir_path, "w") as f:
        json.dump(ir, f)
    args = [GENLIB, "__genlib", ir_path, tmp, "true" if exhaustive else "false", "true" if serialize_empty else "false", strip or "-",
            crate[0] if crate else "-", (crate[1] if crate else (version or "-")), "-"]
    p = subprocess.run(args, env=env(), stdout=subprocess.PIPE, stderr=subprocess.PIPE, text=True)
    ok = p.returncode == 0
    if ok:
        sync_tree(tmp, out_dir)
    shutil.rmtree(tmp, ignore_errors=True)
    os.remove(ir_path)
    return ok, p.stderr[-2000:]


def generate_many(jobs, threads=16):
    """jobs: list of (key, ir, out_dir, kwargs) -> {key: (ok, stderr)}"""
    out = {}
    with concurrent.futures.ThreadPoolExecutor(threads) as ex:
        futs = {ex.submit(generate, ir, d, **kw): key for key, ir, d, kw in jobs}
        for f in concurrent.futures.as_completed(futs):
            out[futs[f]] = f.result()
    return out


CARGO_TOML = """[package]
name = "%s"
version = "0.0.0"
edition = "2021"

[workspace]

[dependencies]
conjure-object = { path = "/repo/conjure-object" }
conjure-error = { path = "/repo/conjure-error" }
conjure-http = { path = "/repo/conjure-http" }
conjure-serde = { path = "/repo/conjure-serde" }
serde = "1"
serde_json = "1"
serde-smile = "0.2"
vcommon = { path = "%s/engines/vcommon" }

[profile.dev]
debug = 0
opt-level = 0
incremental = false

[profile.release]
debug = 0
opt-level = 1
codegen-units = 16
incremental = false
"""


def write_crate(crate_dir, name, main_rs=None, lib_rs=None):
    sync_file(os.path.join(crate_dir, "Cargo.toml"), CARGO_TOML % (name, ROOT))
    lock = os.path.join(crate_dir, "Cargo.lock")
    if not os.path.exists(lock):
        shutil.copy(os.path.join(ROOT, "engines", "Cargo.lock"), lock)
    if main_rs is not None:
        sync_file(os.path.join(crate_dir, "src", "main.rs"), main_rs)
        with open(PROBE_SRC, "rb") as f:
            sync_file(os.path.join(crate_dir, "src", "probe.rs"), f.read())
    if lib_rs is not None:
        sync_file(os.path.join(crate_dir, "src", "lib.rs"), lib_rs)


def cargo(crate_dir, sub, extra=(), json_messages=False, jobs=None):
    cmd = ["cargo", sub, "--offline", "--target-dir", E2_TARGET] + list(extra)
    if jobs:
        cmd += ["-j", str(jobs)]
    if json_messages:
        cmd += ["--message-format=json"]
    p = subprocess.run(cmd, cwd=crate_dir, env=env(), stdout=subprocess.PIPE, stderr=subprocess.PIPE, text=True)
    return p


def compile_errors(stdout):
    """compiler errors from --message-format=json: list of (file, code, message)"""
    out = []
    for line in stdout.splitlines():
        if not line.startswith("{"):
            continue
        try:
            m = json.loads(line)
        except ValueError:
            continue
        if m.get("reason") != "compiler-message":
            continue
        msg = m["message"]
        if msg.get("level") != "error":
            continue
        spans = msg.get("spans") or [{}]
        primary = [s for s in spans if s.get("is_primary")] or spans
        out.append((primary[0].get("file_name", "?"), (msg.get("code") or {}).get("code", ""), msg.get("message", "")))
    return out


class Probe:
    """a running probe binary speaking JSON lines"""

    def __init__(self, exe):
        self.p = subprocess.Popen([exe], stdin=subprocess.PIPE, stdout=subprocess.PIPE, text=True, env=env())

    def ask(self, req):
        self.p.stdin.write(json.dumps(req) + "\n")
        self.p.stdin.flush()
        line = self.p.stdout.readline()
        if not line:
            raise RuntimeError("probe died on %s" % json.dumps(req)[:300])
        return json.loads(line)

    def close(self):
        try:
            self.p.stdin.close()
            self.p.wait(timeout=10)
        except Exception:
            self.p.kill()


DISPATCH_MAIN = """#![allow(warnings)]
mod probe;
%(mods)s

use serde_json::{json, Value};
use std::io::{BufRead, Write};

fn dispatch(ty: &str, req: &Value) -> Value {
    match ty {
%(arms)s
        other => json!({"error": format!("unknown type {}", other)}),
    }
}

fn main() {
    std::panic::set_hook(Box::new(|_| {}));
    let stdin = std::io::stdin();
    let stdout = std::io::stdout();
    for line in stdin.lock().lines() {
        let line = line.unwrap();
        let req: Value = serde_json::from_str(&line).unwrap();
        let ty = req["ty"].as_str().unwrap_or("").to_string();
        let resp = match std::panic::catch_unwind(|| dispatch(&ty, &req)) {
            Ok(v) => v,
            Err(_) => json!({"panic": true}),
        };
        let mut out = stdout.lock();
        writeln!(out, "{}", resp).unwrap();
        out.flush().unwrap();
    }
}
"""
