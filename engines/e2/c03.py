def run(a, rep, TypesBuild, tref):
    rep.cap("not built yet")
