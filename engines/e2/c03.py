"""C03 — code generation succeeds and its output compiles for every valid definition.

Programs are enumerated from a grammar (type shapes in every position, recursion, names that
collide with Rust keywords / prelude / generator imports, nested packages, service features,
configurations); each is run through the real generator in its own process (a generation
failure aborts a whole IR, so risky items are isolated) and the emitted trees are packed as
modules into a few crates that are type-checked with `cargo check` against /repo's crates."""
import json
import os
import re
import shutil
import time

import harness as H
import space
from space import PKG, R

S, I, D, B = space.prim("STRING"), space.prim("INTEGER"), space.prim("DOUBLE"), space.prim("BOOLEAN")

KEYWORDS = ["as", "break", "const", "continue", "crate", "else", "enum", "extern", "false", "fn", "for", "if", "impl", "in", "let", "loop", "match", "mod", "move", "mut", "pub", "ref",
            "return", "self", "static", "struct", "super", "trait", "true", "type", "unsafe", "use", "where", "while", "async", "await", "dyn", "abstract", "become", "box", "do", "final",
            "macro", "override", "priv", "typeof", "unsized", "virtual", "yield", "try", "gen", "union", "auto", "default", "raw", "safe"]
# identifiers the generated code itself uses (prelude, imports, helper names)
IDENTS = ["Option", "Some", "None", "Box", "Vec", "String", "Result", "Ok", "Err", "Into", "IntoIterator", "Iterator", "Send", "Sync", "Default", "Clone", "Debug", "Copy", "Unknown", "Builder",
          "Self", "From", "Display", "PartialEq", "Eq", "PartialOrd", "Ord", "Hash", "BTreeMap", "BTreeSet", "Any", "Bytes", "Uuid", "DateTime", "Utc", "SafeLong", "DoubleKey",
          "ResourceIdentifier", "BearerToken", "Error", "Variant", "Type", "Value", "Visitor", "Stage0", "Deserialize", "Serialize", "Educe", "Client", "Endpoint",
          # names the staged-builder derive and the endpoint / client macros emit or import
          "Complete", "AStage", "Service", "AsyncService", "AsyncClient", "RequestContext", "Arc", "Future", "Pin", "Cow", "Request", "Response", "Extensions", "Method", "Plain", "FromPlain"]
# lower-case names the generated code uses for locals / helpers / methods
LOCALS = ["builder", "build", "new", "value", "type", "variant", "map", "s", "d", "fmt", "request", "response", "path", "body", "auth", "runtime", "client", "handler", "parts", "it", "key",
          "visitor", "deserializer", "serializer", "from", "into", "iter", "clone", "default", "ser", "de", "conjureObject", "conjure_object", "std", "core", "serde", "result", "option", "vec", "string",
          "unknown", "safeParams", "requestContext", "responseExtensions", "queryParams"]


class Program:
    def __init__(self, pid, label, ir, cfg=None, cls=None, expose=False):
        self.pid = pid
        self.label = label
        self.ir = ir
        self.cfg = cfg or {}
        self.cls = cls or label
        # also check that every declared type / error / client / server trait is reachable under
        # its package's module (packages made of plain lower-case components only)
        self.expose = expose

    def exposed_paths(self):
        strip = (self.cfg.get("strip") or "")
        strip = strip.split(".") if strip else []
        def mod(pkg):
            comps = pkg.split(".")
            if strip and comps[:len(strip)] == strip:
                comps = comps[len(strip):]
            return "::".join(["crate", self.pid] + comps)
        out = []
        for t in self.ir.get("types", []):
            tn = t[t["type"]]["typeName"]
            # (names the generator re-cases - consecutive capitals - are left out: their Rust
            # spelling is the generator's choice)
            if re.search(r"[A-Z]{2}", tn["name"]):
                continue
            out.append("%s::%s" % (mod(tn["package"]), tn["name"]))
        for e in self.ir.get("errors", []):
            tn = e["errorName"]
            out.append("%s::%s" % (mod(tn["package"]), tn["name"]))
        for sv in self.ir.get("services", []):
            tn = sv["serviceName"]
            for n in (tn["name"], "Async" + tn["name"], tn["name"] + "Client", tn["name"] + "AsyncClient"):
                out.append("%s::%s" % (mod(tn["package"]), n))
        return out


def to_upper_snake(n):
    return re.sub(r"(?<=[a-z0-9])([A-Z])", r"_\1", n).upper()


def shape_programs(thorough):
    """type shapes in every position that accepts them"""
    shs = space.shapes(2, thorough)
    if not thorough:
        l2 = [s for s in shs if s.depth == 2]
        picked = l2[::3] + [s for s in l2 if not space.compilable(s)]
        # ... and the depth-2 shapes of the shared type build of C02 / C05 / C10 / C14, so that
        # anything that stops compiling there is a C03 verdict here
        picked += [s for s in [x for x in l2 if space.compilable(x)][::4] if s not in picked]
        # every double below a set / map key switches to the DoubleKey form: keep all of those
        picked += [s for s in l2 if s.has_double and s.text.startswith(("set<", "map<double", "map<AliasDbl")) and s not in picked]
        shs = [s for s in shs if s.depth < 2] + picked
    progs = []
    per = 12
    for ci in range(0, len(shs), per):
        part = shs[ci:ci + per]
        types, _ = space.types_for_shapes(part, ci)
        errs, eps = [], []
        for j, s in enumerate(part):
            n = ci + j
            errs.append(space.error("Err%d" % n, "Verif", "INVALID_ARGUMENT", [space.field("safeArg", s.ir)], [space.field("unsafeArg", s.ir), space.field("other", S)], PKG))
            eps.append(space.endpoint("body%d" % n, "POST", "/b/%d" % n, [space.arg("body", s.ir, "body")], returns=s.ir))
        svc = space.service("ShapeService%d" % ci, eps, PKG)
        label = "shapes[" + "; ".join(s.text for s in part) + "]"
        progs.append(Program("sh%d" % ci, label, space.ir(space.FIXED_TYPES + types, [svc], errs), cls="type-shapes"))
    # known-doubtful single shapes get a program of their own so that they are attributable
    return progs, shs


PLAIN_LEAVES = [("string", S), ("integer", I), ("double", D), ("boolean", B), ("safelong", space.prim("SAFELONG")), ("uuid", space.prim("UUID")), ("rid", space.prim("RID")),
                ("datetime", space.prim("DATETIME")), ("binary", space.prim("BINARY")), ("E", R("E")), ("AliasStr", R("AliasStr")), ("AliasDbl", R("AliasDbl")), ("AliasBin", R("AliasBin"))]


def param_programs():
    """PLAIN-capable shapes as path, query and header parameters — one program per (leaf, kind)"""
    progs = []
    for name, t in PLAIN_LEAVES + [("bearertoken", space.prim("BEARERTOKEN"))]:
        variants = [("path", t, "path")] if name != "bearertoken" else []
        if name != "bearertoken":
            variants += [("query", t, "query"), ("query-optional", space.opt(t), "query"), ("query-list", space.lst(t), "query"), ("query-set", space.st(t), "query")]
        variants += [("header", t, "header"), ("header-optional", space.opt(t), "header")]
        for vname, vt, kind in variants:
            if kind == "path":
                ep = space.endpoint("ep", "GET", "/p/{arg}", [space.arg("arg", vt, "path")])
            elif kind == "query":
                ep = space.endpoint("ep", "GET", "/p", [space.arg("arg", vt, "query", "arg")])
            else:
                ep = space.endpoint("ep", "GET", "/p", [space.arg("arg", vt, "header", "X-Arg")])
            pid = "param_%s_%s" % (name, vname.replace("-", "_"))
            progs.append(Program(pid, "%s parameter of type %s" % (vname, name if "-" not in vname else vname.split("-")[1] + "<" + name + ">"), space.ir(space.FIXED_TYPES, [space.service("ParamService", [ep], PKG)]), cls="parameter:%s:%s" % (vname, name)))
    # aliases of optional / list as query and header parameters
    extra = [space.alias("OptInt", space.opt(I), PKG), space.alias("ListStr", space.lst(S), PKG), space.alias("SetE", space.st(R("E")), PKG), space.alias("OptAliasAlias", R("OptInt"), PKG)]
    eps = [space.endpoint("q", "GET", "/q", [space.arg("a", R("OptInt"), "query", "a"), space.arg("b", R("ListStr"), "query", "b"), space.arg("c", R("SetE"), "query", "c"), space.arg("d", R("OptAliasAlias"), "query", "d"),
                                            space.arg("h", R("OptInt"), "header", "X-H"), space.arg("i", R("OptAliasAlias"), "header", "X-I")])]
    progs.append(Program("param_aliases", "alias-of-optional / alias-of-collection parameters", space.ir(space.FIXED_TYPES + extra, [space.service("AliasParams", eps, PKG)]), cls="parameter:aliases"))
    return progs


def name_programs(thorough):
    progs = []
    lower = list(dict.fromkeys(KEYWORDS + LOCALS))
    for n in lower:
        if n == "body":
            continue
        safe = re.sub(r"[^a-zA-Z0-9]", "_", n)
        # the member in every requiredness class (required / optional / list / map / alias of
        # optional), in objects with and without a generated constructor (<= 3 required fields)
        types = [space.obj("Holder", [space.field(n, S), space.field("other", space.opt(I))], PKG),
                 space.obj("HolderOpt", [space.field("xf1", S), space.field(n, space.opt(B))], PKG),
                 space.obj("HolderList", [space.field(n, space.lst(S))], PKG),
                 space.obj("HolderMap", [space.field(n, space.mp(S, I)), space.field("xa1", S), space.field("xb1", S), space.field("xc1", S), space.field("xd1", S)], PKG),
                 space.alias("MaybeStr", space.opt(S), PKG),
                 space.obj("HolderAliasOpt", [space.field(n, R("MaybeStr")), space.field("xe1", D)], PKG),
                 space.union("Pick", [space.field(n, S), space.field("otherwise", I)], PKG)]
        progs.append(Program("nm_field_%s" % safe, "field / union variant named `%s`" % n, space.ir(types), cls="name:field:" + n))
        ep = space.endpoint(n, "POST", "/x/{%s}" % n, [space.arg(n, S, "path"), space.arg(n + "Q", opt_s(), "query", n), space.arg("body", S, "body")], returns=S)
        progs.append(Program("nm_endpoint_%s" % safe, "endpoint and path argument named `%s`" % n, space.ir([], [space.service("Svc", [ep], PKG)]), cls="name:endpoint+arg:" + n))
        err = space.error("Oops", "Ns", "INTERNAL", [space.field(n, S)], [space.field("zzz", I)], PKG)
        progs.append(Program("nm_errarg_%s" % safe, "error argument named `%s`" % n, space.ir([], [], [err]), cls="name:error-arg:" + n))
        if n in KEYWORDS:
            t = space.obj("InPkg", [space.field("a", S)], "com.verif.%s.inner" % n)
            u = space.obj("User", [space.field("r", space.ref("InPkg", "com.verif.%s.inner" % n))], "com.verif.other")
            progs.append(Program("nm_pkg_%s" % safe, "package segment named `%s`" % n, space.ir([t, u]), cls="name:package:" + n))
    for n in IDENTS + [k.capitalize() for k in ("self", "type", "box", "async", "try") if k.capitalize() not in IDENTS]:
        types = [space.obj(n, [space.field("a", S), space.field("again", space.opt(space.ref(n, PKG)))], PKG),
                 space.obj("Uses" + n, [space.field("x", space.ref(n, PKG)), space.field("xs", space.lst(space.ref(n, PKG))), space.field("m", space.mp(S, space.ref(n, PKG)))], PKG),
                 space.union("Pick" + n, [space.field("it", space.ref(n, PKG)), space.field("s", S), space.field("o", space.opt(I))], PKG),
                 space.alias("Alias" + n, space.lst(space.ref(n, PKG)), PKG)]
        ep = space.endpoint("go", "POST", "/go", [space.arg("body", space.ref(n, PKG), "body")], returns=space.opt(space.ref(n, PKG)))
        progs.append(Program("nm_type_%s" % n, "object type named `%s`" % n, space.ir(types, [space.service("Svc" + n, [ep], PKG)]), cls="name:type:" + n))
        up = to_upper_snake(n)
        if up != "UNKNOWN":
            progs.append(Program("nm_enum_%s" % n, "enum value named `%s`" % up, space.ir([space.enum("En", [up, "OTHER_ONE"], PKG), space.obj("HasEn", [space.field("e", R("En"))], PKG)]), cls="name:enum-value:" + up))
        if thorough or n in ("Self", "Send", "Sync", "Unknown", "Option", "Box", "Error", "Client"):
            progs.append(Program("nm_union_%s" % n, "union type named `%s`" % n, space.ir([space.union(n, [space.field("a", S), space.field("b", space.lst(space.ref(n, PKG)))], PKG)]), cls="name:union-type:" + n))
            progs.append(Program("nm_enumt_%s" % n, "enum type named `%s`" % n, space.ir([space.enum(n, ["A", "B"], PKG), space.obj("H", [space.field("e", space.ref(n, PKG))], PKG)]), cls="name:enum-type:" + n))
            progs.append(Program("nm_svc_%s" % n, "service named `%s`" % n, space.ir([], [space.service(n, [space.endpoint("go", "GET", "/go", []), space.endpoint("up", "POST", "/up", [space.arg("body", space.prim("BINARY"), "body")], returns=space.prim("BINARY")),
                                                                                                                          space.endpoint("ob", "GET", "/ob", [], returns=space.opt(space.prim("BINARY")), auth="header")], PKG)]), cls="name:service:" + n))
    return progs


def opt_s():
    return space.opt(S)


def recursion_program():
    sp, _ = space.special_types()
    extra = [
        space.alias("LoopList", space.lst(R("LoopNode")), PKG),
        space.obj("LoopNode", [space.field("next", R("LoopList")), space.field("m", space.mp(S, R("LoopList"))), space.field("d", space.opt(D))], PKG),
        space.union("Tree", [space.field("leaf", D), space.field("node", space.lst(R("Tree"))), space.field("named", space.mp(S, R("Tree"))), space.field("maybe", space.opt(R("Tree")))], PKG),
        space.obj("Direct", [space.field("u", R("DirectU"))], PKG),
        space.union("DirectU", [space.field("stop", I), space.field("more", R("Direct"))], PKG),
        space.obj("SetOfSelf", [space.field("kids", space.st(R("SetOfSelf"))), space.field("d", D)], PKG),
        # a union recursive only through aliases (direct alias, alias of optional, alias of alias)
        space.alias("ExprAlias", R("Expr"), PKG),
        space.alias("MaybeExpr", space.opt(R("Expr")), PKG),
        space.alias("ExprAliasAlias", R("ExprAlias"), PKG),
        space.union("Expr", [space.field("negated", R("ExprAlias")), space.field("maybe", R("MaybeExpr")), space.field("twice", R("ExprAliasAlias")), space.field("lit", I)], PKG),
        # an object recursive through an alias of itself inside an optional field, and an error argument of a recursive type
        space.alias("NodeAlias", R("AliasedNode"), PKG),
        space.obj("AliasedNode", [space.field("next", space.opt(R("NodeAlias"))), space.field("u", space.opt(R("Expr")))], PKG),
    ]
    eps = [space.endpoint("tree", "POST", "/tree", [space.arg("body", R("Tree"), "body")], returns=R("LoopNode"))]
    return Program("recursion", "recursive types (through optional, list, set, map value, union, alias)", space.ir(space.FIXED_TYPES + sp + extra, [space.service("Rec", eps, PKG)]), cls="recursion")


def package_programs():
    progs = []
    # incl. packages that differ in one component and agree again at a later index
    pkgs = ["com.verif", "com.verif.a", "com.verif.a.b", "com.verif.c", "com.other.deep.er", "com", "com.verif.x.api", "com.verif.y.api", "com.verif.y.x.api", "org.verif.a"]
    types = []
    for i, p in enumerate(pkgs):
        refs = [space.field("r%d" % j, space.opt(space.ref("T%d" % j, q))) for j, q in enumerate(pkgs)]
        types.append(space.obj("T%d" % i, [space.field("s", S)] + refs, p))
        types.append(space.union("U%d" % i, [space.field("t%d" % j, space.ref("T%d" % j, q)) for j, q in enumerate(pkgs)], p))
        types.append(space.alias("A%d" % i, space.lst(space.ref("U%d" % ((i + 1) % len(pkgs)), pkgs[(i + 1) % len(pkgs)])), p))
        types.append(space.enum("E%d" % i, ["X"], p))
        # aliases of aliases (and of optionals / sets / maps of aliases) that live in other packages:
        # every type path the alias's impls mention is relative to the *outer* alias's module
        nxt, nxp = (i + 3) % len(pkgs), pkgs[(i + 3) % len(pkgs)]
        types.append(space.alias("AA%d" % i, space.ref("A%d" % nxt, nxp), p))
        types.append(space.alias("AAA%d" % i, space.ref("AA%d" % nxt, nxp), p))
        types.append(space.alias("AS%d" % i, space.st(space.ref("E%d" % nxt, nxp)), p))
        types.append(space.alias("AAS%d" % i, space.ref("AS%d" % ((i + 5) % len(pkgs)), pkgs[(i + 5) % len(pkgs)]), p))
        types.append(space.alias("AM%d" % i, space.mp(space.ref("E%d" % nxt, nxp), space.ref("T%d" % ((i + 4) % len(pkgs)), pkgs[(i + 4) % len(pkgs)])), p))
        types.append(space.alias("AAM%d" % i, space.ref("AM%d" % ((i + 6) % len(pkgs)), pkgs[(i + 6) % len(pkgs)]), p))
        types.append(space.alias("AO%d" % i, space.opt(space.ref("AA%d" % ((i + 7) % len(pkgs)), pkgs[(i + 7) % len(pkgs)])), p))
        types.append(space.alias("AE%d" % i, space.ref("E%d" % nxt, nxp), p))
        types.append(space.alias("AAE%d" % i, space.ref("AE%d" % ((i + 2) % len(pkgs)), pkgs[(i + 2) % len(pkgs)]), p))
        types.append(space.obj("H%d" % i, [space.field("a", space.ref("AAA%d" % nxt, nxp)), space.field("s", space.ref("AAS%d" % nxt, nxp)), space.field("m", space.ref("AAM%d" % nxt, nxp)), space.field("o", space.ref("AO%d" % nxt, nxp)), space.field("k", space.mp(space.ref("AAE%d" % nxt, nxp), S))], p))
    errs = [space.error("Bad", "Ns", "CONFLICT", [space.field("t", space.ref("T2", pkgs[2]))], [], "com.verif.a")]
    svcs = [space.service("Svc%d" % i, [space.endpoint("e", "POST", "/e", [space.arg("body", space.ref("T%d" % ((i + 2) % len(pkgs)), pkgs[(i + 2) % len(pkgs)]), "body")], returns=space.ref("A%d" % i, p))], p) for i, p in enumerate(pkgs)]
    ir = space.ir(types, svcs, errs)
    for strip in [None, "com", "com.verif", "com.verif.a", "org.nomatch", "com.ver"]:
        progs.append(Program("pkg_strip_%s" % (strip or "none").replace(".", "_"), "nested packages referencing each other, stripPrefix=%s" % strip, ir, cfg={"strip": strip}, cls="packages:strip=%s" % strip, expose=True))
    # packages that hold only a service, only an error, only a type (a prefix must be stripped from all alike)
    ir2 = space.ir([space.obj("Model", [space.field("s", S)], "com.verif.model"), space.enum("Kind", ["A"], "com.verif")],
                   [space.service("Api", [space.endpoint("get", "GET", "/g", [], returns=space.ref("Model", "com.verif.model"))], "com.verif.api"), space.service("Deep", [space.endpoint("e", "POST", "/e", [])], "com.verif.api.v2.internal")],
                   [space.error("Oops", "Ns", "CONFLICT", [], [], "com.verif.errs")])
    for strip in [None, "com", "com.verif", "com.verif.api", "com.verif.model"]:
        progs.append(Program("pkgonly_%s" % (strip or "none").replace(".", "_"), "packages holding only a service / only an error / only a type, stripPrefix=%s" % strip, ir2, cfg={"strip": strip}, cls="packages-single-kind:strip=%s" % strip, expose=True))
    return progs


def service_programs():
    progs = []
    BIN, OBIN, ABIN = space.prim("BINARY"), space.opt(space.prim("BINARY")), R("AliasBin")
    eps = []
    n = 0
    for auth in [None, "header", "SESSION"]:
        for ctx in [[], ["server-request-context"]]:
            eps.append(space.endpoint("noArgs%d" % n, "GET", "/n/%d" % n, [], auth=auth, tags=ctx))
            eps.append(space.endpoint("args%d" % n, "PUT", "/a/%d/{p}" % n, [space.arg("p", I, "path"), space.arg("q", space.opt(S), "query", "q"), space.arg("body", R("Obj"), "body")], returns=space.lst(S), auth=auth, tags=ctx))
            # safe-to-log arguments of every kind next to the request context
            eps.append(space.endpoint("safeArgs%d" % n, "POST", "/s/%d/{p}/{e}" % n, [space.arg("p", I, "path", safety="SAFE"), space.arg("e", R("E"), "path"), space.arg("q", space.opt(S), "query", "q", markers=[space.SAFE_MARKER]),
                                                                                 space.arg("h", S, "header", "X-H", tags=["safe"]), space.arg("body", space.lst(R("E")), "body")], returns=S, auth=auth, tags=ctx))
            n += 1
    for body, ret in [(BIN, None), (None, BIN), (BIN, BIN), (None, OBIN), (ABIN, ABIN), (OBIN, None), (space.opt(R("Obj")), space.opt(R("Obj"))), (R("AliasOpt"), R("AliasOpt")), (R("AliasList"), R("AliasList")), (space.prim("ANY"), space.prim("ANY")), (None, space.opt(ABIN))]:
        args = [space.arg("body", body, "body")] if body is not None else []
        eps.append(space.endpoint("io%d" % n, "POST", "/io/%d" % n, args, returns=ret))
        n += 1
    for lim in ["8b", "1 kb", "2MiB", "10mb", "1 GiB", "77"]:
        eps.append(space.endpoint("limit%d" % n, "POST", "/l/%d" % n, [space.arg("body", S, "body")], tags=["server-limit-request-size: %s" % lim]))
        n += 1
    eps.append(space.endpoint("documented", "DELETE", "/d", [], docs="Does a thing.\n\n```\nlet x = code();\n```\n\n```java\nint y;\n```\nTrailing `inline` and */ odd /* chars \\ \"quoted\".", deprecated="use something else"))
    eps.append(space.endpoint("markers", "GET", "/m/{id}", [space.arg("id", S, "path", markers=[space.SAFE_MARKER]), space.arg("t", S, "query", "t", tags=["safe", "other"])], markers=[space.external("Incubating", "com.palantir.foo", space.prim("ANY"))], tags=["some-tag", "another"]))
    eps.append(space.endpoint("regexPath", "GET", "/files/{id}/{rest:.+}", [space.arg("id", S, "path"), space.arg("rest", S, "path")], returns=S))
    eps.append(space.endpoint("regexStar", "GET", "/star/{rest:.*}", [space.arg("rest", S, "path")]))
    eps.append(space.endpoint("manyQuery", "GET", "/mq", [space.arg("a%d" % i, space.opt(I), "query", "a-%d" % i) for i in range(12)]))
    types = [space.obj("Documented", [space.field("f", S, docs="field docs with ``` fence\n```\ncode\n```", deprecated="old")], PKG, docs="Type docs.\n\n```\nuntagged fence\n```")]
    progs.append(Program("services", "service features (auth kinds, request context, binary bodies/returns, size limits, docs, markers, tags)", space.ir(space.FIXED_TYPES + types, [space.service("Features", eps, PKG, docs="Service docs ```\nfence\n```")]), cls="service-features"))
    # services of sizes 0 / 1 and a service without binary anywhere
    progs.append(Program("svc_empty", "service with no endpoints", space.ir([], [space.service("Nothing", [], PKG)]), cls="service:empty"))
    progs.append(Program("svc_only_optbin", "service whose only streaming endpoint returns optional<binary>", space.ir([], [space.service("OptBin", [space.endpoint("get", "GET", "/g", [], returns=OBIN), space.endpoint("other", "GET", "/o", [], returns=S)], PKG)]), cls="service:only-optional-binary-return"))
    progs.append(Program("svc_only_binreq", "service whose only streaming endpoint takes a binary body", space.ir([], [space.service("BinReq", [space.endpoint("put", "POST", "/p", [space.arg("body", BIN, "body")]), space.endpoint("other", "GET", "/o", [], returns=S)], PKG)]), cls="service:only-binary-request"))
    # path templates at the edges of the grammar: the root alone, single segments, a parameter as
    # the only segment, many literal segments, literals with every unreserved punctuation
    progs.append(Program("svc_root_path", "service with endpoints at /, /a, /{p}, /a/b/c/d/e/f/g/h and /a-b.c_d~e", space.ir([], [space.service("Roots", [
        space.endpoint("root", "GET", "/", [], returns=S),
        space.endpoint("rootPost", "POST", "/", [space.arg("body", S, "body")]),
        space.endpoint("one", "GET", "/a", []),
        space.endpoint("onlyParam", "GET", "/{p}", [space.arg("p", S, "path")]),
        space.endpoint("deep", "GET", "/a/b/c/d/e/f/g/h", []),
        space.endpoint("punct", "GET", "/a-b.c_d~e/{x}/f.g", [space.arg("x", I, "path")]),
    ], PKG)]), cls="service:root-path"))
    progs.append(Program("svc_alias_optbin", "service returning an alias of optional<binary>", space.ir([space.alias("MaybeBlob", OBIN, PKG)], [space.service("AliasOptBin", [space.endpoint("get", "GET", "/g", [], returns=R("MaybeBlob"))], PKG)]), cls="service:alias-of-optional-binary-return"))
    return progs


def special_type_programs():
    """the recursion / field-count / enum / union families of the shared type build"""
    extra, _ = space.special_types()
    return [Program("special_types", "recursion, field-count, enum and union families of the shared type space", space.ir(space.FIXED_TYPES + extra), cls="special-types")]


def size_programs(thorough):
    """wide and deep definitions: no rule of the IR bounds the number of members, values, endpoints
    or arguments, the nesting depth or the length of an alias chain"""
    P = space.prim
    progs = []
    for n in ([4, 33, 130] if not thorough else [4, 13, 16, 17, 32, 33, 64, 65, 130, 300]):
        types = [
            space.obj("WideReq", [space.field("f%d" % i, P("STRING")) for i in range(n)], PKG),
            space.obj("WideOpt", [space.field("h%d" % i, space.opt(P("DOUBLE"))) for i in range(n)], PKG),
            space.obj("WideMix", [space.field("m%d" % i, [P("INTEGER"), space.lst(P("STRING")), space.opt(P("UUID")), space.mp(P("STRING"), P("DOUBLE"))][i % 4]) for i in range(n)], PKG),
            space.union("WideUnion", [space.field("v%d" % i, [P("STRING"), P("DOUBLE"), R("WideReq")][i % 3]) for i in range(n)], PKG),
            space.enum("WideEnum", ["V%d" % i for i in range(n)], PKG),
        # (alias chains stay below rustc's default recursion_limit of 128: a chain of 130 newtypes
        # fails in the *compiler* with "reached the recursion limit", which the embedding crate
        # lifts with #![recursion_limit]; not the generator's doing)
        ] + [space.alias("Chain%d" % i, R("Chain%d" % (i + 1)), PKG) for i in range(min(n, 64))] + [space.alias("Chain%d" % min(n, 64), P("DOUBLE"), PKG), space.obj("UsesChain", [space.field("c", space.st(R("Chain0"))), space.field("m", space.mp(R("Chain0"), R("Chain1")))], PKG)]
        deep = P("INTEGER")
        for d in range(min(n, 24)):
            deep = [space.opt, space.lst, space.st, lambda t: space.mp(P("STRING"), t)][d % 4](deep)
        types.append(space.alias("Deep", deep, PKG))
        err = space.error("WideErr", "Verif", "CONFLICT", [space.field("s%d" % i, P("STRING")) for i in range(n)], [space.field("u%d" % i, space.opt(P("INTEGER"))) for i in range(n)], PKG)
        eps = [space.endpoint("e%d" % i, "GET", "/e%d" % i, [], returns=R("WideEnum")) for i in range(n)]
        eps.append(space.endpoint("manyArgs", "POST", "/args/" + "/".join("{p%d}" % i for i in range(min(n, 12))),
                                  [space.arg("p%d" % i, P("STRING"), "path") for i in range(min(n, 12))] + [space.arg("q%d" % i, space.opt(P("INTEGER")), "query", "q%d" % i) for i in range(n)]
                                  + [space.arg("h%d" % i, P("STRING"), "header", "X-H%d" % i) for i in range(n)] + [space.arg("body", R("WideMix"), "body")], returns=R("WideUnion")))
        progs.append(Program("sizes_%d" % n, "objects / unions / enums / errors / services / argument lists of %d members, alias chain of %d, nesting depth %d" % (n, min(n, 64), min(n, 24)), space.ir(types, [space.service("WideSvc", eps, PKG)], [err]), cls="sizes"))
    return progs


def external_programs():
    """external (imported) types with every primitive fallback in every position, keys included"""
    progs = []
    prims = ["STRING", "INTEGER", "DOUBLE", "BOOLEAN", "SAFELONG", "UUID", "RID", "DATETIME", "BEARERTOKEN", "BINARY", "ANY"]
    keyable = {"STRING", "INTEGER", "DOUBLE", "BOOLEAN", "SAFELONG", "UUID", "RID", "DATETIME", "BEARERTOKEN"}
    plain = {"STRING", "INTEGER", "DOUBLE", "BOOLEAN", "SAFELONG", "UUID", "RID", "DATETIME"}
    for pn in prims:
        ext = space.external("Ext" + pn.capitalize(), "com.elsewhere", space.prim(pn))
        fields = [space.field("plain", ext), space.field("maybe", space.opt(ext)), space.field("many", space.lst(ext)), space.field("vals", space.mp(S, ext))]
        if pn in keyable:
            fields += [space.field("uniq", space.st(ext)), space.field("byKey", space.mp(ext, S)), space.field("nested", space.lst(space.st(ext))), space.field("optSet", space.opt(space.st(ext))), space.field("keyed", space.mp(ext, space.lst(ext)))]
        types = [space.obj("Holder", fields, PKG), space.union("Pick", [space.field("one", ext)] + ([space.field("some", space.st(ext))] if pn in keyable else []), PKG), space.alias("Al", ext, PKG)]
        if pn in keyable:
            types.append(space.alias("AlSet", space.st(ext), PKG))
        args = [space.arg("body", ext, "body")]
        if pn in plain:
            args += [space.arg("p", ext, "path"), space.arg("q", space.opt(ext), "query", "q"), space.arg("qs", space.st(ext) if pn in keyable else space.lst(ext), "query", "qs"), space.arg("h", ext, "header", "X-H")]
        ep = space.endpoint("go", "POST", "/go/{p}" if pn in plain else "/go", args, returns=space.opt(ext))
        err = space.error("ExtErr", "Verif", "INTERNAL", [space.field("s", ext)], [space.field("u", space.opt(ext))], PKG)
        progs.append(Program("ext_%s" % pn.lower(), "external type with fallback %s in every position" % pn.lower(), space.ir(types, [space.service("ExtSvc", [ep], PKG)], [err]), cls="external:" + pn.lower()))
    # externals whose fallback is itself a collection / optional / alias / object
    fallbacks = [("List", space.lst(S)), ("Set", space.st(S)), ("Opt", space.opt(S)), ("Map", space.mp(S, I)), ("OptList", space.opt(space.lst(I))), ("AliasOpt", R("AliasOpt")), ("Obj", R("Obj")), ("SetDouble", space.st(space.prim("DOUBLE")))]
    for fname, ft in fallbacks:
        ext = space.external("Ext" + fname, "com.elsewhere", ft)
        types = [space.obj("Holder", [space.field("plain", ext), space.field("many", space.lst(ext)), space.field("vals", space.mp(S, ext))] + ([space.field("maybe", space.opt(ext))] if fname not in ("Opt", "OptList", "AliasOpt") else []), PKG),
                 space.union("Pick", [space.field("one", ext)], PKG), space.alias("Al", ext, PKG)]
        args = [space.arg("body", ext, "body")]
        if fname in ("List", "Set", "Opt", "SetDouble"):
            args += [space.arg("q", ext, "query", "q"), space.arg("h", ext, "header", "X-H") if fname == "Opt" else space.arg("q2", ext, "query", "q2")]
        ep = space.endpoint("go", "POST", "/go", args, returns=ext)
        progs.append(Program("extc_%s" % fname.lower(), "external type whose fallback is %s" % fname, space.ir(space.FIXED_TYPES + types, [space.service("ExtSvc", [ep], PKG)], []), cls="external-fallback:" + fname.lower()))
    return progs


def config_programs():
    progs = []
    base = recursion_program().ir
    n = 0
    for exhaustive in [False, True]:
        for se in [False, True]:
            for strip in [None, "com.verif"]:
                progs.append(Program("cfg%d" % n, "configuration exhaustive=%s serializeEmpty=%s strip=%s" % (exhaustive, se, strip), base, cfg={"exhaustive": exhaustive, "serialize_empty": se, "strip": strip}, cls="config"))
                n += 1
    return progs


def known_class(label):
    return label


def run(a, rep):
    thorough = a.tier == "thorough"
    t0 = time.time()
    progs = []
    sp, shs = shape_programs(thorough)
    progs += sp + param_programs() + name_programs(thorough) + [recursion_program()] + package_programs() + service_programs() + external_programs() + special_type_programs() + config_programs() + size_programs(thorough)
    ids = [p.pid for p in progs]
    dup = sorted({i for i in ids if ids.count(i) > 1})
    if dup:
        raise SystemExit("MACHINERY-FAILURE: duplicate C03 program ids %s" % dup)
    if a.replay_case:
        progs = [p for p in progs if p.pid == a.replay_case.get("program")]
    root = os.path.join(H.WORK, "c03-" + a.tier)
    jobs = []
    for p in progs:
        out = os.path.join(root, "gen", p.pid)
        jobs.append((p.pid, p.ir, out, dict(exhaustive=p.cfg.get("exhaustive", False), serialize_empty=p.cfg.get("serialize_empty", False), strip=p.cfg.get("strip"))))
    results = H.generate_many(jobs)
    rep.extra["generate_s"] = round(time.time() - t0, 1)
    by_id = {p.pid: p for p in progs}
    generated = []
    for p in progs:
        rep.states += 1
        rep.evaluations += 1
        rep.transitions += 1
        ok, err = results[p.pid]
        if ok:
            rep.outcome("generated")
            generated.append(p)
        else:
            msg = err.strip().splitlines()[0] if err.strip() else "?"
            rep.violation("C03|generation-failed|%s" % p.cls, "generation fails for: %s — %s" % (p.label, msg[:300]), {"program": p.pid, "label": p.label})
            shutil.rmtree(os.path.join(root, "gen", p.pid), ignore_errors=True)
    # pack the generated trees into check crates (members of one workspace)
    ncrates = 8
    members = []
    groups = [generated[i::ncrates] for i in range(ncrates)]
    for gi, group in enumerate(groups):
        mods = "\n".join('#[path = "%s/mod.rs"]\npub mod %s;' % (os.path.join(root, "gen", p.pid), p.pid) for p in group)
        for p in group:
            if p.expose:
                mods += "\nmod expose_%s {\n%s\n}" % (p.pid, "\n".join("    #[allow(unused_imports)] use %s;" % x for x in p.exposed_paths()))
        crate = os.path.join(root, "ws", "chk%d" % gi)
        H.write_crate(crate, "c03chk%d" % gi, lib_rs="#![allow(warnings)]\n" + mods + "\n")
        toml = open(os.path.join(crate, "Cargo.toml")).read().replace("[workspace]\n\n", "")
        H.sync_file(os.path.join(crate, "Cargo.toml"), toml)
        try:
            os.remove(os.path.join(crate, "Cargo.lock"))
        except FileNotFoundError:
            pass
        members.append("chk%d" % gi)
    ws = os.path.join(root, "ws")
    H.sync_file(os.path.join(ws, "Cargo.toml"), "[workspace]\nresolver = \"2\"\nmembers = [%s]\n\n[profile.dev]\ndebug = 0\n" % ", ".join('"%s"' % m for m in members))
    if not os.path.exists(os.path.join(ws, "Cargo.lock")):
        shutil.copy(os.path.join(H.ROOT, "engines", "Cargo.lock"), os.path.join(ws, "Cargo.lock"))
    t1 = time.time()
    p = H.cargo(ws, "check", ["--workspace", "--keep-going"], json_messages=True)
    rep.extra["check_s"] = round(time.time() - t1, 1)
    errors = H.compile_errors(p.stdout)
    if p.returncode != 0 and not errors:
        rep.cap("cargo check failed without attributable compiler errors: %s" % p.stderr[-800:])
    bad = {}
    for file, code, msg in errors:
        m = re.search(r"/gen/([^/]+)/", file)
        pid = m.group(1) if m else None
        if pid is None:
            m2 = re.search(r"pub mod (\w+)", msg) or re.search(r"crate::(\w+)::", msg) or re.search(r"in `(\w+)(::|`)", msg)
            pid = m2.group(1) if m2 else "?"
        bad.setdefault(pid, []).append((file, code, msg))
    for pid, errs in sorted(bad.items()):
        prog = by_id.get(pid)
        if prog is None:
            rep.cap("compiler error that cannot be attributed to a program: %s" % json.dumps(errs[:2]))
            continue
        codes = sorted(set(e[1] or "error" for e in errs))
        files = sorted(set(os.path.basename(e[0]) for e in errs))
        # shape programs hold several shapes: attribute to the type files (o12.rs -> shape 12)
        detail = ""
        if prog.cls == "type-shapes":
            nums = sorted(set(int(x) for f in files for x in re.findall(r"^[oua](\d+)\.rs$", f)))
            detail = " shapes: " + ", ".join(shs[n].text for n in nums[:6] if n < len(shs))
            for n in nums:
                if n >= len(shs):
                    continue
                t = shs[n].text
                mine = [e for e in errs if re.match(r"^[oua]%d\.rs$" % n, os.path.basename(e[0]))]
                own_codes = sorted(set(e[1] or "error" for e in mine))
                known_cls = [x for x in shs if x.text == t and not space.compilable(x)]
                shape_sig = "shape-class:map-value-with-bare-double-below-a-set|%s" % t if known_cls else "shape:%s" % t
                rep.violation("C03|does-not-compile|%s|%s" % (shape_sig, ",".join(own_codes)), "generated code for a type of shape %s does not compile: %s" % (t, mine[0][2][:300]), {"program": pid, "label": prog.label})
            if nums:
                continue
            detail = " (in the service / error files of the shape program)"
        rep.violation("C03|does-not-compile|%s|%s" % (prog.cls, ",".join(codes)), "generated code does not compile for: %s —%s %s: %s" % (prog.label, detail, errs[0][1], errs[0][2][:300]), {"program": pid, "label": prog.label})
    for pgen in generated:
        if pgen.pid not in bad:
            rep.outcome("compiles")
    # one full crate (Cargo.toml emitted by the generator) checked with the runtime crates patched in
    if not a.replay_case or str(a.replay_case.get("program", "")).startswith("fullcrate"):
        full_crate(rep, root, by_id)
    rep.sample("names", {"program": "field / union variant named `await`", "positions": ["object field", "union variant", "endpoint", "path/query argument", "error argument", "package segment", "type", "enum value"]})
    rep.sample("shapes", {"program": sp[0].label[:300] if sp else ""})
    rep.sample("services", {"program": "service features (auth kinds, request context, binary bodies/returns, size limits, docs, markers, tags)"})
    rep.bounds.update({"programs": len(progs), "shapes": len(shs), "keywords": len(KEYWORDS), "identifiers": len(IDENTS), "lower_case_names": len(LOCALS), "shape_depth": 2})
    rep.rule = ("states = IR programs of the grammar: every type shape up to depth 2 as object field / union variant / alias target / error argument / endpoint body and return; PLAIN-capable types as path, query "
                "(single, optional, list, set) and header parameters; recursion through optional/list/set/map/union/alias; one program per (name, position) for every Rust keyword and every identifier the generated "
                "code uses; nested packages x stripPrefix; service features; configurations. Each program is generated in its own process and the output type-checked with cargo check")
    rep.assumptions.append("only IR the Conjure compiler is known to accept is enumerated (no optional<optional>, no bearertoken path/query parameters, no enum value UNKNOWN, no empty enum, names in Conjure's case conventions)")
    rep.assumptions.append("rustc (cargo check) is the oracle for 'compiles'")


def full_crate_programs():
    """one generated *crate* (Cargo.toml written by the generator) per non-empty subset of
    {types, errors, services}: the dependency list must cover what the emitted code uses"""
    RID, DT, UUIDT, SL, BIN, ANY, BT = (space.prim(x) for x in ("RID", "DATETIME", "UUID", "SAFELONG", "BINARY", "ANY", "BEARERTOKEN"))
    types = [space.obj("Thing", [space.field("rid", RID), space.field("at", space.opt(DT)), space.field("ratio", D), space.field("blob", BIN), space.field("more", space.lst(R("Thing")))], PKG),
             space.union("Either", [space.field("thing", R("Thing")), space.field("n", SL)], PKG), space.enum("Kind", ["ONE", "TWO"], PKG), space.alias("Id", UUIDT, PKG),
             # every alias family (the emitted crate declares its own edition: what the impls name must be in that edition's prelude or spelled out)
             space.alias("Names", space.lst(S), PKG), space.alias("IdSet", space.st(R("Id")), PKG), space.alias("ByKind", space.mp(R("Kind"), R("Thing")), PKG), space.alias("MaybeId", space.opt(R("Id")), PKG),
             space.alias("Ratio", D, PKG), space.alias("Ratios", space.st(D), PKG), space.alias("NamesAgain", R("Names"), PKG), space.alias("Blob", BIN, PKG), space.alias("Tok", BT, PKG), space.alias("Whatever", ANY, PKG),
             space.obj("Holder", [space.field("names", R("NamesAgain")), space.field("ids", R("IdSet")), space.field("by", R("ByKind")), space.field("maybe", R("MaybeId")), space.field("ratios", R("Ratios")), space.field("w", R("Whatever")), space.field("dk", space.mp(D, space.lst(space.opt(D))))], PKG),
             space.union("Pick", [space.field("unknown", S), space.field("names", R("Names")), space.field("ratio", R("Ratio"))], PKG), space.obj("Empty", [], PKG)]
    out = []
    for mask in range(1, 8):
        has_t, has_e, has_s = bool(mask & 1), bool(mask & 2), bool(mask & 4)
        ref = (lambda prim, n: R(n)) if has_t else (lambda prim, n: prim)
        errors = [space.error("Broken", "Verif", "INVALID_ARGUMENT", [space.field("id", ref(UUIDT, "Id")), space.field("count", I)], [space.field("why", S), space.field("where", ref(RID, "Thing")), space.field("whens", space.lst(DT))])] if has_e else []
        eps = [space.endpoint("get", "GET", "/t/{rid}", [space.arg("rid", RID, "path"), space.arg("since", space.opt(DT), "query", "since"), space.arg("ids", space.lst(UUIDT), "query", "id"), space.arg("big", SL, "header", "X-Big")], returns=ref(ANY, "Thing"), auth="header"),
               space.endpoint("put", "PUT", "/t", [space.arg("body", ref(BIN, "Either"), "body")], returns=space.opt(BIN), auth="SESSION"),
               space.endpoint("tok", "POST", "/tok", [space.arg("t", BT, "header", "X-Tok"), space.arg("body", BIN, "body")], returns=space.st(RID)),
               space.endpoint("plain", "GET", "/p", [], returns=S)] if has_s else []
        name = "".join(w for w, h in (("types", has_t), ("errors", has_e), ("services", has_s)) if h)
        out.append((name, space.ir(types if has_t else [], [space.service("Svc", eps, PKG)] if has_s else [], errors)))
    # identifiers that are reserved in some edition (the emitted manifest picks the edition: what
    # is an identifier there is decided by it, not by the harness crate): members, arguments,
    # endpoints, package components
    kw = ["gen", "async", "await", "dyn", "try", "union", "auto", "raw", "macro_rules", "abstract", "become", "box", "do", "final", "macro", "override", "priv", "typeof", "unsized", "virtual", "yield"]
    kw_types = [space.obj("Words", [space.field(k, S) for k in kw], PKG), space.union("WordUnion", [space.field(k, I) for k in kw], PKG),
                space.obj("InPkg", [space.field("w", R("Words"))], "com.verif.gen"), space.enum("WordEnum", [k.upper() for k in kw], "com.verif.r#try" if False else "com.verif.dyn")]
    kw_eps = [space.endpoint(k, "GET", "/k/%d" % i, [space.arg(k, S, "query", "q")], returns=I) for i, k in enumerate(kw)]
    kw_err = space.error("WordsErr", "Verif", "CONFLICT", [space.field(k, S) for k in kw[:5]], [space.field(k, S) for k in kw[5:9]])
    out.append(("keywords", space.ir(kw_types, [space.service("WordSvc", kw_eps, PKG)], [kw_err])))
    # services only, without any conjure-object type in a signature
    out.append(("servicesplain", space.ir([], [space.service("Plain", [space.endpoint("plain", "GET", "/p/{a}", [space.arg("a", S, "path")], returns=I)], PKG)], [])))
    return out


def full_crate(rep, root, by_id):
    ws = os.path.join(root, "fullws")
    members = []
    jobs = []
    progs = full_crate_programs()
    for name, ir in progs:
        jobs.append((name, ir, os.path.join(ws, name), {"crate": ("verif-full-%s" % name, "1.2.3")}))
    res = H.generate_many(jobs)
    for name, ir in progs:
        rep.states += 1
        rep.evaluations += 1
        ok, err = res[name]
        if not ok:
            rep.violation("C03|generation-failed|full-crate:%s" % name, "crate generation fails for a definition with %s: %s" % (name, err[-300:]), {"program": "fullcrate:" + name})
        else:
            members.append(name)
    patches = "".join('%s = { path = "/repo/%s" }\n' % (c, c) for c in ("conjure-object", "conjure-error", "conjure-http", "conjure-serde", "conjure-macros"))
    H.sync_file(os.path.join(ws, "Cargo.toml"), "[workspace]\nresolver = \"2\"\nmembers = [%s]\n\n[patch.crates-io]\n%s" % (", ".join(json.dumps(m) for m in members), patches))
    if not os.path.exists(os.path.join(ws, "Cargo.lock")):
        shutil.copy(os.path.join(H.ROOT, "engines", "Cargo.lock"), os.path.join(ws, "Cargo.lock"))
    p = H.cargo(ws, "check", ["--workspace", "--keep-going"], json_messages=True)
    errs = H.compile_errors(p.stdout)
    if p.returncode != 0 and not errs:
        rep.cap("cargo check of the generated full crates failed without compiler errors (offline resolution?): %s" % p.stderr[-500:])
        return
    bad = {}
    for e in errs:
        f = e[0] or ""
        for m in members:
            if "/fullws/%s/" % m in f or f.startswith(m + "/"):
                bad.setdefault(m, e)
    if errs and not bad:
        rep.cap("compiler errors in the full-crate workspace could not be attributed: %s" % (errs[0],))
    for m in members:
        if m in bad:
            rep.violation("C03|does-not-compile|full-crate:%s" % m, "the generated crate for a definition with %s does not compile against its own Cargo.toml: %s" % (m, bad[m][2][:300]), {"program": "fullcrate:" + m})
        else:
            rep.outcome("full-crate-compiles")
