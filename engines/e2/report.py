"""Result record in the same JSON shape the Rust engines write (see vcommon::Report)."""
import json
import time

MAX_PER_SIG = 3
MAX_SIGS = 200


class Report:
    def __init__(self, prop, level):
        self.prop = prop
        self.level = level
        self.t0 = time.time()
        self.evaluations = 0
        self.states = 0
        self.transitions = 0
        self.nontrivial = None
        self.rule = ""
        self.exhaustive = True
        self.bounds = {}
        self.outcomes = {}
        self.samples = []
        self.assumptions = []
        self.extra = {}
        self.caps = []
        self.violations = []
        self.counts = {}

    def outcome(self, k, n=1):
        self.outcomes[k] = self.outcomes.get(k, 0) + n

    def sample(self, kind, case):
        if len(self.samples) < 40 and not any(s["kind"] == kind for s in self.samples):
            self.samples.append({"kind": kind, "case": case})

    def cap(self, msg):
        self.caps.append(msg)

    def violation(self, signature, summary, case):
        c = self.counts.get(signature, 0) + 1
        self.counts[signature] = c
        if c <= MAX_PER_SIG and len(self.counts) <= MAX_SIGS:
            self.violations.append({"signature": signature, "summary": summary, "case": case})

    def write(self, path):
        out = {
            "property_id": self.prop, "level": self.level, "wall_s": time.time() - self.t0,
            "evaluations": self.evaluations, "states": self.states, "transitions": self.transitions,
            "distinct_nontrivial": self.states if self.nontrivial is None else self.nontrivial,
            "rule": self.rule, "exhaustive": self.exhaustive and not self.caps, "bounds": self.bounds,
            "distinct_outcomes": len(self.outcomes), "outcomes": self.outcomes, "samples": self.samples,
            "assumptions": self.assumptions, "extra": self.extra, "caps_hit": self.caps,
            "violations": self.violations, "violation_counts": self.counts,
        }
        text = json.dumps(out, indent=1)
        if path == "/dev/stdout":
            print(text)
        else:
            with open(path, "w") as f:
                f.write(text)
