#!/usr/bin/env python3
"""E2 — programs: enumerate IR documents, run the real generator, compile the output against
/repo's runtime crates and execute it.

  e2.py <C02|C03|C10|C14> --tier quick|thorough --out FILE [--replay FILE]
"""
import json
import re
import os
import sys
import time

HERE = os.path.dirname(os.path.abspath(__file__))
sys.path.insert(0, HERE)
import harness as H  # noqa: E402
import model as M  # noqa: E402
import space  # noqa: E402
from report import Report  # noqa: E402

PKG = space.PKG


def chunks(lst, n):
    k = max(1, (len(lst) + n - 1) // n)
    return [lst[i:i + k] for i in range(0, len(lst), k)]


# quick: the two configurations in which the flags differ (each flag is seen on and off, and a
# generator that confuses the two switches cannot hide); thorough: all four
CONFIGS_QUICK = [("c2", dict(exhaustive=True, serialize_empty=False)), ("c3", dict(exhaustive=False, serialize_empty=True))]
CONFIGS_THOROUGH = CONFIGS_QUICK + [("c0", dict(exhaustive=False, serialize_empty=False)), ("c1", dict(exhaustive=True, serialize_empty=True))]


def unknown_variants(gen_dir):
    """{type name: does the generated enum have an Unknown variant} for every `pub enum` in
    the tree (read from the emitted source, so that the dispatcher compiles whatever the
    generator did with the exhaustive switch)"""
    import re
    out = {}
    for root, _, files in os.walk(gen_dir):
        for f in files:
            if not f.endswith(".rs"):
                continue
            text = open(os.path.join(root, f)).read()
            for m in re.finditer(r"pub enum (\w+) \{(.*?)\n\}", text, re.S):
                # the catch-all variant wraps the emitted `Unknown` struct (`Unknown_` when a
                # listed member is itself called unknown)
                out[m.group(1)] = bool(re.search(r"\bUnknown_?\(\s*(\w+::)*Unknown_?\s*\)", m.group(2)))
    return out


def name_fn(kind, cfgname, name, exhaustive):
    path = "%s::com::verif::%s" % (cfgname, name)
    if kind == "enum":
        return "Some((|v: &%s| Some(v.as_str().to_string())) as probe::NameFn<%s>)" % (path, path)
    if kind == "union" and not exhaustive and name != "Union3":
        return "Some((|v: &%s| match v { %s::Unknown(u) => Some(u.type_().to_string()), _ => None }) as probe::NameFn<%s>)" % (path, path, path)
    return "None"


PLAIN_PRIMS = {"string", "datetime", "integer", "double", "safelong", "binary", "boolean", "uuid", "rid", "bearertoken"}


def plain_capable(name, kind, shape):
    """generated types that implement Plain + FromPlain: enums and aliases of PLAIN primitives"""
    if kind == "enum":
        return True
    if kind == "alias" and shape is not None and shape.depth == 0 and shape.text in PLAIN_PRIMS:
        return True
    return False


class TypesBuild:
    """the shared build of C02 / C10 / C14: chunks of the type space, each generated under every
    configuration and compiled into one probe binary per chunk"""

    def __init__(self, tier, report):
        self.tier = tier
        thorough = tier == "thorough"
        self.configs = CONFIGS_THOROUGH if thorough else CONFIGS_QUICK
        self.root = os.path.join(H.WORK, "types-" + tier)
        shs = [s for s in space.shapes(2 if thorough else 1, thorough) if space.compilable(s)]
        if not thorough:
            shs += [s for s in space.shapes(2, False) if s.depth == 2 and space.compilable(s)][::4]
        self.shapes = shs
        # thorough: smaller crates and fewer parallel rustc processes (a 16-way build of 16 big
        # chunks was killed for memory when other work shared the machine)
        nchunks = 40 if thorough else 8
        self.chunks = []
        start = 0
        for ci, part in enumerate(chunks(shs, nchunks)):
            types, index = space.types_for_shapes(part, start)
            start += len(part)
            extra, extra_idx = ([], [])
            if ci == 0:
                extra, extra_idx = space.special_types()
                extra_idx = extra_idx + [("E", "enum", None), ("Obj", "object", None), ("ObjD", "object", None), ("Un", "union", None)]
            self.chunks.append({"ir": space.ir(space.FIXED_TYPES + types + extra), "index": index + extra_idx})
        self.report = report
        self.probes = {}

    def build(self):
        t0 = time.time()
        jobs = []
        for ci, ch in enumerate(self.chunks):
            for cname, cfg in self.configs:
                out = os.path.join(self.root, "gen", "k%d" % ci, cname)
                jobs.append(((ci, cname), ch["ir"], out, dict(exhaustive=cfg["exhaustive"], serialize_empty=cfg["serialize_empty"])))
        results = H.generate_many(jobs)
        failed = {k: v for k, v in results.items() if not v[0]}
        if failed:
            k = sorted(failed)[0]
            self.report.cap("generator failed on the shared type space (chunk %s): %s — C03's business, no verdict here" % (k, failed[k][1][-400:]))
            return False
        # what the generator actually emitted for the exhaustive switch (C10 judges it)
        self.has_unknown = {}
        for ci, ch in enumerate(self.chunks):
            for cname, cfg in self.configs:
                self.has_unknown[(ci, cname)] = unknown_variants(os.path.join(self.root, "gen", "k%d" % ci, cname))
        members = []
        for ci, ch in enumerate(self.chunks):
            mods = "\n".join('#[path = "%s/mod.rs"]\nmod %s;' % (os.path.join(self.root, "gen", "k%d" % ci, cname), cname) for cname, _ in self.configs)
            arms = []
            for name, kind, _shape in ch["index"]:
                for cname, cfg in self.configs:
                    arms.append('        "%s:%s" => probe::run::<%s::com::verif::%s>(req, %s),' % (cname, name, cname, name, name_fn(kind, cname, name, not self.has_unknown[(ci, cname)].get(name, not cfg["exhaustive"]))))
            for name, kind, shape in ch["index"]:
                if plain_capable(name, kind, shape):
                    for cname, cfg in self.configs:
                        arms.append('        "plain:%s:%s" => probe::run_plain::<%s::com::verif::%s>(req),' % (cname, name, cname, name))
            main = H.DISPATCH_MAIN % {"mods": mods, "arms": "\n".join(arms)}
            crate = os.path.join(self.root, "ws", "bin%d" % ci)
            H.write_crate(crate, "e2%sbin%d" % (self.tier[0], ci), main_rs=main)
            # members of one workspace so that a single cargo invocation builds them in parallel
            toml = open(os.path.join(crate, "Cargo.toml")).read().replace("[workspace]\n\n", "")
            H.sync_file(os.path.join(crate, "Cargo.toml"), toml)
            try:
                os.remove(os.path.join(crate, "Cargo.lock"))
            except FileNotFoundError:
                pass
            members.append("bin%d" % ci)
        ws = os.path.join(self.root, "ws")
        H.sync_file(os.path.join(ws, "Cargo.toml"), "[workspace]\nresolver = \"2\"\nmembers = [%s]\n\n[profile.dev]\ndebug = 0\nopt-level = 0\ncodegen-units = 16\nincremental = false\n" % ", ".join('"%s"' % m for m in members))
        if not os.path.exists(os.path.join(ws, "Cargo.lock")):
            import shutil
            shutil.copy(os.path.join(H.ROOT, "engines", "Cargo.lock"), os.path.join(ws, "Cargo.lock"))
        p = H.cargo(ws, "build", ["--workspace"], json_messages=True, jobs=8 if self.tier == "thorough" else None)
        if p.returncode != 0:
            errs = H.compile_errors(p.stdout)
            self.report.cap("the generated code of the shared type space does not compile (C03's business, no verdict here): %s" % (json.dumps(errs[:3]) if errs else p.stderr[-600:]))
            return False
        self.report.extra["build_s"] = round(time.time() - t0, 1)
        return True

    def probe(self, ci):
        if ci not in self.probes:
            self.probes[ci] = H.Probe(os.path.join(H.E2_TARGET, "debug", "e2%sbin%d" % (self.tier[0], ci)))
        return self.probes[ci]

    def close(self):
        for p in self.probes.values():
            p.close()

    def each_type(self):
        for ci, ch in enumerate(self.chunks):
            for name, kind, shape in ch["index"]:
                for cname, cfg in self.configs:
                    yield ci, ch, name, kind, shape, cname, cfg


def tref(name):
    return {"type": "reference", "reference": {"name": name, "package": PKG}}


# ------------------------------------------------------------------------------ C02

KNOWN_ENUM_OBJECT_FORM = "enum-from-single-member-object"


def union_protocol_docs(model, t):
    """all member sequences of length <= 3 over {type:known, type:other, type:unlisted, known,
    other, unlisted} for a union with >= 2 variants — as JSON *text* (order and duplicates matter)"""
    d = model.definition(t)
    vs = d["union"]
    if len(vs) < 2:
        return []
    known, other = vs[0], vs[1]
    kdoc = M.dumps(model.docs(known["type"], 1, 1)[0])
    odoc = M.dumps(model.docs(other["type"], 1, 1)[0])
    members = [
        ("type:known", '"type":"%s"' % known["fieldName"]),
        ("type:other", '"type":"%s"' % other["fieldName"]),
        ("type:unlisted", '"type":"zzUnlisted"'),
        ("known", '"%s":%s' % (known["fieldName"], kdoc)),
        ("other", '"%s":%s' % (other["fieldName"], odoc)),
        ("unlisted", '"zzUnlisted":1'),
        ("type:unlisted2", '"type":"yyOther"'),
        ("unlisted2", '"yyOther":1'),
    ]
    out = []
    import itertools
    for n in (0, 1, 2, 3):
        for seq in itertools.product(range(len(members) if n <= 2 else 6), repeat=n):
            names = [members[i][0] for i in seq]
            text = "{" + ",".join(members[i][1] for i in seq) + "}"
            # well-formed: exactly {type:X, X} in either order
            ok = False
            if n == 2:
                s = set(names)
                ok = s == {"type:known", "known"} or s == {"type:other", "other"} or ((s == {"type:unlisted", "unlisted"} or s == {"type:unlisted2", "unlisted2"}) and not model.cfg.exhaustive)
            # duplicate members are outside the statement except inside the union protocol's
            # "extra members" clause: a repeated member is an extra member
            out.append((text, ok, "+".join(names) or "empty"))
    return out


_STRING_TOKEN = re.compile(r'"((?:[^"\\]|\\.)*)"(\s*:)?')


def _escape_string_values(text):
    """the same JSON document with the first character of every non-empty string *value* (not
    member names) spelled as a \\uXXXX escape"""
    def sub(m):
        body, colon = m.group(1), m.group(2)
        if colon or not body or body[0] == "\\" or ord(body[0]) > 0x7e:
            return m.group(0)
        return '"\\u%04x%s"' % (ord(body[0]), body[1:])
    return _STRING_TOKEN.sub(sub, text)


def run_c02(args, rep):
    tb = TypesBuild(args.tier, rep)
    if not tb.build():
        return
    only = args.replay_case
    for ci, ch, name, kind, shape, cname, cfg in tb.each_type():
        if only and (only.get("type") != name or only.get("config") != cname):
            continue
        model = M.Model(ch["ir"], M.Cfg(cfg["exhaustive"], cfg["serialize_empty"]))
        t = tref(name)
        label = "%s{%s}" % ({"object": "obj", "union": "union", "alias": "alias", "enum": "enum"}[kind], shape.text if shape else name)
        docs = model.docs(t)
        valid = []
        for d in docs:
            if model.valid(t, d):
                valid.append(d)
        cases = [(M.dumps(d), True, d, "valid") for d in valid]
        seen = set(c[0] for c in cases)
        # the same documents with the first character of every string value written as an escape
        # (a deserializer cannot borrow such a string from its input)
        for d in valid:
            esc = _escape_string_values(M.dumps(d))
            if esc not in seen:
                seen.add(esc)
                cases.append((esc, True, d, "valid (escaped spelling)"))
        for d in valid[:3]:
            for bad, desc in model.faults(t, d):
                text = M.dumps(bad)
                if text in seen or model.valid(t, bad):
                    continue
                seen.add(text)
                cases.append((text, False, bad, desc))
        if kind == "union":
            for text, ok, desc in union_protocol_docs(model, t):
                if text not in seen:
                    seen.add(text)
                    cases.append((text, ok, None, "union members: " + desc))
        if kind == "enum":
            for v in model.definition(t)["values"][:1]:
                cases.append((M.dumps({v["value"]: None}), False, None, KNOWN_ENUM_OBJECT_FORM))
        rep.states += len(cases)
        resp = tb.probe(ci).ask({"ty": "%s:%s" % (cname, name), "op": "de", "docs": [c[0] for c in cases]})
        if "results" not in resp:
            rep.cap("probe error for %s: %s" % (name, resp))
            continue
        for (text, ok, doc, desc), res in zip(cases, resp["results"]):
            for side in ("c", "s"):
                rep.evaluations += 1
                rep.transitions += 1
                r = res[side]
                case = {"type": name, "config": cname, "doc": text, "side": side}
                sig_tail = "%s|%s" % (label, cname)
                if r.get("panic"):
                    rep.violation("C02|panic|%s" % sig_tail, "%s [%s] panicked on %s" % (label, cname, text), case)
                    continue
                if ok:
                    if not r["ok"]:
                        rep.violation("C02|valid-document-rejected|%s|%s" % (side, sig_tail), "%s [%s, %s deserializer] rejects the valid document %s: %s" % (label, cname, "client" if side == "c" else "server", text, r.get("err")), case)
                        continue
                    if r.get("reser") is None:
                        rep.violation("C02|reserialize-failed|%s" % sig_tail, "%s [%s]: value from %s fails to serialize: %s" % (label, cname, text, r.get("reser_err")), case)
                        continue
                    got = json.loads(r["reser"])
                    want = model.canonical(t, doc) if doc is not None else None
                    if doc is None:
                        # union protocol documents: canonical = type first
                        parsed = json.loads(text)
                        want = model.canonical(t, parsed)
                    if model.equal(t, want, got):
                        rep.outcome("valid:accepted-and-canonical")
                    else:
                        cls = "null-for-absent-optional" if _only_null_optionals_differ(want, got) else "other"
                        rep.violation("C02|not-canonical|%s|%s" % (cls, sig_tail), "%s [%s]: %s re-serializes to %s, canonical form is %s" % (label, cname, text, r["reser"], M.dumps(want)), case)
                else:
                    if r["ok"]:
                        if desc == KNOWN_ENUM_OBJECT_FORM:
                            rep.violation("C02|invalid-document-accepted|%s" % KNOWN_ENUM_OBJECT_FORM, "%s [%s]: the object %s is accepted where an enum string is required (as %s)" % (label, cname, text, r.get("reser")), case)
                        else:
                            rep.violation("C02|invalid-document-accepted|%s|%s" % (_fault_class(desc), sig_tail), "%s [%s, %s]: %s is accepted as %s although: %s" % (label, cname, "client" if side == "c" else "server", text, r.get("reser"), desc), case)
                    else:
                        rep.outcome("invalid:rejected")
        if shape is not None and shape.depth == 2 and len(rep.samples) < 6:
            rep.sample(label, {"type": label, "config": cname, "valid_docs": [c[0] for c in cases if c[1]][:3], "fault_docs": [c[0] for c in cases if not c[1]][:3]})
    if args.tier == "thorough" and not only:
        smile_pass(tb, rep, "C02")
    tb.close()
    rep.bounds.update({"shape_depth": 2, "shapes": len(tb.shapes), "types_per_config": sum(len(c["index"]) for c in tb.chunks), "configs": [c[0] + str(c[1]) for c in tb.configs]})
    rep.rule = ("states = (generated type, configuration, document): one object {f:S}, union {v:S,w:integer} and alias =S for every shape S of the Conjure type grammar up to the depth bound, "
                "recursive / field-count / enum / union families; documents = the model's valid documents (containers 0..2, optional absent/null/present, both union member orders) and every "
                "single-fault variant (kind swaps, missing/null required fields, out-of-range integers, malformed uuid/rid/datetime/token/Base64/enum, bad map keys), all union member sequences <= 3; "
                "each through the client and the server JSON deserializer of the compiled generated code")
    rep.assumptions.append("null for collection fields / required any, 1.0 for integers, duplicate set elements and object members, relaxed datetime / uuid spellings are in neither the valid nor the invalid set")


def _only_null_optionals_differ(want, got):
    def strip(x):
        if isinstance(x, dict):
            return {k: strip(v) for k, v in x.items() if v is not None}
        if isinstance(x, list):
            return [strip(v) for v in x]
        return x
    try:
        return strip(want) == strip(got) and want != got
    except Exception:
        return False


def _fault_class(desc):
    if desc.startswith("union members: "):
        return "union-members:" + desc[len("union members: "):]
    d = desc.split(": ", 1)[-1]
    for key in ("required field", "malformed", "where", "union members"):
        if key in d:
            if key == "where":
                return "kind-swap:" + d.split(" where ")[0] + "-for-" + d.split(" where ")[1].split(" ")[0]
            if key == "malformed":
                return "malformed-" + d.split("malformed ")[1].split(" ")[0]
            if key == "union members":
                return "union-members:" + d.split("union members: ")[1]
            return "required-field-" + ("missing" if "missing" in d else "null")
    return "other"


def smile_pass(tb, rep, prop):
    for ci, ch, name, kind, shape, cname, cfg in tb.each_type():
        model = M.Model(ch["ir"], M.Cfg(cfg["exhaustive"], cfg["serialize_empty"]))
        t = tref(name)
        docs = [M.dumps(d) for d in model.docs(t) if model.valid(t, d)][:8]
        resp = tb.probe(ci).ask({"ty": "%s:%s" % (cname, name), "op": "smile", "docs": docs})
        for text, res in zip(docs, resp.get("results", [])):
            rep.evaluations += 1
            if "skip" in res:
                continue
            if "smile_ser_err" in res:
                rep.violation("%s|smile|serialize-failed|%s" % (prop, name), "%s [%s]: value of %s fails to serialize to Smile: %s" % (name, cname, text, res["smile_ser_err"]), {"type": name, "config": cname, "doc": text})
                continue
            for side in ("c", "s"):
                r = res[side]
                if not r["ok"] or r.get("reser") != res.get("json"):
                    rep.violation("%s|smile|roundtrip|%s|%s" % (prop, side, name), "%s [%s]: %s does not survive a Smile round trip: %s" % (name, cname, text, r), {"type": name, "config": cname, "doc": text})
                else:
                    rep.outcome("smile:roundtrip-ok")


# ------------------------------------------------------------------------------ main

class Args:
    pass


def main():
    argv = sys.argv[1:]
    a = Args()
    a.prop = argv[0]
    a.tier = "quick"
    a.out = "/dev/stdout"
    a.replay = None
    i = 1
    while i < len(argv):
        if argv[i] == "--tier":
            a.tier = argv[i + 1]
        elif argv[i] == "--out":
            a.out = argv[i + 1]
        elif argv[i] == "--replay":
            a.replay = argv[i + 1]
        i += 2
    a.replay_case = None
    if a.replay:
        a.replay_case = json.load(open(a.replay))["case"]
    level = {"C12": "exploration", "C02": "model_checking", "C10": "model_checking", "C14": "model_checking", "C03": "exploration", "C17": "exploration", "C05": "model_checking"}[a.prop]
    rep = Report(a.prop, level)
    if a.prop == "C02":
        run_c02(a, rep)
    elif a.prop == "C10":
        import c10
        c10.run(a, rep, TypesBuild, tref)
    elif a.prop == "C14":
        import c14
        c14.run(a, rep, TypesBuild, tref)
    elif a.prop == "C12":
        import c12
        c12.run(a, rep, TypesBuild, tref)
    elif a.prop == "C03":
        import c03
        c03.run(a, rep)
    elif a.prop == "C17":
        import c17
        c17.run(a, rep)
    elif a.prop == "C05":
        import c05
        c05.run(a, rep, TypesBuild, tref)
    else:
        raise SystemExit("unknown property " + a.prop)
    if a.replay:
        rep.exhaustive = False
    rep.write(a.out)


if __name__ == "__main__":
    main()
