"""C12 (generated part) — PLAIN text of generated enums and aliases parses back to the same
value and uses the Conjure spelling."""
import json

import model as M
from e2 import plain_capable


def plain_model(model, t, doc):
    """the Conjure PLAIN spelling of a JSON document of a PLAIN-capable type (None = only the
    round trip is judged)"""
    k = model.kind(t)
    if k in ("string", "uuid", "rid", "bearertoken", "binary", "enum"):
        return doc if k != "uuid" else doc.lower()
    if k == "boolean":
        return "true" if doc else "false"
    if k in ("integer", "safelong"):
        return str(doc)
    if k == "double":
        if isinstance(doc, str):
            return doc
        return None
    return None


def run(a, rep, TypesBuild, tref):
    tb = TypesBuild(a.tier, rep)
    if not tb.build():
        return
    only = a.replay_case
    for ci, ch, name, kind, shape, cname, cfg in tb.each_type():
        if not plain_capable(name, kind, shape):
            continue
        if only and (only.get("type") != name or only.get("config") != cname):
            continue
        model = M.Model(ch["ir"], M.Cfg(cfg["exhaustive"], cfg["serialize_empty"]))
        t = tref(name)
        docs = [d for d in model.docs(t, 0, 12) if model.valid(t, d)]
        k = model.kind(t)
        if k == "enum" and not cfg["exhaustive"]:
            docs += ["SOME_UNLISTED_VALUE", "X9", "GREY_5"]
        if k == "datetime":
            docs += ["0000-01-01T00:00:00Z", "9999-12-31T23:59:59.999999999Z", "2016-12-31T23:59:60Z", "2000-01-01T00:00:00.000001Z"]
        if k == "double":
            docs += [-0.0, 5e-324, 1e21, 0.1, -1.5]
        if k == "binary":
            docs += ["QUJD" * 200, "AAECAwQFBgcICQ=="]
        if k == "string":
            docs += ["%2F", "a b&c=d", "é"]
        texts = [M.dumps(d) for d in docs]
        rep.states += len(texts)
        resp = tb.probe(ci).ask({"ty": "plain:%s:%s" % (cname, name), "op": "plain", "docs": texts})
        if "results" not in resp:
            rep.cap("probe error for %s: %s" % (name, resp))
            continue
        label = "%s:%s" % (kind, k if shape is not None else name)
        for d, text, res in zip(docs, texts, resp["results"]):
            rep.evaluations += 1
            rep.transitions += 1
            case = {"type": name, "config": cname, "doc": text}
            if "skip" in res:
                rep.outcome("document-rejected (C02's business)")
                continue
            if not res["parsed"] or not res["roundtrip"]:
                rep.violation("C12|generated|roundtrip|%s" % label, "%s [%s]: value %s has PLAIN text %r which %s" % (label, cname, text, res["plain"], "does not parse" if not res["parsed"] else "parses to a different value"), case)
                continue
            want = plain_model(model, t, d)
            if k == "datetime" and not M._is_datetime(res["plain"]):
                rep.violation("C12|generated|spelling|%s" % label, "%s [%s]: value %s has PLAIN text %r, which is not an RFC 3339 date-time" % (label, cname, text, res["plain"]), case)
            elif k == "double" and want is None and not M._is_number_text(res["plain"]):
                rep.violation("C12|generated|spelling|%s" % label, "%s [%s]: value %s has PLAIN text %r, which is not a number literal" % (label, cname, text, res["plain"]), case)
            elif want is not None and res["plain"] != want:
                rep.violation("C12|generated|spelling|%s" % label, "%s [%s]: value %s has PLAIN text %r, the Conjure spelling is %r" % (label, cname, text, res["plain"], want), case)
            else:
                rep.outcome("plain:roundtrip-ok")
        rep.sample(label, {"type": label, "docs": texts[:4]})
    tb.close()
    rep.rule = "states = (generated enum or alias of a PLAIN primitive, configuration, value): every listed and some unlisted enum values, the model's values per primitive plus boundary values (year 0000/9999, leap second, sub-microsecond, -0.0, subnormal, long binary); value -> to_plain -> from_plain must be the identity and the text must be the Conjure spelling"
    rep.assumptions.append("aliases of aliases / of enums are exercised as path and query parameters by the loopback engine rather than here")
