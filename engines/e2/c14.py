"""C14 (generated part) — generated objects, unions and aliases containing doubles have a
lawful total order, equality and hash."""
import json

import model as M

DOUBLES = [-0.0, 0.0, 1, -1, "NaN", "Infinity", "-Infinity", 0.5]


def law_docs(model, t, cap):
    saved = model.leaf_docs

    def leaf_docs(k, tt):
        if k == "double":
            return DOUBLES
        if k == "string":
            return ["s", ""]
        if k == "integer":
            return [0, -1]
        return saved(k, tt)[:2]

    def key_docs(tt):
        k = model.kind(tt)
        if k == "double":
            return ["NaN", "-0.0", "0", "1.5"]
        return M.Model.key_docs(model, tt)

    model.leaf_docs = leaf_docs
    model.key_docs = key_docs
    try:
        docs = [d for d in model.docs(t, 0, 9) if model.valid(t, d)]
    finally:
        model.leaf_docs = saved
        del model.key_docs
    out, seen = [], set()
    for d in docs:
        s = M.dumps(d)
        if s not in seen:
            seen.add(s)
            out.append(s)
    return out[:cap]


def has_double(model, t, seen=None):
    seen = seen or set()
    k = model.kind(t)
    dt = model.deref(t)
    if k == "double":
        return True
    if k in ("optional", "list", "set"):
        return has_double(model, dt[k]["itemType"], seen)
    if k == "map":
        return has_double(model, dt["map"]["keyType"], seen) or has_double(model, dt["map"]["valueType"], seen)
    if k in ("object", "union"):
        key = M.key_of(dt["reference"])
        if key in seen:
            return False
        seen.add(key)
        d = model.definition(t)
        return any(has_double(model, f["type"], seen) for f in (d["fields"] if k == "object" else d["union"]))
    return False


def run(a, rep, TypesBuild, tref):
    tb = TypesBuild(a.tier, rep)
    if not tb.build():
        return
    only = a.replay_case
    cap = 16 if a.tier == "thorough" else 13
    types = 0
    for ci, ch, name, kind, shape, cname, cfg in tb.each_type():
        if kind == "enum":
            continue
        if only and (only.get("type") != name or only.get("config") != cname):
            continue
        if cname not in ("c2", "c3"):
            continue
        model = M.Model(ch["ir"], M.Cfg(cfg["exhaustive"], cfg["serialize_empty"]))
        t = tref(name)
        if not has_double(model, t):
            continue
        docs = law_docs(model, t, cap)
        if kind == "union" and not cfg["exhaustive"]:
            # unlisted variants take part in the order as well
            docs = docs[:cap - 3] + ['{"type":"zzOther","zzOther":1.5}', '{"type":"zzOther","zzOther":"NaN"}', '{"type":"aaFirst","aaFirst":[0.0,{"k":-0.0}]}']
        if len(docs) < 2:
            continue
        types += 1
        rep.states += len(docs)
        resp = tb.probe(ci).ask({"ty": "%s:%s" % (cname, name), "op": "laws", "docs": docs})
        label = "%s{%s}" % ({"object": "obj", "union": "union", "alias": "alias"}[kind], shape.text if shape else name)
        if "fails" not in resp:
            rep.cap("probe error for %s: %s" % (name, resp))
            continue
        rep.evaluations += resp["triples"]
        rep.transitions += resp["pairs"]
        rep.outcome("types-checked")
        rep.outcome("equivalence-classes", resp["classes"])
        case = {"type": name, "config": cname, "docs": docs}
        for f in resp["fails"]:
            rep.violation("C14|generated|%s|%s|%s" % (f["law"], label, cname), "%s [%s]: law %s violated: %s" % (label, cname, f["law"], f["detail"]), case)
        for d in resp["twice_unequal"]:
            rep.violation("C14|generated|deserialize-twice-unequal|%s|%s" % (label, cname), "%s [%s]: deserializing %s twice gives unequal values" % (label, cname, d), case)
        if resp["values"] != len(docs):
            rep.outcome("documents-rejected-by-client-deserializer", len(docs) - resp["values"])
        if shape is not None and shape.depth >= 1:
            rep.sample(label, {"type": label, "docs": docs[:6]})
    tb.close()
    rep.bounds.update({"values_per_type": cap, "types_with_doubles": types, "double_alphabet": [json.dumps(d) for d in DOUBLES]})
    rep.rule = ("states = values of generated types containing doubles (directly, in optionals, lists, sets, map keys and values, aliases, nested objects, union variants): per type up to N values built from the "
                "double alphabet {-0.0, 0.0, 1, -1, 0.5, NaN, Infinity, -Infinity}, absent vs empty, prefix-related lists and maps; all ordered pairs and triples are checked against the order / equality / hash laws on the compiled generated code")
    rep.assumptions.append("NaN payloads and signs are only reachable in the runtime part (values here come through JSON)")
