//! C08 — an argument is generated safe-to-log exactly when all it can hold is safe.
//!
//! Explicit-state over type graphs: every graph of n named types (alias / object / union
//! over a member alphabet) x every order in which the endpoints first touch the types.
//! Many disjointly named graph copies are packed into one IR so a single generator run
//! evaluates them all (memo entries are per type name, so copies do not interact). The
//! reference model is the boolean greatest fixed point of the statement.

use rayon::prelude::*;
use serde_json::{json, Value};
use std::collections::BTreeMap;
use std::path::PathBuf;
use vcommon::{Args, Report};

#[derive(Clone, Copy, Debug, PartialEq, Eq, Hash, PartialOrd, Ord)]
pub enum Wrap {
    Plain,
    Opt,
    List,
    Set,
    MapStr,
    /// map<SharedEnum, T>: a safe key, so the map is as safe as its value
    MapEnum,
}

#[derive(Clone, Copy, Debug, PartialEq, Eq, Hash, PartialOrd, Ord)]
pub enum Member {
    /// a string member explicitly declared SAFE / UNSAFE / DO_NOT_LOG
    DeclSafe,
    DeclUnsafe,
    DeclDnl,
    /// undeclared leaves
    Str,
    Enum,
    Token,
    Any,
    External,
    /// undeclared reference to type i of the graph
    Ref(Wrap, usize),
    /// a reference whose member carries an explicit declaration (declaration wins)
    DeclSafeRef(usize),
}

#[derive(Clone, Debug, PartialEq, Eq, Hash, PartialOrd, Ord)]
pub enum TypeDef {
    Alias(Member),
    Object(Vec<Member>),
    Union(Vec<Member>),
}

pub type Graph = Vec<TypeDef>;

// ---------------------------------------------------------------- reference model (gfp)

fn member_safe(m: Member, s: &[bool]) -> bool {
    match m {
        Member::DeclSafe | Member::DeclSafeRef(_) => true,
        Member::DeclUnsafe | Member::DeclDnl => false,
        Member::Str | Member::Token | Member::Any | Member::External => false,
        Member::Enum => true,
        Member::Ref(w, i) => match w {
            // map<string, T>: the undeclared string key is not safe
            Wrap::MapStr => false,
            _ => s[i],
        },
    }
}

pub fn model(g: &Graph) -> Vec<bool> {
    let mut s = vec![true; g.len()];
    loop {
        let next: Vec<bool> = g
            .iter()
            .map(|t| match t {
                TypeDef::Alias(m) => member_safe(*m, &s),
                TypeDef::Object(ms) => ms.iter().all(|m| member_safe(*m, &s)),
                TypeDef::Union(_) => false,
            })
            .collect();
        if next == s {
            return s;
        }
        s = next;
    }
}

// ---------------------------------------------------------------- IR rendering

fn prim(p: &str) -> Value {
    json!({"type": "primitive", "primitive": p})
}

fn tref(name: &str) -> Value {
    json!({"type": "reference", "reference": {"name": name, "package": "com.verif"}})
}

fn member_ir(m: Member, names: &[String]) -> (Value, Option<&'static str>) {
    match m {
        Member::DeclSafe => (prim("STRING"), Some("SAFE")),
        Member::DeclUnsafe => (prim("STRING"), Some("UNSAFE")),
        Member::DeclDnl => (prim("STRING"), Some("DO_NOT_LOG")),
        Member::Str => (prim("STRING"), None),
        Member::Enum => (tref("SharedEnum"), None),
        Member::Token => (prim("BEARERTOKEN"), None),
        Member::Any => (prim("ANY"), None),
        Member::External => (json!({"type": "external", "external": {"externalReference": {"name": "Ext", "package": "com.other"}, "fallback": prim("STRING")}}), None),
        Member::DeclSafeRef(i) => (json!({"type": "optional", "optional": {"itemType": tref(&names[i])}}), Some("SAFE")),
        Member::Ref(w, i) => {
            let r = tref(&names[i]);
            let t = match w {
                Wrap::Plain | Wrap::Opt => json!({"type": "optional", "optional": {"itemType": r}}),
                Wrap::List => json!({"type": "list", "list": {"itemType": r}}),
                Wrap::Set => json!({"type": "set", "set": {"itemType": r}}),
                Wrap::MapStr => json!({"type": "map", "map": {"keyType": prim("STRING"), "valueType": r}}),
                Wrap::MapEnum => json!({"type": "map", "map": {"keyType": tref("SharedEnum"), "valueType": r}}),
            };
            (t, None)
        }
    }
}

/// `Plain` references inside objects would make infinitely sized Rust types without a box;
/// the generator boxes them, but to stay clear of unrelated codegen paths a plain reference
/// is rendered as optional<ref> in objects/unions and as a direct reference only in aliases.
fn typedef_ir(name: &str, t: &TypeDef, names: &[String]) -> Value {
    let tn = json!({"name": name, "package": "com.verif"});
    match t {
        TypeDef::Alias(m) => {
            let (ty, safety) = match m {
                Member::Ref(Wrap::Plain, i) => (tref(&names[*i]), None),
                other => member_ir(*other, names),
            };
            let mut a = json!({"typeName": tn, "alias": ty});
            if let Some(s) = safety {
                a["safety"] = json!(s);
            }
            json!({"type": "alias", "alias": a})
        }
        TypeDef::Object(ms) | TypeDef::Union(ms) => {
            let fields: Vec<Value> = ms
                .iter()
                .enumerate()
                .map(|(i, m)| {
                    let (ty, safety) = member_ir(*m, names);
                    let mut f = json!({"fieldName": format!("f{}", i), "type": ty});
                    if let Some(s) = safety {
                        f["safety"] = json!(s);
                    }
                    f
                })
                .collect();
            if matches!(t, TypeDef::Object(_)) {
                json!({"type": "object", "object": {"typeName": tn, "fields": fields}})
            } else {
                json!({"type": "union", "union": {"typeName": tn, "union": fields}})
            }
        }
    }
}

// ---------------------------------------------------------------- graph enumeration

fn members(n: usize, thorough: bool) -> Vec<Member> {
    let mut v = if thorough {
        vec![Member::DeclSafe, Member::DeclUnsafe, Member::DeclDnl, Member::Str, Member::Enum, Member::Token, Member::Any, Member::External]
    } else {
        vec![Member::DeclSafe, Member::DeclDnl, Member::Str, Member::Enum]
    };
    let wraps: &[Wrap] = if thorough { &[Wrap::Plain, Wrap::Opt, Wrap::List, Wrap::Set, Wrap::MapStr, Wrap::MapEnum] } else { &[Wrap::Plain, Wrap::MapStr, Wrap::MapEnum] };
    for i in 0..n {
        for w in wraps {
            v.push(Member::Ref(*w, i));
        }
        if thorough {
            v.push(Member::DeclSafeRef(i));
        }
    }
    v
}

fn typedefs(ms: &[Member], two_members: bool) -> Vec<TypeDef> {
    let mut out = vec![];
    for m in ms {
        out.push(TypeDef::Alias(*m));
    }
    out.push(TypeDef::Object(vec![]));
    // a union without variants still holds unknown variants: never safe
    out.push(TypeDef::Union(vec![]));
    for a in ms {
        out.push(TypeDef::Object(vec![*a]));
        out.push(TypeDef::Union(vec![*a]));
    }
    if two_members {
        for a in ms {
            for b in ms {
                out.push(TypeDef::Object(vec![*a, *b]));
                out.push(TypeDef::Union(vec![*a, *b]));
            }
        }
    }
    out
}

fn has_alias_cycle(g: &Graph) -> bool {
    // a cycle made only of aliases (through any wrapper) is not a definition the Conjure
    // compiler accepts; such graphs stay out of the space
    for start in 0..g.len() {
        let mut cur = start;
        let mut steps = 0;
        loop {
            match &g[cur] {
                TypeDef::Alias(Member::Ref(_, i)) | TypeDef::Alias(Member::DeclSafeRef(i)) => {
                    cur = *i;
                    steps += 1;
                    if cur == start {
                        return true;
                    }
                    if steps > g.len() {
                        break;
                    }
                }
                _ => break,
            }
        }
    }
    false
}

fn graphs(n: usize, thorough: bool, two_members: bool) -> Vec<Graph> {
    let ms = members(n, thorough);
    let tds = typedefs(&ms, two_members);
    let mut out = vec![];
    let dims = vec![tds.len(); n];
    vcommon::enumerate::for_each_product(&dims, |idx| {
        let g: Graph = idx.iter().map(|i| tds[*i].clone()).collect();
        // at least one reference between types, else nothing order-related can happen
        let has_ref = g.iter().any(|t| match t {
            TypeDef::Alias(m) => matches!(m, Member::Ref(..) | Member::DeclSafeRef(_)),
            TypeDef::Object(ms) | TypeDef::Union(ms) => ms.iter().any(|m| matches!(m, Member::Ref(..) | Member::DeclSafeRef(_))),
        });
        if has_ref && !has_alias_cycle(&g) {
            out.push(g);
        }
    });
    out
}

/// quick tier, three types: every type refers to another one (else the graph decomposes
/// into the two-type case); a type is alias(ref) / obj{ref} / obj{ref,str} / obj{str,ref} / union{ref}
fn graphs3_quick() -> Vec<Graph> {
    let mut tds = vec![];
    for j in 0..3 {
        let r = Member::Ref(Wrap::Plain, j);
        tds.push(TypeDef::Alias(Member::Ref(Wrap::List, j)));
        tds.push(TypeDef::Object(vec![r]));
        tds.push(TypeDef::Object(vec![r, Member::Str]));
        tds.push(TypeDef::Object(vec![Member::Str, r]));
        tds.push(TypeDef::Union(vec![r]));
    }
    let mut out = vec![];
    vcommon::enumerate::for_each_product(&[tds.len(); 3], |idx| {
        let g: Graph = idx.iter().map(|i| tds[*i].clone()).collect();
        // no type refers only to itself
        let self_only = g.iter().enumerate().any(|(i, t)| match t {
            TypeDef::Alias(Member::Ref(_, j)) => *j == i,
            TypeDef::Object(ms) | TypeDef::Union(ms) => ms.iter().all(|m| !matches!(m, Member::Ref(_, j) if *j != i)),
            _ => false,
        });
        if !self_only && !has_alias_cycle(&g) {
            out.push(g);
        }
    });
    out
}

/// three types, every type an object that refers to one or to both of the *other* two (in either
/// member order), possibly next to an undeclared string: the graphs in which a type is reached
/// along two different paths while a third is still open
fn graphs3_two_refs(thorough: bool) -> Vec<Graph> {
    let mut per_type: Vec<Vec<TypeDef>> = vec![];
    for i in 0..3usize {
        let others: Vec<usize> = (0..3).filter(|j| *j != i).collect();
        let r = |j: usize| Member::Ref(Wrap::Plain, j);
        let mut tds = vec![];
        for (a, b) in [(others[0], others[1]), (others[1], others[0])] {
            tds.push(TypeDef::Object(vec![r(a)]));
            tds.push(TypeDef::Object(vec![r(a), r(b)]));
            tds.push(TypeDef::Object(vec![r(a), Member::Str]));
            tds.push(TypeDef::Object(vec![Member::Str, r(a)]));
            if thorough {
                tds.push(TypeDef::Object(vec![r(a), r(b), Member::Str]));
                tds.push(TypeDef::Object(vec![Member::Str, r(a), r(b)]));
                tds.push(TypeDef::Object(vec![r(a), Member::DeclSafe]));
                tds.push(TypeDef::Union(vec![r(a), r(b)]));
                tds.push(TypeDef::Object(vec![Member::Ref(Wrap::List, a), Member::Ref(Wrap::MapEnum, b)]));
                tds.push(TypeDef::Object(vec![r(a), r(i)]));
            }
        }
        per_type.push(tds);
    }
    let mut out = vec![];
    for a in &per_type[0] {
        for b in &per_type[1] {
            for c in &per_type[2] {
                out.push(vec![a.clone(), b.clone(), c.clone()]);
            }
        }
    }
    out
}

pub fn graph_text(g: &Graph) -> String {
    g.iter()
        .enumerate()
        .map(|(i, t)| {
            let m = |m: &Member| match m {
                Member::Ref(w, j) => format!("{:?}<T{}>", w, j).to_lowercase(),
                Member::DeclSafeRef(j) => format!("safe:opt<T{}>", j),
                other => format!("{:?}", other).to_lowercase(),
            };
            match t {
                TypeDef::Alias(x) => format!("T{}=alias({})", i, m(x)),
                TypeDef::Object(ms) => format!("T{}=obj{{{}}}", i, ms.iter().map(m).collect::<Vec<_>>().join(",")),
                TypeDef::Union(ms) => format!("T{}=union{{{}}}", i, ms.iter().map(m).collect::<Vec<_>>().join(",")),
            }
        })
        .collect::<Vec<_>>()
        .join(";")
}

// ---------------------------------------------------------------- generator runs

pub fn scratch(tag: &str) -> PathBuf {
    let base = if std::path::Path::new("/dev/shm").is_dir() { PathBuf::from("/dev/shm") } else { std::env::temp_dir() };
    let p = base.join(format!("verif-cgorder-{}-{}", std::process::id(), tag));
    let _ = std::fs::remove_dir_all(&p);
    std::fs::create_dir_all(&p).unwrap();
    p
}

/// (endpoint name -> arg is `safe`) for the sync and the async trait of service `svc`
pub fn read_safe_flags(file: &std::path::Path, svc: &str) -> Result<[BTreeMap<String, Vec<bool>>; 2], String> {
    let text = std::fs::read_to_string(file).map_err(|e| format!("{}: {}", file.display(), e))?;
    let ast = syn::parse_file(&text).map_err(|e| e.to_string())?;
    let mut out = [BTreeMap::new(), BTreeMap::new()];
    for item in &ast.items {
        if let syn::Item::Trait(t) = item {
            let which = if t.ident == svc {
                0
            } else if t.ident == format!("Async{}", svc) {
                1
            } else {
                continue;
            };
            for it in &t.items {
                if let syn::TraitItem::Fn(f) = it {
                    let mut flags = vec![];
                    for arg in &f.sig.inputs {
                        if let syn::FnArg::Typed(pt) = arg {
                            let mut is_param = false;
                            let mut safe = false;
                            for a in &pt.attrs {
                                let p = a.path();
                                if p.is_ident("body") || p.is_ident("path") || p.is_ident("query") || p.is_ident("header") {
                                    is_param = true;
                                    if let syn::Meta::List(l) = &a.meta {
                                        for tt in l.tokens.clone() {
                                            if let proc_macro2::TokenTree::Ident(id) = tt {
                                                if id == "safe" {
                                                    safe = true;
                                                }
                                            }
                                        }
                                    }
                                }
                            }
                            if is_param {
                                flags.push(safe);
                            }
                        }
                    }
                    out[which].insert(f.sig.ident.to_string(), flags);
                }
            }
        }
    }
    Ok(out)
}

struct Packed {
    graph: usize,
    order: Vec<usize>,
    /// endpoint method names (snake case) in emission order, each with the type index it takes
    endpoints: Vec<(String, usize)>,
}

fn run_batch(batch_no: usize, graphs: &[(usize, &Graph)], r: &mut Report) {
    let items: Vec<Item> = graphs.iter().map(|(gi, g)| Item { gi: *gi, graph: g, orders: vcommon::enumerate::permutations(g.len()), label: None }).collect();
    run_items(batch_no, &items, r);
}

/// one graph with the endpoint orders to try (an order lists the types that get an endpoint, in
/// emission order); `label` replaces the graph text in signatures for the long-chain family
struct Item<'a> {
    gi: usize,
    graph: &'a Graph,
    orders: Vec<Vec<usize>>,
    label: Option<(String, Value)>,
}

fn run_items(batch_no: usize, items: &[Item], r: &mut Report) {
    let mut types = vec![json!({"type": "enum", "enum": {"typeName": {"name": "SharedEnum", "package": "com.verif"}, "values": [{"value": "A"}]}})];
    let mut endpoints = vec![];
    let mut endpoints2 = vec![];
    let mut packed = vec![];
    for it in items {
        let (gi, g) = (&it.gi, it.graph);
        let n = g.len();
        for (k, order) in it.orders.clone().into_iter().enumerate() {
            let names: Vec<String> = (0..n).map(|i| format!("G{}K{}T{}", gi, k, i)).collect();
            // the order of the type definitions in the IR varies too (odd copies: reversed), and the
            // endpoints of a copy alternate between two services
            let mut defs: Vec<Value> = g.iter().enumerate().map(|(i, t)| typedef_ir(&names[i], t, &names)).collect();
            if k % 2 == 1 {
                defs.reverse();
            }
            types.extend(defs);
            let mut eps = vec![];
            for (pos, ti) in order.iter().enumerate() {
                let ename = format!("g{}k{}p{}", gi, k, pos);
                let endpoints = if pos % 2 == 1 { &mut endpoints2 } else { &mut endpoints };
                endpoints.push(json!({
                    "endpointName": ename, "httpMethod": "POST", "httpPath": format!("/g{}/k{}/p{}", gi, k, pos),
                    "args": [{"argName": "arg", "type": tref(&names[*ti]), "paramType": {"type": "body", "body": {}}, "markers": [], "tags": []}],
                    "markers": [], "tags": []
                }));
                eps.push((ename, *ti));
            }
            packed.push(Packed { graph: *gi, order, endpoints: eps });
        }
    }
    let ir = json!({"version": 1, "errors": [], "types": types, "services": [{"serviceName": {"name": "Svc2", "package": "com.verif"}, "endpoints": endpoints2}, {"serviceName": {"name": "Svc", "package": "com.verif"}, "endpoints": endpoints}], "extensions": {}});
    let dir = scratch(&format!("c08-{}", batch_no));
    let ir_path = dir.join("ir.json");
    std::fs::write(&ir_path, serde_json::to_vec(&ir).unwrap()).unwrap();
    let out = dir.join("out");
    let res = conjure_codegen::Config::new().generate_files(&ir_path, &out);
    if let Err(e) = res {
        r.caps_hit.push(format!("generator failed on a packed C08 batch: {}", e));
        let _ = std::fs::remove_dir_all(&dir);
        return;
    }
    let flags = read_safe_flags(&out.join("com/verif/svc.rs"), "Svc").and_then(|mut a| {
        let b = read_safe_flags(&out.join("com/verif/svc2.rs"), "Svc2")?;
        for (x, y) in a.iter_mut().zip(b) {
            x.extend(y);
        }
        Ok(a)
    });
    let _ = std::fs::remove_dir_all(&dir);
    let flags = match flags {
        Ok(f) => f,
        Err(e) => {
            r.caps_hit.push(format!("cannot read generated service: {}", e));
            return;
        }
    };
    let by_graph: BTreeMap<usize, &Graph> = items.iter().map(|it| (it.gi, it.graph)).collect();
    let labels: BTreeMap<usize, &(String, Value)> = items.iter().filter_map(|it| it.label.as_ref().map(|l| (it.gi, l))).collect();
    let text_of = |gi: usize, g: &Graph| labels.get(&gi).map(|l| l.0.clone()).unwrap_or_else(|| graph_text(g));
    let case_of = |gi: usize, g: &Graph, mut extra: Value| {
        match labels.get(&gi) {
            Some(l) => extra["chain"] = l.1.clone(),
            None => extra["graph"] = json!(graph_text(g)),
        }
        extra
    };
    // observed[graph][type] = set of verdicts over all orders and both traits
    let mut observed: BTreeMap<usize, Vec<Vec<(bool, String)>>> = BTreeMap::new();
    for p in &packed {
        let g = by_graph[&p.graph];
        let want = model(g);
        r.states += 1;
        for (trait_idx, trait_name) in ["sync", "async"].iter().enumerate() {
            for (ename, ti) in &p.endpoints {
                r.evaluations += 1;
                r.transitions += 1;
                let got = match flags[trait_idx].get(ename).and_then(|f| f.first()) {
                    Some(b) => *b,
                    None => {
                        r.caps_hit.push(format!("endpoint {} missing from the generated {} trait", ename, trait_name));
                        continue;
                    }
                };
                let order_text = p.order.iter().map(|i| format!("T{}", i)).collect::<Vec<_>>().join(",");
                observed.entry(p.graph).or_insert_with(|| vec![vec![]; g.len()])[*ti].push((got, format!("{}@{}", order_text, trait_name)));
                if got == want[*ti] {
                    r.outcome(if got { "safe:agrees-with-model" } else { "not-safe:agrees-with-model" });
                } else {
                    r.violation(
                        format!("C08|{}|graph={}|order={}|arg=T{}|{}", if got { "marked-safe-but-can-hold-unsafe-data" } else { "safe-type-not-marked-safe" }, text_of(p.graph, g), order_text, ti, trait_name),
                        format!("graph {}: endpoints evaluated in order {} ({} trait): argument of type T{} is {}marked safe, the log-safety rules say {}", text_of(p.graph, g), order_text, trait_name, ti, if got { "" } else { "not " }, if want[*ti] { "safe" } else { "not safe" }),
                        case_of(p.graph, g, json!({"order": p.order, "arg": ti, "trait": trait_name, "types": g.len()})),
                    );
                }
            }
        }
    }
    for (gi, per_type) in observed {
        for (ti, obs) in per_type.iter().enumerate() {
            let any_true = obs.iter().any(|o| o.0);
            let any_false = obs.iter().any(|o| !o.0);
            if any_true && any_false {
                r.outcome("ORDER-DEPENDENT");
                let g = by_graph[&gi];
                r.violation(
                    format!("C08|order-dependent|graph={}|arg=T{}", text_of(gi, g), ti),
                    format!("graph {}: whether an argument of type T{} is marked safe depends on the evaluation order: safe under {:?}, not safe under {:?}", text_of(gi, g), ti, obs.iter().filter(|o| o.0).map(|o| &o.1).collect::<Vec<_>>(), obs.iter().filter(|o| !o.0).map(|o| &o.1).collect::<Vec<_>>()),
                    case_of(gi, g, json!({"arg": ti, "types": g.len()})),
                );
            }
        }
    }
}

/// long reference chains: T0 -> T1 -> ... -> T(len-1), the last type decides (a SAFE string or
/// an undeclared one); links are objects with an optional member, or alternate with aliases of
/// lists. Endpoints take the head, the middle and the tail in several orders (the memo is
/// filled from different ends)
fn chain_graph(len: usize, links: &str, end: &str) -> Graph {
    (0..len)
        .map(|i| {
            if i + 1 == len {
                TypeDef::Object(vec![if end == "safe" { Member::DeclSafe } else { Member::Str }])
            } else if links == "mixed" && i % 2 == 1 {
                TypeDef::Alias(Member::Ref(Wrap::List, i + 1))
            } else {
                TypeDef::Object(vec![Member::Ref(Wrap::Opt, i + 1)])
            }
        })
        .collect()
}

fn chain_orders(len: usize) -> Vec<Vec<usize>> {
    let (mid, last) = (len / 2, len - 1);
    let mut o = vec![vec![0], vec![mid, 0], vec![0, mid], vec![last, 0], vec![last, mid, 0], vec![0, mid, last]];
    for x in o.iter_mut() {
        x.dedup();
    }
    o.retain(|x| {
        let mut y = x.clone();
        y.sort();
        y.dedup();
        y.len() == x.len()
    });
    o.sort();
    o.dedup();
    o
}

fn chains(lens: &[usize], r: &mut Report) {
    for (n, len) in lens.iter().enumerate() {
        let mut graphs = vec![];
        for links in ["obj", "mixed"] {
            for end in ["safe", "str"] {
                graphs.push((chain_graph(*len, links, end), format!("chain(len={},links={},end={})", len, links, end), json!({"len": len, "links": links, "end": end})));
            }
        }
        let items: Vec<Item> = graphs.iter().enumerate().map(|(i, (g, text, j))| Item { gi: i, graph: g, orders: chain_orders(*len), label: Some((text.clone(), j.clone())) }).collect();
        run_items(100_000 + n, &items, r);
    }
}

/// argument-level rule: explicit safety wins, then the legacy marker / tag, then the type
fn argument_declarations(r: &mut Report) {
    // types: safe (enum), unknown (string alias), DNL (bearertoken alias), safe object, unsafe object
    let types = vec![
        json!({"type": "enum", "enum": {"typeName": {"name": "E", "package": "com.verif"}, "values": [{"value": "A"}]}}),
        json!({"type": "alias", "alias": {"typeName": {"name": "StrAlias", "package": "com.verif"}, "alias": prim("STRING")}}),
        json!({"type": "alias", "alias": {"typeName": {"name": "SafeAlias", "package": "com.verif"}, "alias": prim("STRING"), "safety": "SAFE"}}),
        json!({"type": "alias", "alias": {"typeName": {"name": "DnlAlias", "package": "com.verif"}, "alias": prim("STRING"), "safety": "DO_NOT_LOG"}}),
        json!({"type": "object", "object": {"typeName": {"name": "SafeObj", "package": "com.verif"}, "fields": [{"fieldName": "e", "type": tref("E")}, {"fieldName": "s", "type": prim("STRING"), "safety": "SAFE"}]}}),
        json!({"type": "object", "object": {"typeName": {"name": "UnsafeObj", "package": "com.verif"}, "fields": [{"fieldName": "e", "type": tref("E")}, {"fieldName": "s", "type": prim("STRING")}]}}),
        // aliases whose declaration differs from what their target alone would give, and aliases of them
        json!({"type": "alias", "alias": {"typeName": {"name": "DnlEnumAlias", "package": "com.verif"}, "alias": tref("E"), "safety": "DO_NOT_LOG"}}),
        json!({"type": "alias", "alias": {"typeName": {"name": "UnsafeEnumAlias", "package": "com.verif"}, "alias": tref("E"), "safety": "UNSAFE"}}),
        json!({"type": "alias", "alias": {"typeName": {"name": "SafeAliasAlias", "package": "com.verif"}, "alias": tref("SafeAlias")}}),
        json!({"type": "alias", "alias": {"typeName": {"name": "DnlEnumAliasAlias", "package": "com.verif"}, "alias": tref("DnlEnumAlias")}}),
        json!({"type": "alias", "alias": {"typeName": {"name": "EnumAlias", "package": "com.verif"}, "alias": tref("E")}}),
    ];
    let map = |k: Value, v: Value| json!({"type": "map", "map": {"keyType": k, "valueType": v}});
    let arg_types: Vec<(&str, Value, bool)> = vec![
        // the same declared aliases in *key* position (and as set / list items)
        ("mapSafeAliasKeyEnum", map(tref("SafeAlias"), tref("E")), true),
        ("mapSafeAliasAliasKeyEnum", map(tref("SafeAliasAlias"), tref("E")), true),
        ("mapDnlEnumAliasKeyEnum", map(tref("DnlEnumAlias"), tref("E")), false),
        ("mapUnsafeEnumAliasKeyEnum", map(tref("UnsafeEnumAlias"), tref("E")), false),
        ("mapDnlEnumAliasAliasKeyEnum", map(tref("DnlEnumAliasAlias"), tref("E")), false),
        ("mapEnumAliasKeySafe", map(tref("EnumAlias"), tref("SafeAlias")), true),
        ("mapEnumKeyDnlEnumAlias", map(tref("E"), tref("DnlEnumAlias")), false),
        ("setDnlEnumAlias", json!({"type": "set", "set": {"itemType": tref("DnlEnumAlias")}}), false),
        ("setSafeAlias", json!({"type": "set", "set": {"itemType": tref("SafeAlias")}}), true),
        ("optMapSafeAliasKeyEnum", json!({"type": "optional", "optional": {"itemType": map(tref("SafeAlias"), tref("E"))}}), true),
        ("dnlEnumAlias", tref("DnlEnumAlias"), false),
        ("unsafeEnumAlias", tref("UnsafeEnumAlias"), false),
        ("safeAliasAlias", tref("SafeAliasAlias"), true),
        ("dnlEnumAliasAlias", tref("DnlEnumAliasAlias"), false),
        ("enum", tref("E"), true),
        ("string", prim("STRING"), false),
        ("strAlias", tref("StrAlias"), false),
        ("safeAlias", tref("SafeAlias"), true),
        ("dnlAlias", tref("DnlAlias"), false),
        ("token", prim("BEARERTOKEN"), false),
        ("optEnum", json!({"type": "optional", "optional": {"itemType": tref("E")}}), true),
        ("listSafeAlias", json!({"type": "list", "list": {"itemType": tref("SafeAlias")}}), true),
        ("mapEnumSafe", json!({"type": "map", "map": {"keyType": tref("E"), "valueType": tref("SafeAlias")}}), true),
        ("mapStrEnum", json!({"type": "map", "map": {"keyType": prim("STRING"), "valueType": tref("E")}}), false),
        ("mapEnumStr", json!({"type": "map", "map": {"keyType": tref("E"), "valueType": tref("StrAlias")}}), false),
        ("mapSafeAliasString", json!({"type": "map", "map": {"keyType": tref("SafeAlias"), "valueType": prim("STRING")}}), false),
        ("mapEnumDnl", json!({"type": "map", "map": {"keyType": tref("E"), "valueType": tref("DnlAlias")}}), false),
        ("mapDnlEnum", json!({"type": "map", "map": {"keyType": tref("DnlAlias"), "valueType": tref("E")}}), false),
        ("setEnum", json!({"type": "set", "set": {"itemType": tref("E")}}), true),
        ("listString", json!({"type": "list", "list": {"itemType": prim("STRING")}}), false),
        ("optUnsafeObj", json!({"type": "optional", "optional": {"itemType": tref("UnsafeObj")}}), false),
        ("safeObj", tref("SafeObj"), true),
        ("unsafeObj", tref("UnsafeObj"), false),
        ("any", prim("ANY"), false),
        ("external", json!({"type": "external", "external": {"externalReference": {"name": "Ext", "package": "com.other"}, "fallback": tref("E")}}), false),
    ];
    let marker = json!({"type": "external", "external": {"externalReference": {"name": "Safe", "package": "com.palantir.logsafe"}, "fallback": prim("ANY")}});
    let other_marker = json!({"type": "external", "external": {"externalReference": {"name": "Safe", "package": "com.other"}, "fallback": prim("ANY")}});
    let decls: Vec<(&str, Value, Box<dyn Fn(bool) -> bool>)> = vec![
        ("none", json!({}), Box::new(|t| t)),
        ("SAFE", json!({"safety": "SAFE"}), Box::new(|_| true)),
        ("UNSAFE", json!({"safety": "UNSAFE"}), Box::new(|_| false)),
        ("DO_NOT_LOG", json!({"safety": "DO_NOT_LOG"}), Box::new(|_| false)),
        ("marker", json!({"markers": [marker.clone()]}), Box::new(|_| true)),
        ("tag", json!({"tags": ["safe"]}), Box::new(|_| true)),
        ("other-marker", json!({"markers": [other_marker]}), Box::new(|t| t)),
        ("other-tag", json!({"tags": ["unsafe", "Safe"]}), Box::new(|t| t)),
        ("tag-with-safe-prefix", json!({"tags": ["safe-to-retry", "safety-reviewed"]}), Box::new(|t| t)),
        ("tag-safe-colon", json!({"tags": ["safe: false", "safe:"]}), Box::new(|t| t)),
        ("tag-padded-or-upper", json!({"tags": [" safe", "safe ", "SAFE", "notsafe"]}), Box::new(|t| t)),
        ("tag-among-others", json!({"tags": ["incubating", "safe", "zzz"]}), Box::new(|_| true)),
        ("similar-marker", json!({"markers": [json!({"type": "external", "external": {"externalReference": {"name": "SafeArg", "package": "com.palantir.logsafe"}, "fallback": prim("ANY")}}), json!({"type": "external", "external": {"externalReference": {"name": "Safe", "package": "com.palantir.logsafe.extra"}, "fallback": prim("ANY")}}), json!({"type": "external", "external": {"externalReference": {"name": "Unsafe", "package": "com.palantir.logsafe"}, "fallback": prim("ANY")}})]}), Box::new(|t| t)),
        ("marker-among-others", json!({"markers": [json!({"type": "external", "external": {"externalReference": {"name": "Incubating", "package": "com.palantir.foo"}, "fallback": prim("ANY")}}), marker.clone()]}), Box::new(|_| true)),
        ("UNSAFE+marker", json!({"safety": "UNSAFE", "markers": [marker.clone()]}), Box::new(|_| false)),
        ("DO_NOT_LOG+tag", json!({"safety": "DO_NOT_LOG", "tags": ["safe"]}), Box::new(|_| false)),
    ];
    let mut endpoints = vec![];
    let mut expect = vec![];
    for (ti, (tname, ty, type_safe)) in arg_types.iter().enumerate() {
        for (di, (dname, extra, rule)) in decls.iter().enumerate() {
            let ename = format!("a{}d{}", ti, di);
            let mut arg = json!({"argName": "arg", "type": ty, "paramType": {"type": "body", "body": {}}, "markers": [], "tags": []});
            for (k, v) in extra.as_object().unwrap() {
                arg[k] = v.clone();
            }
            endpoints.push(json!({"endpointName": ename, "httpMethod": "POST", "httpPath": format!("/a/{}/{}", ti, di), "args": [arg], "markers": [], "tags": []}));
            expect.push((ename, format!("{}/{}", tname, dname), rule(*type_safe)));
        }
    }
    let ir = json!({"version": 1, "errors": [], "types": types, "services": [{"serviceName": {"name": "Svc", "package": "com.verif"}, "endpoints": endpoints}], "extensions": {}});
    let dir = scratch("c08-args");
    let ir_path = dir.join("ir.json");
    std::fs::write(&ir_path, serde_json::to_vec(&ir).unwrap()).unwrap();
    let out = dir.join("out");
    if let Err(e) = conjure_codegen::Config::new().generate_files(&ir_path, &out) {
        r.caps_hit.push(format!("generator failed on the argument-declaration IR: {}", e));
        let _ = std::fs::remove_dir_all(&dir);
        return;
    }
    let flags = read_safe_flags(&out.join("com/verif/svc.rs"), "Svc");
    let _ = std::fs::remove_dir_all(&dir);
    let flags = match flags {
        Ok(f) => f,
        Err(e) => {
            r.caps_hit.push(e);
            return;
        }
    };
    for (ename, what, want) in expect {
        r.states += 1;
        for (ti, tn) in ["sync", "async"].iter().enumerate() {
            r.evaluations += 1;
            r.transitions += 1;
            match flags[ti].get(&ename).and_then(|f| f.first()) {
                Some(got) if *got == want => r.outcome("argument-declaration:agrees"),
                Some(got) => r.violation(
                    format!("C08|argument-declaration|{}|{}", what, tn),
                    format!("argument of type/declaration {} is {}marked safe in the {} trait, expected {}", what, if *got { "" } else { "not " }, tn, if want { "safe" } else { "not safe" }),
                    json!({"argument_declaration": what}),
                ),
                None => r.caps_hit.push(format!("endpoint {} missing", ename)),
            }
        }
    }
}

/// (endpoint -> argument name -> `safe`) for the sync and the async trait
fn read_named_flags(file: &std::path::Path, svc: &str) -> Result<[BTreeMap<String, BTreeMap<String, bool>>; 2], String> {
    let text = std::fs::read_to_string(file).map_err(|e| format!("{}: {}", file.display(), e))?;
    let ast = syn::parse_file(&text).map_err(|e| e.to_string())?;
    let mut out = [BTreeMap::new(), BTreeMap::new()];
    for item in &ast.items {
        if let syn::Item::Trait(t) = item {
            let which = if t.ident == svc {
                0
            } else if t.ident == format!("Async{}", svc) {
                1
            } else {
                continue;
            };
            for it in &t.items {
                if let syn::TraitItem::Fn(f) = it {
                    let mut flags = BTreeMap::new();
                    for arg in &f.sig.inputs {
                        if let syn::FnArg::Typed(pt) = arg {
                            let name = match &*pt.pat {
                                syn::Pat::Ident(i) => i.ident.to_string(),
                                _ => continue,
                            };
                            for a in &pt.attrs {
                                let p = a.path();
                                if p.is_ident("body") || p.is_ident("path") || p.is_ident("query") || p.is_ident("header") {
                                    let mut safe = false;
                                    if let syn::Meta::List(l) = &a.meta {
                                        for tt in l.tokens.clone() {
                                            if let proc_macro2::TokenTree::Ident(id) = tt {
                                                if id == "safe" {
                                                    safe = true;
                                                }
                                            }
                                        }
                                    }
                                    flags.insert(name.clone(), safe);
                                }
                            }
                        }
                    }
                    out[which].insert(f.sig.ident.to_string(), flags);
                }
            }
        }
    }
    Ok(out)
}

/// an argument's marker depends on that argument alone: path / query / header arguments of safe
/// and non-safe types next to every kind of body (none, binary, alias of binary, optional
/// binary, safe / unsafe object), next to siblings of the opposite safety, with header or cookie
/// auth, the body listed first or last
fn argument_siblings(r: &mut Report) {
    let types = vec![
        json!({"type": "enum", "enum": {"typeName": {"name": "E", "package": "com.verif"}, "values": [{"value": "A"}]}}),
        json!({"type": "alias", "alias": {"typeName": {"name": "SafeAlias", "package": "com.verif"}, "alias": prim("STRING"), "safety": "SAFE"}}),
        json!({"type": "alias", "alias": {"typeName": {"name": "DnlAlias", "package": "com.verif"}, "alias": prim("STRING"), "safety": "DO_NOT_LOG"}}),
        json!({"type": "alias", "alias": {"typeName": {"name": "BinAlias", "package": "com.verif"}, "alias": prim("BINARY")}}),
        json!({"type": "object", "object": {"typeName": {"name": "SafeObj", "package": "com.verif"}, "fields": [{"fieldName": "e", "type": tref("E")}]}}),
        json!({"type": "object", "object": {"typeName": {"name": "UnsafeObj", "package": "com.verif"}, "fields": [{"fieldName": "s", "type": prim("STRING")}]}}),
    ];
    // (tag, type, safe by type)
    let params: Vec<(&str, Value, bool)> = vec![("enum", tref("E"), true), ("str", prim("STRING"), false), ("safeAlias", tref("SafeAlias"), true), ("dnl", tref("DnlAlias"), false), ("rid", prim("RID"), false)];
    let bodies: Vec<(&str, Option<Value>, bool)> = vec![
        ("nobody", None, false),
        ("binary", Some(prim("BINARY")), false),
        ("binAlias", Some(tref("BinAlias")), false),
        ("optBinary", Some(json!({"type": "optional", "optional": {"itemType": prim("BINARY")}})), false),
        ("safeObj", Some(tref("SafeObj")), true),
        ("unsafeObj", Some(tref("UnsafeObj")), false),
    ];
    let decls: Vec<(&str, Value, Box<dyn Fn(bool) -> bool>)> = vec![("none", json!({}), Box::new(|t| t)), ("SAFE", json!({"safety": "SAFE"}), Box::new(|_| true)), ("UNSAFE", json!({"safety": "UNSAFE"}), Box::new(|_| false))];
    let mut endpoints = vec![];
    let mut expect: Vec<(String, String, String, bool)> = vec![];
    let mut n = 0;
    for (bi, (bname, body, body_safe)) in bodies.iter().enumerate() {
        for (pi, (pname, pty, psafe)) in params.iter().enumerate() {
            for (di, (dname, extra, rule)) in decls.iter().enumerate() {
                for auth in [None, Some("header"), Some("cookie")] {
                    for body_first in [false, true] {
                        if (auth.is_some() || body_first) && (di != 0 && pi > 1) {
                            continue;
                        }
                        n += 1;
                        let ename = format!("s{}", n);
                        let mk = |name: &str, ty: &Value, kind: Value, extra: &Value| {
                            let mut a = json!({"argName": name, "type": ty, "paramType": kind, "markers": [], "tags": []});
                            for (k, v) in extra.as_object().unwrap() {
                                a[k] = v.clone();
                            }
                            a
                        };
                        // the judged argument in each of the three positions + a sibling of the opposite type safety
                        let (sib_ty, sib_safe) = if *psafe { (prim("STRING"), false) } else { (tref("E"), true) };
                        let mut args = vec![
                            mk("pathArg", pty, json!({"type": "path", "path": {}}), extra),
                            mk("queryArg", pty, json!({"type": "query", "query": {"paramId": "q"}}), extra),
                            mk("headerArg", pty, json!({"type": "header", "header": {"paramId": "X-H"}}), extra),
                            mk("sibling", &sib_ty, json!({"type": "query", "query": {"paramId": "sib"}}), &json!({})),
                        ];
                        if let Some(b) = body {
                            let ba = mk("bodyArg", b, json!({"type": "body", "body": {}}), &json!({}));
                            if body_first {
                                args.insert(0, ba);
                            } else {
                                args.push(ba);
                            }
                        }
                        let mut ep = json!({"endpointName": ename, "httpMethod": "POST", "httpPath": format!("/s/{}/{{pathArg}}", n), "args": args, "markers": [], "tags": []});
                        match auth {
                            Some("header") => ep["auth"] = json!({"type": "header", "header": {}}),
                            Some("cookie") => ep["auth"] = json!({"type": "cookie", "cookie": {"cookieName": "T"}}),
                            _ => {}
                        }
                        endpoints.push(ep);
                        let what = format!("{}/{} next to body {} (auth {:?}, body first {})", pname, dname, bname, auth, body_first);
                        for a in ["path_arg", "query_arg", "header_arg"] {
                            expect.push((ename.clone(), a.to_string(), what.clone(), rule(*psafe)));
                        }
                        expect.push((ename.clone(), "sibling".to_string(), format!("sibling of {}", what), sib_safe));
                        if body.is_some() {
                            expect.push((ename.clone(), "body_arg".to_string(), format!("body {} of {}", bname, what), *body_safe));
                        }
                        let _ = (bi, pi, di);
                    }
                }
            }
        }
    }
    let ir = json!({"version": 1, "errors": [], "types": types, "services": [{"serviceName": {"name": "Sib", "package": "com.verif"}, "endpoints": endpoints}], "extensions": {}});
    let dir = scratch("c08-siblings");
    let ir_path = dir.join("ir.json");
    std::fs::write(&ir_path, serde_json::to_vec(&ir).unwrap()).unwrap();
    let out = dir.join("out");
    if let Err(e) = conjure_codegen::Config::new().generate_files(&ir_path, &out) {
        r.caps_hit.push(format!("generator failed on the argument-sibling IR: {}", e));
        let _ = std::fs::remove_dir_all(&dir);
        return;
    }
    let flags = read_named_flags(&out.join("com/verif/sib.rs"), "Sib");
    let _ = std::fs::remove_dir_all(&dir);
    let flags = match flags {
        Ok(f) => f,
        Err(e) => {
            r.caps_hit.push(e);
            return;
        }
    };
    for (ename, arg, what, want) in expect {
        r.states += 1;
        for (ti, tn) in ["sync", "async"].iter().enumerate() {
            r.evaluations += 1;
            r.transitions += 1;
            match flags[ti].get(&ename).and_then(|f| f.get(&arg)) {
                Some(got) if *got == want => r.outcome("argument-declaration:agrees"),
                Some(got) => r.violation(
                    format!("C08|argument-sibling|{}|{}|{}", arg, what, tn),
                    format!("{} of endpoint {}: {} is {}marked safe in the {} trait, expected {}", arg, ename, what, if *got { "" } else { "not " }, tn, if want { "safe" } else { "not safe" }),
                    json!({"argument_sibling": what}),
                ),
                None => r.caps_hit.push(format!("argument {} of endpoint {} missing from the {} trait", arg, ename, tn)),
            }
        }
    }
}

pub fn run(args: &Args) -> Report {
    let mut report = Report::new("C08", "model_checking");
    let thorough = args.tier.is_thorough();
    let mut all: Vec<Graph> = graphs(2, thorough, true);
    let n2 = all.len();
    // three types: cycles through three types
    if thorough {
        all.extend(graphs(3, false, false));
    } else {
        all.extend(graphs3_quick());
    }
    all.extend(graphs3_two_refs(thorough));
    let n3 = all.len() - n2;
    if let Some(path) = &args.replay {
        let v = vcommon::load_replay(path);
        let want = v["case"]["graph"].as_str().unwrap_or("").to_string();
        if let Some(len) = v["case"]["chain"]["len"].as_u64() {
            let lens = [len as usize];
            let mut rr = std::thread::Builder::new().stack_size(256 << 20).spawn(move || {
                let mut r = Report::new("C08", "model_checking");
                chains(&lens, &mut r);
                r
            }).unwrap().join().unwrap();
            rr.exhaustive = false;
            return rr;
        }
        if v["case"].get("argument_sibling").is_some() {
            argument_siblings(&mut report);
        } else if want.is_empty() {
            argument_declarations(&mut report);
        } else {
            let mut extra = vec![];
            if !all.iter().any(|g| graph_text(g) == want) {
                extra = graphs(2, true, true);
                extra.extend(graphs3_two_refs(true));
            }
            let found: Vec<(usize, &Graph)> = all.iter().chain(extra.iter()).enumerate().filter(|(_, g)| graph_text(g) == want).take(1).collect();
            run_batch(0, &found, &mut report);
        }
        report.exhaustive = false;
        return report;
    }
    let indexed: Vec<(usize, &Graph)> = all.iter().enumerate().collect();
    let batch = 64;
    let parts: Vec<Report> = indexed
        .par_chunks(batch)
        .enumerate()
        .map(|(bi, chunk)| {
            let mut r = Report::new("C08", "model_checking");
            run_batch(bi, chunk, &mut r);
            r
        })
        .collect();
    for p in parts {
        report.merge(p);
    }
    argument_declarations(&mut report);
    argument_siblings(&mut report);
    let lens: Vec<usize> = if thorough { vec![2, 3, 16, 64, 100, 127, 128, 129, 130, 200, 255, 256, 257, 300, 513] } else { vec![2, 16, 127, 128, 129, 130, 257] };
    report.bound("chain_lengths", json!(lens));
    let chain_report = std::thread::Builder::new().stack_size(256 << 20).spawn(move || {
        let mut r = Report::new("C08", "model_checking");
        chains(&lens, &mut r);
        r
    }).unwrap().join().unwrap();
    report.merge(chain_report);
    report.sample("graph", json!({"graph": "T0=obj{opt<T1>,str};T1=obj{opt<T0>}", "orders": ["T0,T1", "T1,T0"], "model": {"T0": false, "T1": false}}));
    report.sample("graph3", json!({"graph": "T0=alias(list<T1>);T1=obj{plain<T2>};T2=union{safe}", "orders": 6}));
    report.bound("graphs_2_types", n2);
    report.bound("graphs_3_types_one_member", n3);
    report.bound("member_alphabet", json!(members(2, thorough).iter().map(|m| format!("{:?}", m)).collect::<Vec<_>>()));
    report.bound("orders", "every permutation of the endpoints (= order of first touch), sync trait then async trait");
    report.nontrivial = report.states;
    report.rule = "states = (type graph, endpoint order): every graph of 2 named types over alias / object (0-2 members) / union (1-2 members) with at least one inter-type reference, and of 3 types with one-member definitions, x every order (the type definitions of odd copies are listed in reverse, the endpoints of a copy alternate between two services); reference chains of the listed lengths (object / alias-of-list links, safe or undeclared tail) with endpoints on head / middle / tail in six orders; the generator's `safe` markers (read back from the emitted server traits with syn) are compared with the greatest-fixed-point model for every argument, and must not depend on the order".into();
    report.assumptions.push("graphs with more types / members behave like compositions of these (the memo is per type name)".into());
    report
}
