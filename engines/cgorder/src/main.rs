//! E5 — generator order / determinism engine (C08, C20).
mod c08;

use vcommon::{Args, Report};

fn main() {
    let args = Args::parse();
    vcommon::quiet_panics();
    let report: Report = match args.property.as_str() {
        "C08" => c08::run(&args),
        other => panic!("cgorder: unknown property {}", other),
    };
    report.write(&args.out);
}
