//! E5 — generator order / determinism engine (C08, C20).
mod c08;
mod c20;

use vcommon::{Args, Report};

fn main() {
    let raw: Vec<String> = std::env::args().collect();
    if raw.get(1).map(|s| s.as_str()) == Some("__genlib") {
        std::process::exit(c20::genlib(&raw[2..]));
    }
    let args = Args::parse();
    vcommon::quiet_panics();
    let report: Report = match args.property.as_str() {
        "C08" => c08::run(&args),
        "C20" => c20::run(&args),
        other => panic!("cgorder: unknown property {}", other),
    };
    report.write(&args.out);
}
