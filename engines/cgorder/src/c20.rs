//! C20 — code generation is deterministic: same definition and options, same bytes;
//! library entry point == command-line tool; files only beneath the output directory.
//!
//! Each generation runs in a fresh process, into a fresh directory with a different path,
//! from a different working directory, under an LD_PRELOAD shim that answers getrandom()
//! from VERIF_HASH_SEED — so the process-level hash seed (the generator's only
//! nondeterministic input) is an explored, replayable harness choice.

use crate::c08::scratch;
use rayon::prelude::*;
use serde_json::{json, Value};
use std::collections::{BTreeMap, BTreeSet, HashMap};
use std::path::{Path, PathBuf};
use std::process::Command;
use vcommon::{Args, Report};

const SHIM: &str = "/verif/target/shim/getrandom_shim.so";
const REPO_TARGET: &str = "/verif/target/repo";

#[derive(Clone, Debug)]
pub struct Cfg {
    exhaustive: bool,
    serialize_empty: bool,
    strip: Option<&'static str>,
    /// (product name, product version, crate version)
    krate: Option<(&'static str, &'static str, Option<&'static str>)>,
}

impl Cfg {
    fn text(&self) -> String {
        format!("exhaustive={} serializeEmpty={} strip={:?} crate={:?}", self.exhaustive, self.serialize_empty, self.strip, self.krate)
    }
    fn cli_flags(&self) -> Vec<String> {
        let mut v = vec![];
        if self.exhaustive {
            v.push("--exhaustive".to_string());
        }
        if self.serialize_empty {
            v.push("--serializeEmptyCollections=true".to_string());
        }
        if let Some(s) = self.strip {
            v.push("--stripPrefix".into());
            v.push(s.into());
        }
        if let Some((n, pv, cv)) = self.krate {
            v.push("--productName".into());
            v.push(n.into());
            v.push("--productVersion".into());
            v.push(pv.into());
            if let Some(cv) = cv {
                v.push("--crateVersion".into());
                v.push(cv.into());
            }
        }
        v
    }
    fn lib_args(&self) -> Vec<String> {
        vec![
            self.exhaustive.to_string(),
            self.serialize_empty.to_string(),
            self.strip.unwrap_or("-").to_string(),
            self.krate.map(|k| k.0).unwrap_or("-").to_string(),
            self.krate.map(|k| k.1).unwrap_or("-").to_string(),
            self.krate.and_then(|k| k.2).unwrap_or("-").to_string(),
        ]
    }
}

/// the library-side equivalent of the CLI flags, run by the `__genlib` subcommand
pub fn genlib(args: &[String]) -> i32 {
    let (ir, out) = (&args[0], &args[1]);
    let b = |s: &String| s == "true";
    let opt = |s: &String| if s == "-" { None } else { Some(s.clone()) };
    let mut c = conjure_codegen::Config::new();
    c.exhaustive(b(&args[2])).serialize_empty_collections(b(&args[3]));
    if let Some(p) = opt(&args[4]) {
        c.strip_prefix(p);
    }
    let (name, pv, cv) = (opt(&args[5]), opt(&args[6]), opt(&args[7]));
    // what `conjure-rust generate` documents: the crate version defaults to the product version
    if let (Some(name), Some(pv)) = (&name, &pv) {
        c.build_crate(name, cv.as_deref().unwrap_or(pv));
    }
    if let Some(pv) = &pv {
        c.version(pv.clone());
    }
    // entries "lib5a" / "lib5b" (library only): the endpoint version is left unset so that it
    // defaults to the crate version; "b" switches the crate on twice (another name and version
    // first). Both describe the same final configuration.
    if let Ok(which) = std::env::var("VERIF_VERSION_UNSET") {
        let mut d = conjure_codegen::Config::new();
        d.exhaustive(b(&args[2])).serialize_empty_collections(b(&args[3]));
        d.strip_prefix(opt(&args[4]));
        if let (Some(name), Some(pv)) = (&name, &pv) {
            if which == "b" {
                d.build_crate("overwritten-name", "0.0.1");
            }
            d.build_crate(name, cv.as_deref().unwrap_or(pv));
        }
        c = d;
    }
    // entry "lib4": the same final configuration reached through a longer sequence of setter
    // calls (values set, then overwritten; the crate switched on twice; options in another order)
    if std::env::var("VERIF_SETTER_SEQUENCE").is_ok() {
        let mut d = conjure_codegen::Config::new();
        d.version("0.0.0-overwritten".to_string());
        d.strip_prefix("zzz.overwritten".to_string());
        if let (Some(name), Some(pv)) = (&name, &pv) {
            d.build_crate("overwritten-name", "0.0.1");
            d.build_crate(name, cv.as_deref().unwrap_or(pv));
        }
        d.serialize_empty_collections(!b(&args[3])).exhaustive(!b(&args[2]));
        d.serialize_empty_collections(b(&args[3])).exhaustive(b(&args[2]));
        d.strip_prefix(opt(&args[4]));
        d.version(pv.clone());
        c = d;
    }
    // probe: iteration order of a HashMap with the IR's type names under this hash seed
    if let Ok(order_file) = std::env::var("VERIF_ORDER_PROBE") {
        if let Ok(text) = std::fs::read_to_string(ir) {
            if let Ok(v) = serde_json::from_str::<Value>(&text) {
                let mut m: HashMap<String, ()> = HashMap::new();
                for t in v["types"].as_array().cloned().unwrap_or_default() {
                    for k in ["object", "alias", "enum", "union"] {
                        if let Some(n) = t[k]["typeName"]["name"].as_str() {
                            m.insert(n.to_string(), ());
                        }
                    }
                }
                let order: Vec<String> = m.keys().take(6).cloned().collect();
                let _ = std::fs::write(order_file, order.join(","));
            }
        }
    }
    // entry "lib2": the same process first generates the same IR under *different* options into a
    // scratch directory (as a build script generating several flavours does)
    if let Ok(scratch_dir) = std::env::var("VERIF_PRIOR_GENERATION") {
        let mut other = conjure_codegen::Config::new();
        other.exhaustive(!b(&args[2])).serialize_empty_collections(!b(&args[3]));
        match opt(&args[4]) {
            Some(_) => {}
            None => {
                other.strip_prefix("com".to_string());
            }
        }
        let _ = other.generate_files(ir, &scratch_dir);
        let mut third = conjure_codegen::Config::new();
        third.strip_prefix("com.palantir".to_string()).build_crate("other-product", "9.9.9");
        let _ = third.generate_files(ir, format!("{}-b", scratch_dir));
    }
    // entry "lib3": the output directory already holds an older generation of the same
    // definition under other options (a build script re-run after a flag flip)
    if std::env::var("VERIF_STALE_OUTPUT").is_ok() {
        let mut other = conjure_codegen::Config::new();
        other.exhaustive(!b(&args[2])).serialize_empty_collections(!b(&args[3]));
        if let Some(p) = opt(&args[4]) {
            other.strip_prefix(p);
        }
        if let (Some(name), Some(pv)) = (&name, &pv) {
            other.build_crate(name, cv.as_deref().unwrap_or(pv));
        }
        if let Some(pv) = &pv {
            other.version(pv.clone());
        }
        let _ = other.generate_files(ir, out);
    }
    match c.generate_files(ir, out) {
        Ok(()) => 0,
        Err(e) => {
            eprintln!("{:?}", e);
            1
        }
    }
}

fn tree(dir: &Path) -> BTreeMap<String, Vec<u8>> {
    fn walk(base: &Path, d: &Path, out: &mut BTreeMap<String, Vec<u8>>) {
        if let Ok(rd) = std::fs::read_dir(d) {
            for e in rd.flatten() {
                let p = e.path();
                if p.is_dir() {
                    out.insert(format!("{}/", p.strip_prefix(base).unwrap().display()), vec![]);
                    walk(base, &p, out);
                } else {
                    out.insert(p.strip_prefix(base).unwrap().display().to_string(), std::fs::read(&p).unwrap_or_default());
                }
            }
        }
    }
    let mut out = BTreeMap::new();
    walk(dir, dir, &mut out);
    out
}

fn diff(a: &BTreeMap<String, Vec<u8>>, b: &BTreeMap<String, Vec<u8>>) -> Option<String> {
    let ka: BTreeSet<&String> = a.keys().collect();
    let kb: BTreeSet<&String> = b.keys().collect();
    if ka != kb {
        let only_a: Vec<_> = ka.difference(&kb).take(3).collect();
        let only_b: Vec<_> = kb.difference(&ka).take(3).collect();
        return Some(format!("file sets differ: only in first {:?}, only in second {:?}", only_a, only_b));
    }
    for (k, v) in a {
        if b[k] != *v {
            let (x, y) = (String::from_utf8_lossy(v), String::from_utf8_lossy(&b[k]));
            let line = x.lines().zip(y.lines()).position(|(p, q)| p != q).unwrap_or(0);
            return Some(format!("{} differs at line {}: {:?} vs {:?}", k, line + 1, x.lines().nth(line).unwrap_or(""), y.lines().nth(line).unwrap_or("")));
        }
    }
    None
}

struct Run {
    tree: BTreeMap<String, Vec<u8>>,
    ok: bool,
    stderr: String,
    probe: Option<String>,
}

fn generate(entry: &str, ir: &Path, cfg: &Cfg, seed: u64, work: &Path, tag: &str, strace: bool) -> (Run, Option<Vec<String>>) {
    // a fresh output directory whose *path* varies with the run, and a different cwd
    // (the last component takes names a build tool gives meaning to: the tree must not depend on
    // what the requested directory is called)
    let out = work.join(format!("out-{}-{}-s{}", tag, entry, seed)).join(["x", "src", "xxx", "lib", "target", "mod.rs", "com"][(seed % 7) as usize]);
    let cwd = work.join(format!("cwd-{}-{}-s{}", tag, entry, seed));
    std::fs::create_dir_all(&cwd).unwrap();
    std::fs::create_dir_all(out.parent().unwrap()).unwrap();
    // some runs generate into a directory that lies inside another cargo project (its ancestor
    // holds a manifest): where the directory lives is not part of the definition
    if seed % 3 == 2 {
        std::fs::write(out.parent().unwrap().join("Cargo.toml"), "[package]\nname = \"enclosing\"\nversion = \"0.0.0\"\nedition = \"2021\"\n").unwrap();
    }
    let probe_file = work.join(format!("probe-{}-{}-s{}", tag, entry, seed));
    // the definition itself is reached through a different path each time (its own copy in a
    // fresh directory; an absolute path for even seeds, one relative to the cwd for odd ones)
    let ir_dir = work.join(format!("ir-{}-{}-s{}", tag, entry, seed)).join("d".repeat((seed % 3) as usize + 1));
    std::fs::create_dir_all(&ir_dir).unwrap();
    let ir_copy = ir_dir.join(format!("definition-{}.json", seed));
    std::fs::copy(ir, &ir_copy).unwrap();
    let ir_arg: PathBuf = if seed % 2 == 0 {
        ir_copy.clone()
    } else {
        // cwd = <work>/cwd-...; the copy = <work>/ir-.../d../definition-N.json
        PathBuf::from("..").join(ir_copy.strip_prefix(work).unwrap())
    };
    let ir = &ir_arg;
    let (exe, mut argv): (String, Vec<String>) = if entry == "cli" {
        let mut a = vec!["generate".to_string()];
        a.extend(cfg.cli_flags());
        a.push(ir.display().to_string());
        a.push(out.display().to_string());
        (format!("{}/release/conjure-rust", REPO_TARGET), a)
    } else {
        let mut a = vec!["__genlib".to_string(), ir.display().to_string(), out.display().to_string()];
        a.extend(cfg.lib_args());
        (std::env::current_exe().unwrap().display().to_string(), a)
    };
    let strace_log = work.join(format!("strace-{}-{}-s{}", tag, entry, seed));
    let mut cmd = if strace {
        let mut c = Command::new("strace");
        c.args(["-f", "-e", "trace=%file", "-o"]).arg(&strace_log).arg(&exe);
        c
    } else {
        Command::new(&exe)
    };
    if entry == "lib5a" || entry == "lib5b" {
        cmd.env("VERIF_VERSION_UNSET", &entry[4..]);
    }
    if entry == "lib4" {
        cmd.env("VERIF_SETTER_SEQUENCE", "1");
    }
    if entry == "lib3" {
        cmd.env("VERIF_STALE_OUTPUT", "1");
    }
    if entry == "lib2" {
        cmd.env("VERIF_PRIOR_GENERATION", work.join(format!("prior-{}-s{}", tag, seed)));
    }
    cmd.args(argv.drain(..)).current_dir(&cwd).env("LD_PRELOAD", SHIM).env("VERIF_HASH_SEED", seed.to_string()).env("VERIF_ORDER_PROBE", &probe_file).env("RUST_BACKTRACE", "0");
    let outp = cmd.output();
    let (ok, stderr) = match outp {
        Ok(o) => (o.status.success(), String::from_utf8_lossy(&o.stderr).chars().take(400).collect()),
        Err(e) => (false, format!("spawn failed: {}", e)),
    };
    let mut created = None;
    if strace {
        let mut paths = vec![];
        if let Ok(log) = std::fs::read_to_string(&strace_log) {
            for line in log.lines() {
                // creations / writes: openat(... O_CREAT|O_WRONLY|O_RDWR ...), mkdir, rename, unlink, symlink, link
                let is_write = (line.contains("openat(") && (line.contains("O_CREAT") || line.contains("O_WRONLY") || line.contains("O_RDWR")))
                    || line.contains(" mkdir(") || line.contains(" mkdirat(") || line.contains(" rename(") || line.contains(" renameat") || line.contains(" unlink(") || line.contains(" unlinkat(") || line.contains(" symlink") || line.contains(" link(") || line.contains(" creat(");
                if !is_write || line.contains("= -1 E") {
                    continue;
                }
                if let Some(start) = line.find('"') {
                    if let Some(end) = line[start + 1..].find('"') {
                        let p = &line[start + 1..start + 1 + end];
                        let abs = if p.starts_with('/') { PathBuf::from(p) } else { cwd.join(p) };
                        paths.push(abs.display().to_string());
                    }
                }
            }
        }
        created = Some(paths);
    }
    let probe = std::fs::read_to_string(&probe_file).ok();
    let t = tree(&out);
    // nothing may appear in the working directory
    let stray: Vec<String> = tree(&cwd).keys().cloned().collect();
    if !stray.is_empty() {
        created.get_or_insert_with(Vec::new).push(format!("{}/{}", cwd.display(), stray[0]));
    }
    let out_root = out.display().to_string();
    // the harness's own artefacts (hash-seed probe written by the preloaded shim)
    let own = probe_file.display().to_string();
    // lib2 generates once before into a second requested directory of its own
    let prior = work.join(format!("prior-{}-s{}", tag, seed)).display().to_string();
    let created = created.map(|c| c.into_iter().filter(|p| p != &own && !(entry == "lib2" && p.starts_with(&prior))).filter(|p| !(p == &out_root || p.starts_with(&format!("{}/", out_root)) || out_root.starts_with(&format!("{}/", p)) || (p.starts_with("/dev/") && !p.starts_with("/dev/shm/")))).collect::<Vec<_>>());
    (Run { tree: t, ok, stderr, probe }, created)
}

fn build_cli(report: &mut Report) -> bool {
    let status = Command::new("cargo")
        .args(["build", "--release", "--offline", "-q", "--manifest-path", "/repo/conjure-rust/Cargo.toml", "--target-dir", REPO_TARGET])
        .env("CARGO_NET_OFFLINE", "true")
        .env_remove("RUSTFLAGS")
        .env_remove("CARGO_TARGET_DIR")
        .output();
    match status {
        Ok(o) if o.status.success() => true,
        Ok(o) => {
            report.caps_hit.push(format!("building the conjure-rust CLI failed: {}", String::from_utf8_lossy(&o.stderr).chars().take(600).collect::<String>()));
            false
        }
        Err(e) => {
            report.caps_hit.push(format!("cannot run cargo: {}", e));
            false
        }
    }
}

fn extra_programs(work: &Path) -> Vec<(String, PathBuf)> {
    // (1) several packages, errors with safe/unsafe args, a service, extensions with
    //     recommended product dependencies (written into Cargo.toml metadata)
    let t = |n: &str, p: &str| json!({"name": n, "package": p});
    let s = json!({"type": "primitive", "primitive": "STRING"});
    let r = |n: &str, p: &str| json!({"type": "reference", "reference": {"name": n, "package": p}});
    let mut types = vec![];
    for (i, pkg) in ["com.a", "com.a.b", "com.a.c", "org.z", "com.a.b.d"].iter().enumerate() {
        for j in 0..4 {
            let name = format!("T{}x{}", i, j);
            let other = format!("T{}x{}", (i + 1) % 5, (j + 1) % 4);
            let other_pkg = ["com.a", "com.a.b", "com.a.c", "org.z", "com.a.b.d"][(i + 1) % 5];
            types.push(json!({"type": "object", "object": {"typeName": t(&name, pkg), "fields": [
                {"fieldName": "zeta", "type": s}, {"fieldName": "alpha", "type": {"type": "optional", "optional": {"itemType": r(&other, other_pkg)}}},
                {"fieldName": "mid", "type": {"type": "map", "map": {"keyType": s, "valueType": {"type": "primitive", "primitive": "DOUBLE"}}}}]}}));
        }
        types.push(json!({"type": "enum", "enum": {"typeName": t(&format!("E{}", i), pkg), "values": [{"value": "B"}, {"value": "A"}]}}));
        types.push(json!({"type": "union", "union": {"typeName": t(&format!("U{}", i), pkg), "union": [{"fieldName": "zz", "type": s}, {"fieldName": "aa", "type": r(&format!("E{}", i), pkg)}]}}));
    }
    let errors: Vec<Value> = (0..3)
        .map(|i| json!({"errorName": t(&format!("Err{}", i), "com.a.errs"), "namespace": "Ns", "code": "INVALID_ARGUMENT",
            "safeArgs": [{"fieldName": "zed", "type": s}, {"fieldName": "able", "type": s}, {"fieldName": "mike", "type": s}],
            "unsafeArgs": [{"fieldName": "yankee", "type": s}, {"fieldName": "bravo", "type": s}]}))
        .collect();
    let eps: Vec<Value> = (0..6)
        .map(|i| json!({"endpointName": format!("ep{}", (i * 5) % 6), "httpMethod": "POST", "httpPath": format!("/p/{}", i),
            "args": [{"argName": "b", "type": r("T0x0", "com.a"), "paramType": {"type": "body", "body": {}}, "markers": [], "tags": []},
                     {"argName": "q", "type": s, "paramType": {"type": "query", "query": {"paramId": "q"}}, "markers": [], "tags": []}],
            "returns": r("U1", "com.a.b"), "markers": [], "tags": []}))
        .collect();
    let ir = json!({"version": 1, "errors": errors, "types": types,
        "services": [{"serviceName": t("SvcB", "com.a.b"), "endpoints": eps.clone()}, {"serviceName": t("SvcA", "com.a"), "endpoints": eps}],
        "extensions": {"recommended-product-dependencies": [
            {"product-group": "g.z", "product-name": "z", "minimum-version": "1.0.0", "maximum-version": "1.x.x", "recommended-version": "1.2.0"},
            {"product-group": "g.a", "product-name": "a", "minimum-version": "2.0.0", "maximum-version": "2.x.x", "recommended-version": "2.2.0"}]}});
    let p = work.join("multi-package.json");
    std::fs::write(&p, serde_json::to_vec(&ir).unwrap()).unwrap();
    // (2) reference cycles in which a property of a type (has a double / is Copy / log safety /
    //     needs a box) is only reachable through a back edge, with observers outside the cycle:
    //     memoised answers must not depend on which type a hash table yields first
    let d = json!({"type": "primitive", "primitive": "DOUBLE"});
    let o = |x: Value| json!({"type": "optional", "optional": {"itemType": x}});
    let l = |x: Value| json!({"type": "list", "list": {"itemType": x}});
    let mut cyc = vec![];
    for k in 0..6 {
        let pkg = "com.graph";
        let n = |s: &str| format!("{}{}", s, k);
        cyc.push(json!({"type": "object", "object": {"typeName": t(&n("Node"), pkg), "fields": [{"fieldName": "edge", "type": o(r(&n("Edge"), pkg))}, {"fieldName": "weight", "type": d}]}}));
        cyc.push(json!({"type": "object", "object": {"typeName": t(&n("Edge"), pkg), "fields": [{"fieldName": "target", "type": o(r(&n("Node"), pkg))}, {"fieldName": "label", "type": s}]}}));
        cyc.push(json!({"type": "object", "object": {"typeName": t(&n("Route"), pkg), "fields": [{"fieldName": "hops", "type": l(r(&n("Edge"), pkg))}, {"fieldName": "name", "type": s}]}}));
        cyc.push(json!({"type": "union", "union": {"typeName": t(&n("Pick"), pkg), "union": [{"fieldName": "route", "type": r(&n("Route"), pkg)}, {"fieldName": "edge", "type": r(&n("Edge"), pkg)}]}}));
        cyc.push(json!({"type": "alias", "alias": {"typeName": t(&n("Edges"), pkg), "alias": l(r(&n("Edge"), pkg))}}));
    }
    let eps: Vec<Value> = (0..6)
        .map(|k| json!({"endpointName": format!("put{}", k), "httpMethod": "POST", "httpPath": format!("/r/{}", k),
            "args": [{"argName": "b", "type": r(&format!("Route{}", k), "com.graph"), "paramType": {"type": "body", "body": {}}, "markers": [], "tags": []}],
            "returns": r(&format!("Pick{}", k), "com.graph"), "markers": [], "tags": []}))
        .collect();
    let ir2 = json!({"version": 1, "errors": [], "types": cyc, "services": [{"serviceName": t("Graphs", "com.graph"), "endpoints": eps}], "extensions": {}});
    let p2 = work.join("cycles-with-back-edge-doubles.json");
    std::fs::write(&p2, serde_json::to_vec(&ir2).unwrap()).unwrap();
    // (3) package components that are not identifiers (path separators, dot-dot, an absolute
    //     path, upper case, spaces): whatever the generator makes of them, it stays beneath the
    //     output directory
    let esc = work.join("escape-target");
    let pkgs = [format!("com.example.{}/abs", esc.display()), "com.example.a/../../../../escape-rel".to_string(), "com.example.a b".to_string(), "com.example.A-B".to_string(), "com.example./".to_string()];
    let hostile: Vec<Value> = pkgs
        .iter()
        .enumerate()
        .map(|(i, pkg)| json!({"type": "object", "object": {"typeName": t(&format!("Foo{}", i), pkg), "fields": [{"fieldName": "a", "type": s}]}}))
        .collect();
    let mut out = vec![("multi-package".to_string(), p), ("cycles-with-back-edge-doubles".to_string(), p2)];
    // (4) distinct names of one package that map to the same module file (HTTPStatus / HttpStatus
    //     -> http_status.rs; a type and a service; a type and an error): whichever definition wins
    //     the file, it is the same one in every run
    {
        let mut types = vec![];
        for i in 0..16 {
            types.push(json!({"type": "object", "object": {"typeName": t(&format!("HTTPStatus{}", i), "com.verif.clash"), "fields": [{"fieldName": "upper", "type": s}]}}));
            types.push(json!({"type": "object", "object": {"typeName": t(&format!("HttpStatus{}", i), "com.verif.clash"), "fields": [{"fieldName": "lower", "type": s}, {"fieldName": "n", "type": {"type": "primitive", "primitive": "INTEGER"}}]}}));
        }
        types.push(json!({"type": "enum", "enum": {"typeName": t("FooBar", "com.verif.clash"), "values": [{"value": "A"}]}}));
        types.push(json!({"type": "alias", "alias": {"typeName": t("Foo_Bar", "com.verif.clash"), "alias": s}}));
        let svc = json!({"serviceName": t("HttpStatus0", "com.verif.clash"), "endpoints": []});
        let ir4 = json!({"version": 1, "errors": [], "types": types, "services": [svc], "extensions": {}});
        let p4 = work.join("colliding-modules.json");
        std::fs::write(&p4, serde_json::to_vec(&ir4).unwrap()).unwrap();
        out.push(("colliding-module-names".to_string(), p4));
    }
    for (i, ty) in hostile.into_iter().enumerate() {
        let ir3 = json!({"version": 1, "errors": [], "types": [ty], "services": [], "extensions": {}});
        let p3 = work.join(format!("odd-package-{}.json", i));
        std::fs::write(&p3, serde_json::to_vec(&ir3).unwrap()).unwrap();
        out.push((format!("odd-package-name-{}", i), p3));
    }
    out
}

pub fn run(args: &Args) -> Report {
    let mut report = Report::new("C20", "exploration");
    if !Path::new(SHIM).exists() {
        let _ = std::fs::create_dir_all("/verif/target/shim");
        let _ = Command::new("gcc").args(["-shared", "-fPIC", "-O2", "-o", SHIM, "/verif/engines/shim/getrandom_shim.c"]).status();
    }
    if !Path::new(SHIM).exists() {
        report.caps_hit.push("getrandom shim missing and gcc failed".into());
        return report;
    }
    if !build_cli(&mut report) {
        return report;
    }
    let thorough = args.tier.is_thorough();
    let work = scratch("c20");
    let mut programs: Vec<(String, PathBuf)> = vec![("conjure-test/test-ir.json".into(), PathBuf::from("/repo/conjure-test/test-ir.json")), ("verif/ir/http.json".into(), PathBuf::from("/verif/ir/http.json"))];
    programs.extend(extra_programs(&work));
    for f in ["example-types-ir.json", "conjure-api-4.32.0.conjure.json"] {
        if let Ok(ex) = std::fs::canonicalize(format!("/repo/conjure-codegen/{}", f)) {
            programs.push((format!("conjure-codegen/{}", f), ex));
        }
    }
    // incl. a prefix with a trailing separator (whatever it means, both entry points agree on it)
    let strips: Vec<Option<&'static str>> = vec![None, Some("com"), Some("com.palantir.conjure"), Some("com.palantir.")];
    let mut cfgs = vec![];
    for exhaustive in [false, true] {
        for serialize_empty in [false, true] {
            for strip in &strips {
                for krate in [None, Some(("my-product", "1.2.3", None)), Some(("my-product", "1.2.3", Some("0.9.0")))] {
                    cfgs.push(Cfg { exhaustive, serialize_empty, strip: *strip, krate });
                }
            }
        }
    }
    if !thorough {
        // quick: every flag value appears, not the full product
        let dotted = cfgs.iter().find(|c| c.strip == Some("com.palantir.") && c.krate.is_none() && !c.exhaustive && c.serialize_empty).cloned().unwrap();
        cfgs = vec![cfgs[0].clone(), cfgs[cfgs.len() - 1].clone(), cfgs[7].clone(), cfgs[22].clone(), dotted];
    }
    let seeds: Vec<u64> = (0..args.tier.pick(4u64, 32u64)).collect();
    let jobs: Vec<(usize, usize)> = (0..programs.len()).flat_map(|p| (0..cfgs.len()).map(move |c| (p, c))).collect();
    let parts: Vec<Report> = jobs
        .par_iter()
        .map(|(pi, ci)| {
            let mut r = Report::new("C20", "exploration");
            let (pname, ppath) = &programs[*pi];
            let cfg = &cfgs[*ci];
            let tag = format!("p{}c{}", pi, ci);
            let mut reference: Option<(String, BTreeMap<String, Vec<u8>>)> = None;
            // the version-unset configuration has no CLI spelling: its two entries are compared
            // with each other
            let mut reference5: Option<(String, BTreeMap<String, Vec<u8>>)> = None;
            let mut probes = BTreeSet::new();
            for (si, seed) in seeds.iter().enumerate() {
                for entry in ["lib", "cli", "lib2", "lib3", "lib4", "lib5a", "lib5b"] {
                    if entry.starts_with("lib5") && (cfg.krate.is_none() || si > 1) {
                        continue;
                    }
                    let reference = if entry.starts_with("lib5") { &mut reference5 } else { &mut reference };
                    r.states += 1;
                    r.evaluations += 1;
                    r.transitions += 1;
                    let strace = si == 0;
                    let (run, outside) = generate(entry, ppath, cfg, *seed, &work, &tag, strace);
                    let case = json!({"program": pname, "config": cfg.text(), "entry": entry, "seed": seed});
                    if !run.ok {
                        // generation failure is C03's business; both entries and all seeds must agree on it
                        r.outcome("generation-failed");
                        // ... but even a failing generation may only touch the output directory
                        if let Some(outside) = &outside {
                            if !outside.is_empty() {
                                r.violation(format!("C20|{}|writes-outside-output-directory|{}", pname, entry), format!("{} [{}] via {} (generation failed: {}): created/wrote {:?} outside the requested output directory", pname, cfg.text(), entry, run.stderr.chars().take(120).collect::<String>(), &outside[..outside.len().min(3)]), case.clone());
                            }
                        }
                        if (*reference).as_ref().map(|x| !x.1.is_empty()).unwrap_or(false) {
                            r.violation(format!("C20|{}|fails-only-sometimes", pname), format!("{} [{}] failed under {} seed {} but succeeded elsewhere: {}", pname, cfg.text(), entry, seed, run.stderr), case);
                        }
                        continue;
                    }
                    if let Some(p) = &run.probe {
                        probes.insert(p.clone());
                    }
                    if let Some(outside) = outside {
                        if !outside.is_empty() {
                            r.violation(format!("C20|{}|writes-outside-output-directory|{}", pname, entry), format!("{} [{}] via {}: created/wrote {:?} outside the requested output directory", pname, cfg.text(), entry, &outside[..outside.len().min(3)]), case.clone());
                        } else {
                            r.outcome("file-activity-only-beneath-output-dir");
                        }
                    }
                    match &*reference {
                        None => *reference = Some((format!("{} seed {}", entry, seed), run.tree)),
                        Some((what, t)) => match diff(t, &run.tree) {
                            None => r.outcome("identical-tree"),
                            Some(d) => {
                                let kind = if what.starts_with(&format!("{} ", entry)) { "differs-across-hash-seeds" } else if entry == "lib2" { "library-after-another-generation-in-the-same-process" } else if entry == "lib3" { "generation-over-an-older-tree" } else if entry == "lib4" || entry == "lib5b" { "same-configuration-through-another-setter-sequence" } else { "library-vs-cli" };
                                r.violation(format!("C20|{}|{}|{}", pname, kind, cfg.text()), format!("{} [{}]: output of {} seed {} differs from {}: {}", pname, cfg.text(), entry, seed, what, d), case);
                            }
                        },
                    }
                }
            }
            r.extra.insert(format!("hash_orders_seen:{}:{}", pi, ci), json!(probes.len()));
            if let Some((_, t)) = &reference {
                r.extra.insert(format!("files:{}:{}", pi, ci), json!(t.len()));
            }
            r
        })
        .collect();
    let mut orders = 0u64;
    for p in parts {
        for (k, v) in &p.extra {
            if k.starts_with("hash_orders_seen") {
                orders = orders.max(v.as_u64().unwrap_or(0));
            }
        }
        let mut p = p;
        p.extra.clear();
        report.merge(p);
    }
    let _ = std::fs::remove_dir_all(&work);
    report.extra.insert("max_distinct_hashmap_orders_observed_in_probe".into(), json!(orders));
    report.sample("run", json!({"program": "conjure-test/test-ir.json", "config": cfgs[0].text(), "entries": ["lib", "cli"], "seeds": seeds}));
    report.bound("programs", json!(programs.iter().map(|p| p.0.clone()).collect::<Vec<_>>()));
    report.bound("configs", cfgs.len());
    report.bound("hash_seeds", seeds.len());
    report.nontrivial = report.states;
    report.exhaustive = true;
    report.rule = "states = (program, configuration, entry point, hash seed): each generation in a fresh process, fresh differently named output directory and working directory, with the process hash seed fixed by an LD_PRELOAD getrandom shim; all trees of a (program, configuration) must be byte-identical across seeds and between the library entry point and the CLI; the first run of each is traced with strace for file creations outside the output directory".into();
    report.assumptions.push("the seed set is enumerated completely, but seeds are not iteration orders: for hash tables with many entries only a few of the possible orders are visited (the probe reports how many distinct orders a table with the IR's type names took)".into());
    report.assumptions.push("strace sees file-system calls of the generator process tree only".into());
    report
}
